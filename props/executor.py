"""Harness library for the command layer of the proxy (C20, C16, C09): the real ForwardHandler::handle_cmd_ctx is run
from its MIR (async handlers are the compiler's coroutines, polled by the executor) with
  * a stand-in for MetaManager (`send` hands the command to a storing Redis stand-in written here and commits the reply
    through the real DecompressCommitHandler::handle_task),
  * a stand-in for the compression config source (CompressionStrategyConfig trait),
  * real Command / CmdCtx / CmdReplySender / CmdReplyReceiver / TaskReply objects.
Everything listed here as a stand-in is reported in the evidence of the checks using it."""
import z3
from mirsym.values import *
from mirsym.models.misc import ZSTD_MAGIC

OK_TEXT = b'OK'


def bulk(e, cells):
    vi = e.src.variant_index
    return Enum('Resp', vi('Resp', 'Bulk'), [Enum('BulkStr', vi('BulkStr', 'Str'), [RVec([c if isinstance(c, Cell) else Cell(c) for c in cells])])])


def nil_bulk(e):
    vi = e.src.variant_index
    return Enum('Resp', vi('Resp', 'Bulk'), [Enum('BulkStr', vi('BulkStr', 'Nil'))])


def simple(e, bs):
    return Enum('Resp', e.src.variant_index('Resp', 'Simple'), [RVec([Cell(b) for b in bs])])


def integer(e, n):
    return Enum('Resp', e.src.variant_index('Resp', 'Integer'), [RVec([Cell(b) for b in str(n).encode()])])


def error(e, bs):
    return Enum('Resp', e.src.variant_index('Resp', 'Error'), [RVec([Cell(b) for b in bs])])


def array(e, items):
    vi = e.src.variant_index
    return Enum('Resp', vi('Resp', 'Arr'), [Enum('Array', vi('Array', 'Arr'), [RVec([Cell(x) for x in items])])])


def data_packet(e, resp):
    return Enum('RespPacket', e.src.variant_index('RespPacket', 'Data'), [resp])


def make_cmd_ctx(e, elems, session_id=1):
    """elems: list of byte lists (ints / z3 bytes) -> (real CmdCtx, real CmdReplyReceiver)"""
    pkt = data_packet(e, array(e, [bulk(e, x) for x in elems]))
    cmd = e.run_func(e.find_fn('Command', 'new'), [Ref(Cell(pkt), 'Box')])
    pair = e.call('command::new_command_pair', [Ref(Cell(cmd))])
    ctx = e.run_func(e.find_fn('CmdCtx', 'new'), [cmd, pair.f[0].v, session_id, False])
    return ctx, pair.f[1].v


def cmd_elements(e, ctx):
    """the elements of the command held by a CmdCtx, through the real accessors: list of cell lists"""
    ctx = un(ctx)
    cmd = e.run_func(e.find_fn('CmdCtx', 'get_cmd'), [Ref(Cell(ctx))])
    n = e.run_func(e.find_fn('Command', 'get_command_len'), [cmd])
    if n.variant == 0: return None
    out = []
    for i in range(n.f[0].v):
        el = e.run_func(e.find_fn('Command', 'get_command_element'), [cmd, i])
        out.append([c.v for c in deref_vec(el.f[0].v).cells])
    return out


def cmd_element_vecs(e, ctx):
    """like cmd_elements but the byte-vector values themselves (they may be structured text without byte cells)"""
    ctx = un(ctx)
    cmd = e.run_func(e.find_fn('CmdCtx', 'get_cmd'), [Ref(Cell(ctx))])
    n = e.run_func(e.find_fn('Command', 'get_command_len'), [cmd])
    if n.variant == 0: return None
    return [deref_vec(e.run_func(e.find_fn('Command', 'get_command_element'), [cmd, i]).f[0].v) for i in range(n.f[0].v)]


def as_bytes(vals):
    """concrete bytes of a list of byte values, or None if any is symbolic"""
    if any(is_sym(v) for v in vals): return None
    return bytes(int(v) for v in vals)


class StrategyCfg(PyObj):
    """stand-in for the compression config source (trait CompressionStrategyConfig)"""
    def __init__(self, strategy): self.strategy = strategy
    def m_get_config(self, e, selfref):
        return Enum('CompressionStrategy', e.src.variant_index('CompressionStrategy', self.strategy))


class ReadyFuture(PyObj):
    def __init__(self, v): self.v = v
    def m_poll(self, e, *a): return Enum('Poll', 0, [self.v])


class RedisStandIn:
    """a storing Redis stand-in: executes the string commands the property is about on a Python dict
    key bytes -> list of byte values (stored exactly as they arrived)"""
    def __init__(self):
        self.db = {}; self.log = []

    def execute(self, e, elems):
        name = as_bytes(elems[0])
        if name is None: raise Unmodelled('symbolic command name at the Redis stand-in')
        name = name.upper(); args = elems[1:]
        self.log.append((name, [list(a) for a in args]))
        def key(i):
            k = as_bytes(args[i])
            if k is None: raise Unmodelled('symbolic key at the Redis stand-in')
            return k
        if name == b'SET':
            if len(args) < 2: return error(e, b'ERR wrong number of arguments')
            opts = [as_bytes(a) for a in args[2:]]
            k = key(0)
            if b'NX' in [o.upper() for o in opts if o] and k in self.db: return nil_bulk(e)
            if b'XX' in [o.upper() for o in opts if o] and k not in self.db: return nil_bulk(e)
            self.db[k] = list(args[1]); return simple(e, OK_TEXT)
        if name in (b'SETEX', b'PSETEX'):
            if len(args) != 3: return error(e, b'ERR wrong number of arguments')
            self.db[key(0)] = list(args[2]); return simple(e, OK_TEXT)
        if name == b'SETNX':
            if len(args) != 2: return error(e, b'ERR wrong number of arguments')
            k = key(0)
            if k in self.db: return integer(e, 0)
            self.db[k] = list(args[1]); return integer(e, 1)
        if name == b'GETSET':
            if len(args) != 2: return error(e, b'ERR wrong number of arguments')
            k = key(0); old = self.db.get(k)
            self.db[k] = list(args[1])
            return bulk(e, old) if old is not None else nil_bulk(e)
        if name == b'GET':
            if len(args) != 1: return error(e, b'ERR wrong number of arguments')
            old = self.db.get(key(0))
            return bulk(e, old) if old is not None else nil_bulk(e)
        if name == b'MGET':
            return array(e, [bulk(e, self.db[key(i)]) if key(i) in self.db else nil_bulk(e) for i in range(len(args))])
        if name in (b'MSET', b'MSETNX'):
            if len(args) % 2 or not args: return error(e, b'ERR wrong number of arguments')
            if name == b'MSETNX' and any(key(i) in self.db for i in range(0, len(args), 2)): return integer(e, 0)
            for i in range(0, len(args), 2): self.db[key(i)] = list(args[i + 1])
            return simple(e, OK_TEXT) if name == b'MSET' else integer(e, 1)
        if name == b'DEL':
            n = 0
            for i in range(len(args)):
                if self.db.pop(key(i), None) is not None: n += 1
            return integer(e, n)
        if name == b'EXISTS':
            return integer(e, sum(1 for i in range(len(args)) if key(i) in self.db))
        if name == b'STRLEN':
            v = self.db.get(key(0)); return integer(e, len(v) if v else 0)
        if name == b'APPEND':
            k = key(0); self.db[k] = self.db.get(k, []) + list(args[1]); return integer(e, len(self.db[k]))
        return simple(e, OK_TEXT)


class MockManager(PyObj):
    """stand-in for MetaManager<F, C>: `send` executes on the Redis stand-in and commits the reply through the real
    result handler (DecompressCommitHandler::handle_task)"""
    def __init__(self, redis, strategy, commit=True):
        self.redis = redis; self.sent = []; self.commit = commit
        self.handler = Struct('DecompressCommitHandler', [Struct('CmdReplyDecompressor', [StrategyCfg(strategy)]), Struct('PhantomData', [])])

    def m_send(self, e, selfref, cmd_ctx):
        elems = cmd_elements(e, cmd_ctx)
        self.sent.append(elems)
        e.events.append(('backend', elems))
        if not self.commit: return mk_unit()
        reply = self.redis.execute(e, elems)
        e.generic_env['T'] = 'CmdCtx'
        e.run_func(e.find_fn('DecompressCommitHandler', 'handle_task', 'CmdTaskResultHandler'),
                   [Ref(Cell(self.handler)), cmd_ctx, Ok(data_packet(e, reply))])
        return mk_unit()

    def m_ensure_keys_imported(self, e, selfref, cmd_ctx, keys):
        return ReadyFuture(Ok(mk_unit()))


def make_handler(e, strategy, redis=None, active_redirection=False, password=None, commit=True):
    fields = e.src.structs['ServerProxyConfig']
    cfg = Struct('ServerProxyConfig', [Opaque('cfg:' + f) for f in fields])
    cfg.f[fields.index('active_redirection')].v = active_redirection
    cfg.f[fields.index('password')].v = NONE() if password is None else Some(RStr(password))
    cfg.f[fields.index('max_redirections')].v = NONE()
    cfg.f[fields.index('default_redirection_address')].v = NONE()
    redis = redis if redis is not None else RedisStandIn()
    mgr = MockManager(redis, strategy, commit)
    hf = e.src.structs['ForwardHandler']
    vals = {'config': Ref(Cell(cfg), 'Arc'), 'manager': mgr, 'compressor': Struct('CmdCompressor', [StrategyCfg(strategy)])}
    h = Struct('ForwardHandler', [vals.get(f, Opaque('handler:' + f)) for f in hf])
    return h, mgr, redis


def handle(e, h, elems, authenticated=True):
    """run one request through the real handle_cmd_ctx and drive the returned future: the reply Resp tree"""
    ctx, rcv = make_cmd_ctx(e, elems)
    auth = Struct('Atomic', [authenticated])
    fut = e.run_func(e.find_fn('ForwardHandler', 'handle_cmd_ctx', 'CmdCtxHandler'), [Ref(Cell(h)), ctx, rcv, Ref(Cell(auth))])
    return e.block_on(Ref(Cell(fut)))


def reply_resp(e, task_result):
    """TaskResult -> ('ok', reply Resp value as python tree) | ('err', variant name)"""
    r = un(task_result)
    if r.variant == 1: return ('err', e.src.enums['CommandError'][un(r.f[0].v).variant])
    tr = un(r.f[0].v)          # Box<TaskReply>
    pkt = un(tr.f[e.src.structs['TaskReply'].index('packet')].v)
    return ('ok', packet_tree(e, pkt))


def packet_tree(e, pkt):
    """RespPacket (Data or Indexed) -> python tree of (kind, payload byte values | children | None)"""
    pkt = un(pkt)
    kind = e.src.enums['RespPacket'][pkt.variant]
    if kind == 'Data': return resp_tree(e, pkt.f[0].v)
    r = e.run_func(e.find_fn('RespPacket', 'to_resp_slice'), [Ref(Cell(pkt))])
    return resp_tree(e, r)


def resp_tree(e, r):
    r = un(r); E = e.src.enums
    kind = E['Resp'][r.variant]; x = un(r.f[0].v)
    if kind in ('Error', 'Simple', 'Integer'): return (kind, [c.v for c in deref_vec(x).cells])
    if kind == 'Bulk':
        return ('Bulk', None if E['BulkStr'][x.variant] == 'Nil' else [c.v for c in deref_vec(x.f[0].v).cells])
    if E['Array'][x.variant] == 'Nil': return ('Arr', None)
    return ('Arr', [resp_tree(e, c.v) for c in deref_vec(x.f[0].v).cells])


def bytes_eq(a, b):
    """equality of two lists of byte values (python ints / z3 bytes) -> bool or z3 Bool"""
    if a is None or b is None: return a is None and b is None
    if len(a) != len(b): return False
    return zand([veq(x, y) for x, y in zip(a, b)])


def decoded(vals):
    """the model's inverse of zstd::encode_all on a list of byte values: (is_frame, payload)"""
    if len(vals) < 4: return False, None
    return zand([veq(vals[i], ZSTD_MAGIC[i]) for i in range(4)]), vals[4:]
