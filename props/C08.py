"""C08 - every request gets exactly one reply, in order, from its own backend exchange (decided in part).
The two poll loops that carry the property are executed from their MIR with the environment as symbolic choices:
  (A) backend::handle_conn (+ handle_conn_err, BatchState): arrival of tasks, readiness of the sink, flushes, replies and
      faults of the backend connection, timer ticks; two connections in sequence (retry state handed over);
  (B) session::handle_session: arrival of requests, completion order/time of the per-request reply futures (real
      CmdReplySender / CmdReplyReceiver pairs, completed, failed or dropped by the environment), readiness of the
      client sink, session timer;
  (C) ReqTask::set_result fan-out and CmdReplySender send-once / Drop.
Oracle: a reply is delivered only to the request that elicited it, at most once, in request order; a request whose
exchange fails ends with an error (or is handed to the retry state in order), never silently."""
import z3
from mirsym.values import *
from mirsym.models.futures import env_choice

MAX_BACKEND_RETRY = None   # read from the source at run time


# ---------------------------------------------------------------- (A) backend connection
class Pkt(PyObj):
    """a request / reply packet; `tag` identifies the exchange it belongs to"""
    def __init__(self, tag, kind): self.tag = tag; self.kind = kind
    def m_get_size_hint(self, e, s): return Some(10)
    def __repr__(self): return '%s%s' % (self.kind, self.tag)


class Task(PyObj):
    """a CmdTask (crate trait) standing for one client request"""
    def __init__(self, tag): self.tag = tag; self.results = []; self.events = []
    def m_get_packet(self, e, s): return Pkt(self.tag, 'req')
    def m_log_event(self, e, s, ev): self.events.append(ev); return mk_unit()
    def m_set_result(self, e, s, r): self.results.append(('set_result', r)); return mk_unit()
    def m_set_resp_result(self, e, s, r): self.results.append(('set_resp_result', r)); return mk_unit()
    def __repr__(self): return 'task%s' % self.tag


class Handler(PyObj):
    """CmdTaskResultHandler: records which task was completed with which packet"""
    def __init__(self): self.handled = []
    def m_handle_task(self, e, s, task, res):
        t = un(task); r = un(res)
        self.handled.append((t, r)); t.results.append(('handled', r)); return mk_unit()


class Env:
    """the environment of one connection: what arrives / is ready / fails at which poll round"""
    def __init__(self, e, tasks, fault, policy=None):
        self.e = e; self.pending_tasks = list(tasks); self.received = []; self.wire = []; self.replied = 0
        self.fault = fault          # (site, round) or None; sites: ready, send, flush, read_err, read_closed, rx_closed
        self.round = 0; self.quota = {}; self.registered = set()
        self.flushed = 0
        self.script = {'rx': [], 'ready': [], 'send': [], 'flush': [], 'stream': [], 'tick': []}   # answers in call order, for the native replay
        self.rounds_polled = 0
        # which environment dimensions are free in this scenario (the others take their benign value): keeps the
        # product of choices per scenario small; every dimension is free in some scenario family
        self.policy = dict({'arrive': 'free', 'sink': 'free', 'flush': 'ready', 'reply': 'free', 'tick': 'never'}, **(policy or {}))

    def begin_round(self):
        self.round += 1; self.quota = {}; self.registered = set()

    def pending(self, source):
        """an event source answered Pending: the task's waker is registered there"""
        self.registered.add(source)
        key = {'task-channel': 'rx', 'backend-stream': 'stream'}.get(source)
        if key: self.script[key].append('pending')
        return Enum('Poll', 1)

    def say(self, key, what):
        self.script[key].append(what)

    def fault_now(self, site):
        return self.fault is not None and self.fault[0] == site and self.fault[1] == self.round

    def budget(self, key, n_max, label):
        """how many times an event may happen in this round: decided once per round (symbolic choice 0..n_max)"""
        if key not in self.quota:
            self.quota[key] = self.e.choose(n_max + 1, label) if n_max > 0 else 0
        return self.quota[key]


class Rx(PyObj):
    def __init__(self, env): self.env = env
    def m_poll_next(self, e, s, cx):
        env = self.env
        if not env.pending_tasks:
            if env.fault_now('rx_closed'): env.say('rx', 'closed'); return Enum('Poll', 0, [NONE()])
            return env.pending('task-channel')
        q = env.budget('arrive', len(env.pending_tasks), 'arrivals') if env.policy['arrive'] == 'free' else len(env.pending_tasks) + env.quota.get('arrived', 0)
        done = env.quota.setdefault('arrived', 0)
        if done < q:
            env.quota['arrived'] = done + 1
            t = env.pending_tasks.pop(0); env.received.append(t); env.say('rx', 'task:%d' % t.tag)
            return Enum('Poll', 0, [Some(t)])
        return env.pending('task-channel')


def io_error(): return Enum('BackendError', 0, [Opaque('io::Error', 'broken pipe')])


class Sink(PyObj):
    def __init__(self, env): self.env = env
    def m_poll_ready(self, e, s, cx):
        env = self.env
        if env.fault_now('ready'): env.say('ready', 'err'); return Enum('Poll', 0, [Err(io_error())])
        q = env.budget('ready', 2, 'sink-ready') if env.policy['sink'] == 'free' else 2      # 0, 1 or any number of items
        done = env.quota.setdefault('readied', 0)
        if q == 2 or done < q:
            env.quota['readied'] = done + 1; env.say('ready', 'ready')
            return Enum('Poll', 0, [Ok(mk_unit())])
        env.say('ready', 'pending')
        return env.pending('backend-sink')
    def m_start_send(self, e, s, item):
        env = self.env
        if env.fault_now('send'): env.say('send', 'err'); return Err(io_error())
        env.wire.append(un(item)); env.say('send', 'ok'); return Ok(mk_unit())
    def m_poll_flush(self, e, s, cx):
        env = self.env
        if env.fault_now('flush'): env.say('flush', 'err'); return Enum('Poll', 0, [Err(io_error())])
        if env.policy['flush'] == 'ready' or env.budget('flush', 1, 'flush-ready') == 1:
            env.flushed = len(env.wire); env.say('flush', 'ok'); return Enum('Poll', 0, [Ok(mk_unit())])
        env.say('flush', 'pending')
        return env.pending('backend-sink')
    def m_as_mut(self, e, s): return s


class Stream(PyObj):
    """the backend answers the requests it has received, in order (a Redis connection is FIFO)"""
    def __init__(self, env): self.env = env
    def m_poll_next(self, e, s, cx):
        env = self.env
        if env.fault_now('read_err'): env.say('stream', 'err'); return Enum('Poll', 0, [Some(Err(io_error()))])
        if env.fault_now('read_closed'): env.say('stream', 'closed'); return Enum('Poll', 0, [NONE()])
        outstanding = len(env.wire) - env.replied
        if outstanding <= 0 or env.policy['reply'] == 'none': return env.pending('backend-stream')
        q = env.budget('reply', outstanding, 'replies')
        done = env.quota.setdefault('replied', 0)
        if done < q:
            env.quota['replied'] = done + 1
            req = env.wire[env.replied]; env.replied += 1; env.say('stream', 'reply:%d' % req.tag)
            return Enum('Poll', 0, [Some(Ok(Pkt(req.tag, 'reply')))])
        return env.pending('backend-stream')


def run_conn(e, env, handler, retry_state, strategy, rounds):
    """one connection: returns ('pending', None) | ('ok', None) | ('err', (error, retry_state))"""
    hc = e.find_free_fn('backend::handle_conn')
    strat = Enum('BatchStrategy', e.src.variant_index('BatchStrategy', strategy))
    dur = Struct('Duration', [1, 0])
    e.generic_env['H'] = 'Handler'
    fut = e.run_func(hc, [Sink(env), Stream(env), Ref(Cell(Rx(env))), Ref(Cell(handler), 'Arc'), retry_state,
                          Ref(Cell(Struct('BatchStats', [Struct('Atomic', [0]), Struct('Atomic', [0])])), 'Arc'), strat, 1024, dur, dur, dur])
    cell = Cell(fut)
    e.pending_hook = lambda src: env.registered.add(src)
    base_hook = e.env_hook
    def hook(label, k):
        v = base_hook(label, k)
        if label == 'tick': env.say('tick', 'tick' if v else 'pending')
        return v
    e.env_hook = hook
    for _ in range(rounds):
        env.begin_round(); env.rounds_polled += 1
        r = e.poll(Ref(cell))
        if r.variant == 1 and not env.registered: env.lost_wakeup = env.round
        if r.variant == 0:
            e.env_hook = base_hook
            res = un(r.f[0].v)
            if res.variant == 0: return 'ok', None
            tup = un(res.f[0].v)
            return 'err', (un(tup.f[0].v), un(tup.f[1].v))
    e.env_hook = base_hook
    return 'pending', None


def conn_oracle(ctx, e, name, tasks, env1, env2, handler, outcome, final_retry, rp=None):
    """items for require_all: matching, exactly-once, order, no silence"""
    items = []
    def wit(m=None):
        return {'scenario': name, 'fault': env1.fault, 'wire#1': [repr(p) for p in env1.wire], 'wire#2': [repr(p) for p in env2.wire] if env2 else None,
                'handled': [(repr(t), repr(r)) for t, r in handler.handled], 'results': {repr(t): [(k, repr(v)[:60]) for k, v in t.results] for t in tasks},
                'outcome': outcome, 'retry_state': repr(final_retry)[:200]}
    # (1) a reply reaches only the request that elicited it
    ok = True
    for t, r in handler.handled:
        if r.variant == 0:
            p = un(r.f[0].v)
            if not (isinstance(p, Pkt) and p.kind == 'reply' and p.tag == t.tag): ok = False
    items.append(('reply-delivered-to-its-own-request', 'C08/reply-delivered-to-another-request/' + name, ok, wit))
    # (1b) a poll that returns Pending has registered its waker with at least one event source
    for env in (env1, env2):
        if env is not None:
            items.append(('pending-poll-registers-a-waker', 'C08/connection-sleeps-without-waker/' + name, getattr(env, 'lost_wakeup', None) is None, wit))
    # (2) at most one completion per task
    items.append(('at-most-one-reply-per-request', 'C08/request-completed-twice/' + name, all(len(t.results) <= 1 for t in tasks), wit))
    # (backend-level ordering is not part of the statement - the session orders replies by its own queue - so the order of
    #  requests on the wire and of completions is recorded in the witness only)
    # (5) never silence: when the connection handling has ended with an error, every received request is answered,
    #     failed with an error, or handed over (in order) for retry on the next connection
    if outcome[0] == 'err':
        retry_tasks = []
        if final_retry is not None and isinstance(final_retry, Enum) and final_retry.variant == 1:
            rs = un(final_retry.f[0].v)
            retry_tasks = [un(c.v) for c in deref_vec(rs.f[e.src.structs['RetryState'].index('tasks')].v).cells]
        received = env1.received + (env2.received if env2 else [])
        for t in received:
            n = len(t.results) + (1 if any(t is x for x in retry_tasks) else 0)
            items.append(('failed-exchange-is-answered', 'C08/request-lost-after-connection-error/' + name, n == 1, wit))
    ctx.require_all(e, items, replay=rp)


FAULT_SITES = ['ready', 'send', 'flush', 'read_err', 'read_closed']


def backend_conn(ctx, job):
    n = job['tasks']; rounds = job['rounds']; strategy = job['strategy']
    tick_free = (job.get('policy') or {}).get('tick') == 'free'
    def setup(e):
        e.env_hook = lambda label, k: (e.choose(k, label) if tick_free or label != 'tick' else 0)
        e.loop_budget = 64
    def run(e):
        tasks = [Task(i + 1) for i in range(n)]
        handler = Handler()
        fault = job['fault']
        env1 = Env(e, tasks[:job['first']], fault, job.get('policy'))
        env1.expected_order = tasks[:job['first']]
        envs = [env1]
        out = run_conn(e, env1, handler, NONE(), strategy, rounds)
        env2 = None; final_retry = None
        if out[0] == 'err':
            final_retry = out[1][1]
            nconn = 1
            # the caller (handle_backend) opens a new connection and hands the retry state over; with a persistent
            # fault this repeats, and must end with every request answered after a bounded number of connections
            while job.get('second') and isinstance(final_retry, Enum) and final_retry.variant == 1 and nconn < job.get('max_conns', 2):
                rs = un(final_retry.f[0].v)
                retry_tasks = [un(c.v) for c in deref_vec(rs.f[e.src.structs['RetryState'].index('tasks')].v).cells]
                prev = env2 or env1
                prev.received = [t for t in prev.received if not any(t is x for x in retry_tasks)]
                if env2 is not None: env1.received += prev.received
                env2 = Env(e, tasks[job['first']:] if nconn == 1 else [], job.get('fault2'), job.get('policy'))
                env2.expected_order = retry_tasks + (tasks[job['first']:] if nconn == 1 else [])
                envs.append(env2)
                out2 = run_conn(e, env2, handler, final_retry, strategy, rounds)
                nconn += 1
                env2.received = retry_tasks + env2.received
                if out2[0] == 'err': final_retry = out2[1][1]; out = out2
                else: final_retry = None; out = out2; break
            if job.get('persistent'):
                left = isinstance(final_retry, Enum) and final_retry.variant == 1
                ctx.require_all(e, [('failing-exchange-ends-with-an-error-reply', 'C08/request-retried-forever/' + job['name'], not left,
                                     lambda m=None: {'scenario': job['name'], 'connections': nconn, 'results': {repr(t): [k for k, v in t.results] for t in tasks}})],
                                replay=lambda m=None: (None if any('tick' in en.script['tick'] for en in envs) else
                                                       {'kind': 'rust-test', 'filter': 'verif_replay_conn', 'spec': {'persistent': True, 'conns': [{'rounds': en.rounds_polled, 'script': en.script} for en in envs]}}))
        def rp(m=None):
            if strategy != 'Disabled' or any('tick' in en.script['tick'] for en in envs): return None     # timers are not scripted natively
            return {'kind': 'rust-test', 'filter': 'verif_replay_conn', 'spec': {'persistent': bool(job.get('persistent')),
                    'conns': [{'rounds': en.rounds_polled, 'script': en.script} for en in envs]}}
        conn_oracle(ctx, e, job['name'], tasks, env1, env2, handler, out, final_retry, rp)
        return 1
    res = ctx.explore('handle_conn %s' % job['name'], run, engine_setup=setup, max_paths=200000)
    ctx.ops += len(res) * rounds


# ---------------------------------------------------------------- (C) kernels
def req_task_fanout(ctx, job):
    """ReqTask::set_result: Multi(n tasks) with Ok(Multi(m results)) / Ok(Single) / Err; Simple with Ok(Single) / Ok(Multi)"""
    def run(e):
        n = job['n']; shape = job['shape']
        tasks = [Task(i + 1) for i in range(n)]
        vi = e.src.variant_index
        if job['simple']:
            rt = Enum('ReqTask', vi('ReqTask', 'Simple'), [tasks[0]])
        else:
            rt = Enum('ReqTask', vi('ReqTask', 'Multi'), [RVec([Cell(t) for t in tasks])])
        if shape == 'err': res = Err(Enum('CommandError', vi('CommandError', 'Canceled')))
        elif shape == 'single': res = Ok(Ref(Cell(Enum('OptionalMulti', vi('OptionalMulti', 'Single'), [Pkt(1, 'reply')])), 'Box'))
        else:
            m = job['m']
            res = Ok(Ref(Cell(Enum('OptionalMulti', vi('OptionalMulti', 'Multi'), [RVec([Cell(Pkt(i + 1, 'reply')) for i in range(m)])])), 'Box'))
        e.generic_env['T'] = 'Task'
        e.run_func(e.find_fn('ReqTask', 'set_result', 'CmdTask'), [rt, res])
        def wit(m_=None): return {'job': job, 'results': {repr(t): [(k, repr(un(v))[:80]) for k, v in t.results] for t in tasks}}
        items = [('exactly-one-result-per-sub-request', 'C08/fanout-not-exactly-once', all(len(t.results) == 1 for t in (tasks[:1] if job['simple'] else tasks)), wit)]
        def is_ok_with(t, tag):
            if len(t.results) != 1: return False
            r = un(t.results[0][1])
            return r.variant == 0 and isinstance(un(r.f[0].v), Pkt) and un(r.f[0].v).tag == tag
        def is_err(t):
            return len(t.results) == 1 and un(t.results[0][1]).variant == 1
        if job['simple']:
            good = is_ok_with(tasks[0], 1) if shape == 'single' else is_err(tasks[0])
        elif shape == 'multi' and job['m'] == n:
            good = all(is_ok_with(t, t.tag) for t in tasks)
        else:
            good = all(is_err(t) for t in tasks)
        items.append(('sub-request-gets-its-own-result', 'C08/fanout-misassociated/%s' % shape, good, wit))
        ctx.require_all(e, items)
        return 1
    res = ctx.explore('ReqTask::set_result %s' % job, run)
    ctx.ops += len(res)


def reply_sender(ctx, job):
    """CmdReplySender: first send wins, second send is refused; dropping an unsent sender delivers Err(Dropped)"""
    from props import executor as X
    def run(e):
        ctxv, rcv = X.make_cmd_ctx(e, [list(b'GET'), list(b'k')])
        snd_cell = un(ctxv).f[e.src.structs['CmdCtx'].index('reply_sender')]
        vi = e.src.variant_index
        def tr(tag): return Ok(Ref(Cell(Struct('TaskReply', [Ref(Cell(Opaque('req')), 'Box'), Ref(Cell(Pkt(tag, 'reply')), 'Box'), Opaque('slowlog')])), 'Box'))
        items = []
        def wit(m=None): return {'mode': job['mode']}
        if job['mode'] == 'twice':
            r1 = e.run_func(e.find_fn('CmdReplySender', 'send'), [Ref(snd_cell), tr(1)])
            r2 = e.run_func(e.find_fn('CmdReplySender', 'send'), [Ref(snd_cell), tr(2)])
            got = e.block_on(Ref(Cell(rcv)))
            first = un(got).variant == 0 and un(un(un(got).f[0].v).f[1].v).tag == 1
            items.append(('first-reply-wins', 'C08/second-send-replaces-reply', r1.variant == 0 and r2.variant == 1 and first, wit))
        else:
            e.drop_value(un(ctxv))
            got = e.block_on(Ref(Cell(rcv)))
            g = un(got)
            items.append(('dropped-request-gets-an-error', 'C08/dropped-request-is-silent', g.variant == 1 and e.src.enums['CommandError'][un(g.f[0].v).variant] == 'Dropped', wit))
        ctx.require_all(e, items)
        return 1
    res = ctx.explore('CmdReplySender %s' % job['mode'], run)
    ctx.ops += len(res)


def worker(ctx, job):
    {'conn': backend_conn, 'fanout': req_task_fanout, 'sender': reply_sender, 'session': session_loop}[job['kind']](ctx, job)


# ---------------------------------------------------------------- (B) session loop
class ClientReader(PyObj):
    """the client side stream of decoded request packets (codec framing is outside the claim)"""
    def __init__(self, env): self.env = env
    def m_poll_next(self, e, s, cx):
        env = self.env
        if not env.to_arrive:
            if env.fault_now('client_closed'): return Enum('Poll', 0, [NONE()])
            return env.pending('client-reader')
        q = env.budget('arrive', len(env.to_arrive), 'requests') if env.policy['arrive'] == 'free' else len(env.to_arrive) + env.quota.get('arrived', 0)
        done = env.quota.setdefault('arrived', 0)
        if done < q:
            env.quota['arrived'] = done + 1
            tag = env.to_arrive.pop(0); env.received.append(tag)
            from props import executor as X
            pkt = X.data_packet(e, X.array(e, [X.bulk(e, list(b'ECHO')), X.bulk(e, [tag])]))
            return Enum('Poll', 0, [Some(Ok(Ref(Cell(pkt), 'Box')))])
        return env.pending('client-reader')
    def m_map_err(self, e, s, f): return s


class ClientWriter(PyObj):
    def __init__(self, env): self.env = env
    def m_poll_ready(self, e, s, cx):
        env = self.env
        if env.fault_now('client_write_err'): return Enum('Poll', 0, [Err(Enum('EncodeError', 0, [Opaque('io::Error', 'reset')]))])
        q = env.budget('ready', 2, 'client-sink-ready') if env.policy['sink'] == 'free' else 2
        done = env.quota.setdefault('readied', 0)
        if q == 2 or done < q:
            env.quota['readied'] = done + 1
            return Enum('Poll', 0, [Ok(mk_unit())])
        return env.pending('client-writer')
    def m_start_send(self, e, s, item):
        self.env.written.append(un(item)); return Ok(mk_unit())
    def m_poll_flush(self, e, s, cx):
        if self.env.policy['flush'] == 'ready' or self.env.budget('flush', 1, 'client-flush'): return Enum('Poll', 0, [Ok(mk_unit())])
        return self.env.pending('client-writer')


class SessEnv(Env):
    def __init__(self, e, tags, fault, policy=None):
        Env.__init__(self, e, [], fault, policy)
        self.to_arrive = list(tags); self.received = []; self.written = []; self.senders = {}; self.completed = {}


class SessHandler(PyObj):
    """CmdHandler: hands out real reply futures; the environment completes them later in any order"""
    def __init__(self, env): self.env = env; self.slowlogs = []
    def m_handle_cmd(self, e, s, cmd):
        from props import executor as X
        c = un(cmd)
        el = e.run_func(e.find_fn('Command', 'get_command_element'), [Ref(Cell(c)), 1])
        tag = deref_vec(el.f[0].v).cells[0].v
        pair = e.call('command::new_command_pair', [Ref(Cell(c))])
        self.env.senders[tag] = Cell(pair.f[0].v)
        return Enum('Either', 0, [pair.f[1].v])
    def m_handle_slowlog(self, e, s, req, slowlog): self.slowlogs.append(un(req)); return mk_unit()


def session_loop(ctx, job):
    """handle_session from the point where the framed socket exists: the codec/socket construction is replaced by the
    client reader / writer stand-ins; the poll closure itself is the real one"""
    n = job['requests']; rounds = job['rounds']
    tick_free = job.get('timeout')
    def setup(e):
        e.env_hook = lambda label, k: (e.choose(k, label) if tick_free or label != 'tick' else 0)
        e.loop_budget = 64
        e.session_io = None
        if job.get('batch_buf'): e.const_overrides = {'SESSION_BATCH_BUF': job['batch_buf']}
    def run(e):
        env = SessEnv(e, list(range(1, n + 1)), job['fault'], job.get('policy'))
        outcomes = 4 if job.get('failures') else 2
        h = SessHandler(env)
        e.session_io = (ClientWriter(env), ClientReader(env))
        hs = e.find_free_fn('session::handle_session')
        e.generic_env['H'] = 'SessHandler'
        timeout = Some(Struct('Duration', [1, 0])) if job['timeout'] else NONE()
        fut = e.run_func(hs, [Ref(Cell(h), 'Arc'), Opaque('TcpStream'), timeout])
        cell = Cell(fut); outcome = 'pending'
        vi = e.src.variant_index
        lost_wakeup = [None]
        e.pending_hook = lambda src: env.registered.add(src)
        for rd in range(rounds):
            env.begin_round()
            # the environment completes some of the outstanding requests (any subset order is reachable over rounds)
            for tag in sorted(env.senders):
                if tag in env.completed: continue
                how = e.choose(outcomes, 'complete-%d' % tag)       # 0 not yet, 1 reply, 2 error, 3 dropped
                if how == 0: continue
                snd = env.senders[tag]
                if how == 1:
                    from props import executor as X
                    reply = Ok(Ref(Cell(Struct('TaskReply', [Ref(Cell(X.data_packet(e, X.bulk(e, [0]))), 'Box'), Ref(Cell(X.data_packet(e, X.bulk(e, [tag]))), 'Box'),
                                                            e.run_func(e.find_fn('Slowlog', 'new'), [1, False])])), 'Box'))
                    e.run_func(e.find_fn('CmdReplySender', 'send'), [Ref(snd), reply]); env.completed[tag] = 'reply'
                elif how == 2:
                    e.run_func(e.find_fn('CmdReplySender', 'send'), [Ref(snd), Err(Enum('CommandError', vi('CommandError', 'Canceled')))]); env.completed[tag] = 'error'
                else:
                    e.drop_value(snd.v); env.completed[tag] = 'dropped'
            r = e.poll(Ref(cell))
            if r.variant == 1 and not env.registered and lost_wakeup[0] is None: lost_wakeup[0] = env.round
            if r.variant == 0:
                res = un(r.f[0].v); outcome = 'closed-ok' if res.variant == 0 else 'closed-err'; break
        # ---- oracle
        written = env.written
        def tagof(p):
            from props import executor as X
            t = X.packet_tree(e, un(p))
            if t[0] == 'Bulk' and t[1] is not None and len(t[1]) == 1: return ('reply', t[1][0])
            return ('error', None)        # an error reply built by the session
        def wit(m=None):
            return {'requests': n, 'fault': job['fault'], 'completed': dict(env.completed), 'received': env.received,
                    'written': [repr(un(p))[:60] for p in written], 'outcome': outcome}
        items = []
        # k-th written reply belongs to the k-th received request
        ok_order = len(written) <= len(env.received)
        for k, p in enumerate(written):
            if k >= len(env.received): break
            tag = env.received[k]; kind, t = tagof(p)
            how = env.completed.get(tag)
            if how == 'reply': ok_order = ok_order and kind == 'reply' and t == tag
            elif how in ('error', 'dropped'): ok_order = ok_order and kind == 'error'
            else: ok_order = False           # written before its request completed
        items.append(('replies-in-request-order-each-its-own', 'C08/session-reply-misordered-or-misassociated', ok_order, wit))
        items.append(('pending-poll-registers-a-waker', 'C08/session-sleeps-without-waker', lost_wakeup[0] is None, lambda m=None: dict(wit(), round=lost_wakeup[0])))
        # nothing is skipped while the session is alive: every completed request whose predecessors are all completed
        # has been written, provided the client sink was ready for it (checked at quiescence: all done, extra rounds)
        if outcome == 'pending' and job.get('quiescent'):
            prefix = 0
            for tag in env.received:
                if tag in env.completed: prefix += 1
                else: break
            items.append(('completed-requests-are-answered', 'C08/session-reply-withheld', len(written) >= prefix or env.quota.get('ready', 3) == 0, wit))
        ctx.require_all(e, items)
        return 1
    res = ctx.explore('handle_session %s' % job['name'], run, engine_setup=setup, max_paths=400000)
    ctx.ops += len(res) * rounds


def run(ctx):
    quick = ctx.tier == 'quick'
    jobs = []
    # (A) each family frees some environment dimensions (arrival / sink readiness / replies are free unless stated)
    R = 3
    def conn_jobs(strategy, full):
        out = []
        pol = None if full else {'sink': 'ready', 'arrive': 'all'}     # time-based batching forks on the clock: fewer free dimensions
        out.append({'kind': 'conn', 'name': '%s no fault, 2 requests' % strategy, 'tasks': 2, 'first': 2, 'rounds': R, 'strategy': strategy, 'fault': None, 'policy': pol})
        out.append({'kind': 'conn', 'name': '%s no fault, 2 requests, flush pending / timer ticks' % strategy, 'tasks': 2, 'first': 2, 'rounds': R if full else 2, 'strategy': strategy, 'fault': None,
                    'policy': {'sink': 'ready', 'arrive': 'all', 'flush': 'free', 'tick': 'free'}})
        out.append({'kind': 'conn', 'name': '%s silent backend, timer ticks' % strategy, 'tasks': 2, 'first': 2, 'rounds': R, 'strategy': strategy, 'fault': None,
                    'policy': {'sink': 'ready', 'arrive': 'all', 'reply': 'none', 'tick': 'free'}, 'second': True})
        for site in FAULT_SITES:
            for rd in ((1, 2) if full else (1,)):
                out.append({'kind': 'conn', 'name': '%s fault %s@%d then second connection' % (strategy, site, rd), 'tasks': 3, 'first': 2, 'rounds': 2 if (quick or not full) else 3,
                            'strategy': strategy, 'fault': (site, rd), 'second': True, 'fault2': None, 'policy': pol})
        return out
    jobs += conn_jobs('Disabled', True)
    jobs += conn_jobs('Fixed', not quick)
    if not quick:
        jobs += conn_jobs('Dynamic', False)
        jobs.append({'kind': 'conn', 'name': 'Disabled no fault, 3 requests', 'tasks': 3, 'first': 3, 'rounds': 3, 'strategy': 'Disabled', 'fault': None})
        for site in FAULT_SITES:
            jobs.append({'kind': 'conn', 'name': 'Disabled fault %s@1 on both connections' % site, 'tasks': 2, 'first': 2, 'rounds': 2, 'strategy': 'Disabled', 'fault': (site, 1), 'second': True, 'fault2': (site, 1)})
    import re as _re, os as _os
    from vlib import overlay as _ov
    _m = _re.search(r'const MAX_BACKEND_RETRY: usize = (\d+);', open(_os.path.join(_ov.CRATE, 'src/proxy/backend.rs')).read())
    maxr = int(_m.group(1)) if _m else 3
    for site in ['silent'] + (FAULT_SITES if not quick else ['read_closed', 'send']):
        pol = {'sink': 'ready', 'arrive': 'all', 'reply': 'none', 'tick': 'free'} if site == 'silent' else {'sink': 'ready', 'arrive': 'all'}
        flt = None if site == 'silent' else (site, 1)
        jobs.append({'kind': 'conn', 'name': 'Disabled persistent %s: every connection fails the same way' % site, 'tasks': 1, 'first': 1, 'rounds': 3 if site == 'silent' else 1,
                     'strategy': 'Disabled', 'fault': flt, 'fault2': flt, 'second': True, 'persistent': True, 'max_conns': maxr + 3, 'policy': pol})
    jobs.append({'kind': 'conn', 'name': 'Disabled task channel closed', 'tasks': 1, 'first': 1, 'rounds': 3, 'strategy': 'Disabled', 'fault': ('rx_closed', 2)})
    strategies = ['Disabled', 'Fixed'] if quick else ['Disabled', 'Fixed', 'Dynamic']
    # (C)
    for n in (1, 2, 3):
        for shape, m in (('err', 0), ('single', 0), ('multi', n), ('multi', n + 1), ('multi', max(n - 1, 0))):
            jobs.append({'kind': 'fanout', 'simple': False, 'n': n, 'shape': shape, 'm': m})
    for shape, m in (('err', 0), ('single', 0), ('multi', 1), ('multi', 2)):
        jobs.append({'kind': 'fanout', 'simple': True, 'n': 1, 'shape': shape, 'm': m})
    jobs.append({'kind': 'sender', 'mode': 'twice'}); jobs.append({'kind': 'sender', 'mode': 'drop'})
    # (B)
    for nreq, rounds in ((2, 3),) if quick else ((2, 3), (3, 3), (2, 4)):
        jobs.append({'kind': 'session', 'name': '%d requests, %d rounds, ordering' % (nreq, rounds), 'requests': nreq, 'rounds': rounds, 'fault': None, 'timeout': False})
        jobs.append({'kind': 'session', 'name': '%d requests, %d rounds, SESSION_BATCH_BUF scaled down to 2' % (nreq + 1, rounds), 'requests': nreq + 1, 'rounds': rounds, 'fault': None, 'timeout': False,
                     'batch_buf': 2, 'policy': {'sink': 'ready'}})
        jobs.append({'kind': 'session', 'name': '%d requests, %d rounds, failing / dropped exchanges' % (nreq, rounds), 'requests': nreq, 'rounds': rounds, 'fault': None, 'timeout': False,
                     'failures': True, 'policy': {'sink': 'ready', 'arrive': 'all'}})
        jobs.append({'kind': 'session', 'name': '%d requests, %d rounds, flush pending' % (nreq, rounds), 'requests': nreq, 'rounds': rounds, 'fault': None, 'timeout': False,
                     'policy': {'sink': 'ready', 'flush': 'free'}})
        jobs.append({'kind': 'session', 'name': '%d requests, %d rounds, session timer' % (nreq, rounds), 'requests': nreq, 'rounds': rounds, 'fault': None, 'timeout': True,
                     'policy': {'sink': 'ready', 'arrive': 'all'}})
        jobs.append({'kind': 'session', 'name': '%d requests, client write error' % nreq, 'requests': nreq, 'rounds': rounds, 'fault': ('client_write_err', 2), 'timeout': False, 'policy': {'sink': 'ready'}})
        jobs.append({'kind': 'session', 'name': '%d requests, client closes' % nreq, 'requests': nreq, 'rounds': rounds, 'fault': ('client_closed', 2), 'timeout': False, 'policy': {'sink': 'ready'}})
    ctx.bounds = {'backend connection': '2-3 requests, 2-3 poll rounds per connection, two connections in sequence, one fault per connection at every site (sink ready / start_send / flush / read error / closed by peer) and round; batching strategies %s' % strategies,
                  'session': '2-3 pipelined requests, 3-4 poll rounds; every request completed by reply / error / drop at any round in any order; sink readiness, flush, session timer as symbolic choices',
                  'kernels': 'ReqTask::set_result for 1..3 sub-requests x result shapes; CmdReplySender send twice / drop'}
    ctx.assumptions += ['the backend answers the requests it received in order (a Redis connection is FIFO); replies carry the tag of the request that elicited them',
                        'environment events (arrival, readiness, completion, timer ticks, faults) are nondeterministic choices explored exhaustively within the round bounds',
                        'stand-ins for crate traits: CmdTask (request), CmdTaskResultHandler, CmdHandler; Sink / Stream of the connections; tokio Interval (tick = environment choice)',
                        'handle_session: the construction of the framed socket (RespCodec::framed(sock).split()) is replaced by the reader / writer stand-ins; the poll closure is the real one']
    ctx.not_explored += ['byte-level fragmentation (RespCodec framing over TcpStream): the decoder side is C15', 'handle_backend reconnect loop (sleep / select! around handle_conn): the hand-over of the retry state is modelled by calling handle_conn again',
                         'more requests / rounds than the bound', 'several backend connections per node (round robin in the sender)', 'migration-time redirection of in-flight requests']
    ctx.run_parallel(jobs, worker)
