"""Harness library for the RESP properties (C15, C16): runs the real parser / encoder from their MIR on symbolic
byte buffers and symbolic RESP values."""
import z3
from mirsym.values import *

CR, LF = 13, 10


def sym_buffer(e, n, tag='b'):
    cells = [Cell(z3.BitVec('%s%d' % (tag, i), 8)) for i in range(n)]
    return cells


def bytes_of(cells, m):
    return [concretize(c.v, m) for c in cells]


def show(bs):
    return ''.join(chr(b) if 32 <= b < 127 and chr(b) not in '\\"' else '\\x%02x' % b for b in bs)


class RespH:
    def __init__(self, e):
        self.e = e; self.src = e.src
        self.E = e.src.enums
        self.parse_resp = e.find_free_fn('stateless::parse_resp')
        self.parse_indexed = e.find_free_fn('stateless::parse_indexed_resp')

    def vi(self, enum, name): return self.E[enum].index(name)

    # ---- decoding interpreter values of Resp<DataIndex> / Resp<Vec<u8>> into Python trees
    def tree(self, r):
        r = un(r); kind = self.E['Resp'][r.variant]
        x = r.f[0].v
        if kind in ('Error', 'Simple', 'Integer'): return (kind, self.leaf(x))
        if kind == 'Bulk':
            x = un(x)
            return ('Bulk', None if self.E['BulkStr'][x.variant] == 'Nil' else self.leaf(x.f[0].v))
        x = un(x)
        if self.E['Array'][x.variant] == 'Nil': return ('Arr', None)
        return ('Arr', [self.tree(c.v) for c in deref_vec(x.f[0].v).cells])

    def leaf(self, x):
        x = un(x)
        if isinstance(x, Struct) and x.name == 'DataIndex': return ('idx', x.f[0].v, x.f[1].v)
        return ('bytes', [c.v for c in deref_vec(x).cells])

    def leaves(self, t, out=None):
        out = [] if out is None else out
        if t[0] in ('Error', 'Simple', 'Integer'): out.append((t[0], t[1]))
        elif t[0] == 'Bulk':
            if t[1] is not None: out.append(('Bulk', t[1]))
        elif t[1] is not None:
            for c in t[1]: self.leaves(c, out)
        return out

    # ---- building symbolic Resp<Vec<u8>> values
    def mk(self, shape, tag='v', counter=None):
        """shape: ('Simple', n) | ('Error', n) | ('Integer', n) | ('Bulk', n|None) | ('Arr', [shapes]|None);
        n = payload length, payload bytes symbolic.  Line-type payloads exclude CR and LF (they cannot be encoded)."""
        counter = counter if counter is not None else [0]
        kind = shape[0]
        def payload(n, binary):
            cells = []
            for _ in range(n):
                v = z3.BitVec('%s%d' % (tag, counter[0]), 8); counter[0] += 1
                if not binary: self.e.assume(z3.And(v != CR, v != LF))
                cells.append(Cell(v))
            return RVec(cells)
        if kind in ('Simple', 'Error', 'Integer'):
            return Enum('Resp', self.vi('Resp', kind), [payload(shape[1], False)])
        if kind == 'Bulk':
            if shape[1] is None: return Enum('Resp', self.vi('Resp', 'Bulk'), [Enum('BulkStr', self.vi('BulkStr', 'Nil'))])
            return Enum('Resp', self.vi('Resp', 'Bulk'), [Enum('BulkStr', self.vi('BulkStr', 'Str'), [payload(shape[1], True)])])
        if shape[1] is None: return Enum('Resp', self.vi('Resp', 'Arr'), [Enum('Array', self.vi('Array', 'Nil'))])
        return Enum('Resp', self.vi('Resp', 'Arr'), [Enum('Array', self.vi('Array', 'Arr'), [RVec([Cell(self.mk(s, tag, counter)) for s in shape[1]])])])

    def encode(self, v):
        buf = RVec([])
        self.e.generic_env['W'] = 'Vec'
        r = self.e.run_func(self.e.find_free_fn('encoder::resp_to_buf'), [Ref(Cell(buf)), Ref(Cell(v))])
        return buf, r

    def size_hint(self, v):
        return self.e.call('<resp::Resp<Vec<u8>> as packet::PacketSizeHint>::get_size_hint', [Ref(Cell(v))])

    def parse(self, cells):
        return self.e.run_func(self.parse_resp, [SliceRef(RVec(list(cells), 'slice'))])

    def err_kind(self, r):
        return self.E['ParseError'][un(r.f[0].v).variant]


def shapes(depth, width, max_payload):
    """RESP value shapes up to the given nesting depth / children / payload length"""
    leafs = [('Simple', n) for n in range(0, max_payload + 1)] + [('Error', 1), ('Integer', 1)] + \
            [('Bulk', n) for n in range(0, max_payload + 1)] + [('Bulk', None)]
    out = list(leafs) + [('Arr', None), ('Arr', [])]
    if depth >= 1:
        import itertools
        small = [('Simple', 0), ('Bulk', 0), ('Bulk', 1), ('Bulk', None), ('Integer', 1), ('Arr', None), ('Arr', [])]
        if depth >= 2: small += [('Arr', [('Bulk', 1)]), ('Arr', [('Simple', 0)])]
        for w in range(1, width + 1):
            for combo in itertools.product(small, repeat=w):
                out.append(('Arr', list(combo)))
    return out
