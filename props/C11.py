"""C11 - the pre-switch barrier stops source-side execution and loses nothing.
Thread programs are generated from the MIR of src/proxy/blocking.rs + src/common/biatomic.rs: k senders running
TaskBlockingQueue::send once each (symbolic blocking hint and term), a controller running start_blocking, polling
blocking_done and dropping the BlockingHandle, and an environment completing in-flight commands (drop of a
CounterTask) at arbitrary later times.  All interleavings of their atomic steps are decided by one SMT query per
combination of local paths (symbolic schedule)."""
import itertools, time, json
import z3
from mirsym.values import *
from mirsym.conc import *


class InnerSender(PyObj):
    def __init__(self, sm): self.sm = sm; self.kept = []
    def m_send(self, e, selfref, task):
        self.sm.event('INNER_SEND', task); self.kept.append(task)      # the CounterTask lives until the reply arrives
        return Ok(mk_unit())


class Redispatch(PyObj):
    def __init__(self, sm): self.sm = sm
    def m_send(self, e, selfref, task):
        self.sm.event('REDISPATCH', task); return Ok(mk_unit())


class Task(PyObj):
    def __init__(self, tid, sm): self.tid = tid; self.sm = sm
    def m_set_resp_result(self, e, selfv, result):
        self.sm.event('ERROR_REPLY', self); return mk_unit()
    def m_set_result(self, e, selfv, result):
        self.sm.event('ERROR_REPLY', self); return mk_unit()
    def m_log_event(self, e, selfref, ev): return mk_unit()


def make_queue(e, sm):
    q = e.run_func(e.find_fn('TaskBlockingQueue', 'new'), [InnerSender(sm), Ref(Cell(Redispatch(sm)), 'Arc')])
    # every atomic reachable from the queue object is a shared location, named by its field path
    sm.names.clear()
    seen = set()
    def walk(v, path):
        v0 = v
        while isinstance(v0, Ref): v0 = v0.cell.v
        if id(v0) in seen: return
        seen.add(id(v0))
        if isinstance(v0, Struct):
            if v0.name == 'Atomic':
                nm = path.replace('blocking_handle_inner.blocking_state.inner', 'state').replace('running_cmd', 'running')
                sm.names[id(v0.f[0])] = nm
                iv = v0.f[0].v
                INIT[nm] = int(iv) if not is_sym(iv) else 0
                return
            names = e.src.structs.get(v0.name)
            for i, c in enumerate(v0.f):
                walk(c.v, (path + '.' if path else '') + (names[i] if names and i < len(names) else str(i)))
    walk(q, '')
    return q


INIT = {}


def summaries(ctx, e, nsenders, polls, cas_bound, deq_bound):
    sm = Summariser(e, {}, cas_bound, deq_bound)
    vi = e.src.variant_index
    def sender(i):
        disc = z3.BitVec('hint%d' % i, 8); term = z3.BitVec('hterm%d' % i, 32)
        def body(e):
            q = make_queue(e, sm)
            e.assume(z3.ULE(disc, 2))
            if e.branch(disc == 0): hint = Enum('BlockingHint', vi('BlockingHint', 'NotBlocking'))
            elif e.branch(disc == 1): hint = Enum('BlockingHint', vi('BlockingHint', 'NotBlockingInMigration'), [term])
            else: hint = Enum('BlockingHint', vi('BlockingHint', 'Blocking'))
            task = Struct('BlockingHintTask', [Task(z3.BitVecVal(i, 8), sm), hint])
            r = e.run_func(e.find_fn('TaskBlockingQueue', 'send'), [Ref(Cell(q)), task])
            if r.variant == 1:
                kind = e.src.enums['SenderBackendError'][un(r.f[0].v).variant]
                sm.mark('RESULT_' + kind)
            return 'ok' if r.variant == 0 else kind
        return body
    def controller(e):
        q = make_queue(e, sm)
        h = e.run_func(e.find_fn('TaskBlockingQueue', 'start_blocking', 'TaskBlockingController'), [Ref(Cell(q))])
        sm.mark('STARTED')
        done = False
        for _ in range(polls):
            d = e.run_func(e.find_fn('TaskBlockingQueue', 'blocking_done', 'TaskBlockingController'), [Ref(Cell(q))])
            if e.branch(d):
                done = True; sm.mark('BARRIER'); break
        sm.mark('PRE_DROP')
        e.drop_value(h)
        sm.mark('DROPPED')
        return done
    S = []
    for i in range(nsenders):
        sm.thread = 's%d' % (i + 1)
        S.append(merge_paths(sm.summarise(sender(i + 1))))
    sm.thread = 'c'
    C = merge_paths(sm.summarise(controller))
    # prune controller paths that are infeasible on their own (only the controller writes blocking_state; the counter
    # and the queue are left unconstrained = arbitrary interference by the other threads)
    keep = []
    for pth in C:
        if isinstance(pth[2], tuple): keep.append(pth); continue
        s_, pos, allops, st = compose([pth], dict(INIT), free_locs=('running',), free_queue=True)
        if s_.check() != z3.unsat: keep.append(pth)
    ctx.notes['controller_paths_pruned'] = len(C) - len(keep)
    return sm, S, keep


def static_checks(ctx, S):
    """each command ends exactly once on every local path of a sender"""
    bad = []
    for paths in S:
        for ops, pc, r in paths:
            if isinstance(r, tuple) and r[0] == 'panic':
                bad.append(('panic', r)); continue
            outcomes = [o for o in ops if (o['kind'] == 'ev' and o['ev'] in ('INNER_SEND', 'ERROR_REPLY')) or o['kind'] == 'enq' or (o['kind'] == 'mark' and o['ev'] == 'RESULT_Retry')]
            if len(outcomes) != 1: bad.append(('outcomes', [o.get('ev', o['kind']) for o in ops]))
    return bad


def with_env(threads):
    """environment: every command handed to the backend completes (CounterTask dropped: running -= 1) some time later"""
    out = list(threads)
    envops = []
    for ti, (ops, pc, r) in enumerate(threads):
        for k, o in enumerate(ops):
            if o['kind'] == 'ev' and o['ev'] == 'INNER_SEND':
                envops.append(([{'kind': 'faa', 'obj': 'running', 'delta': -1, 'res': z3.BitVec('envr_%d_%d' % (ti, k), 64), 'after': (ti, k)}], [], None))
    return out + envops


def combo_job(args):
    """one combination of local paths: barrier query + no-loss query.  Returns dict (JSON-able)."""
    idx, combo, monitors = args
    t0 = time.time()
    threads = with_env(list(combo))
    res = {'idx': idx, 'queries': 0, 'sat': [], 'unknown': 0, 'n': 0}
    ctrl = len(combo) - 1
    cops = combo[ctrl][0]
    barrier = [k for k, o in enumerate(cops) if o['kind'] == 'mark' and o['ev'] == 'BARRIER']
    predrop = [k for k, o in enumerate(cops) if o['kind'] == 'mark' and o['ev'] == 'PRE_DROP'][0]
    inner = [(ti, k) for ti in range(ctrl) for k, o in enumerate(combo[ti][0]) if o['kind'] == 'ev' and o['ev'] == 'INNER_SEND']
    enq = [(ti, k) for ti in range(ctrl) for k, o in enumerate(combo[ti][0]) if o['kind'] == 'enq']
    if 'barrier' in monitors and barrier and inner:
        s, pos, allops, st = compose(threads, dict(INIT))
        res['n'] = st['n']
        # t* = the load of running_cmd whose result made blocking_done() true = the step right before the BARRIER mark
        tb = pos[(ctrl, barrier[0] - 1)]; td = pos[(ctrl, predrop)]
        s.add(z3.Or(*[z3.And(z3.UGT(pos[x], tb), z3.ULT(pos[x], td)) for x in inner]))
        r = s.check(); res['queries'] += 1
        if r == z3.sat: res['sat'].append(('barrier', schedule_of(s.model(), pos, allops)))
        elif r == z3.unknown: res['unknown'] += 1
    if 'noloss' in monitors and enq:
        s, pos, allops, st = compose(threads, dict(INIT))
        res['n'] = st['n']
        s.add(st['qlen'][st['n']] != 0)
        r = s.check(); res['queries'] += 1
        if r == z3.sat: res['sat'].append(('noloss', schedule_of(s.model(), pos, allops)))
        elif r == z3.unknown: res['unknown'] += 1
    if 'reach' in monitors and barrier and inner:
        s, pos, allops, st = compose(threads, dict(INIT))
        tb = pos[(ctrl, barrier[0] - 1)]
        s.add(z3.Or(*[z3.ULT(pos[x], tb) for x in inner]))
        r = s.check(); res['queries'] += 1
        if r == z3.sat: res['sat'].append(('reach', None))
    res['s'] = round(time.time() - t0, 2)
    return res


_COMBOS = None
def _combo_entry(i):
    return combo_job(_COMBOS[i])


def run(ctx):
    import multiprocessing as mp
    quick = ctx.tier == 'quick'
    nsenders = 2
    polls, cas_bound, deq_bound = (2, 1, nsenders) if quick else (3, 2, nsenders)
    max_steps = 30 if quick else 44
    e = ctx.fresh_engine()
    t0 = time.time()
    try:
        sm, S, C = summaries(ctx, e, nsenders, polls, cas_bound, deq_bound)
    except Unmodelled as u:
        from vlib.driver import Inconclusive
        raise Inconclusive('summaries: %s @ %s' % (u, getattr(u, 'mir_where', '')))
    ctx.functions.update(e.funcs_run); ctx.models.update(e.models_used)
    ctx.paths += sum(len(s) for s in S) + len(C)
    ctx.notes['local_paths'] = {'sender': [len(s) for s in S], 'controller': len(C), 'summary_s': round(time.time() - t0, 1)}
    for s in S[0][:6]:
        ctx.sample({'sender local path': [o.get('ev') or (o['kind'] + ':' + str(o.get('obj', ''))) for o in s[0]], 'result': str(s[2])})
    bad = static_checks(ctx, S)
    ctx.obligations += sum(len(s) for s in S)
    if bad:
        ctx.violations.append({'clause': 'each-command-ends-exactly-once', 'key': 'C11/command-outcome-not-unique', 'witness': {'paths': repr(bad)[:800]}, 'replay': None})
    else: ctx.discharged += sum(len(s) for s in S)
    combos = []
    panics = [c for c in C if isinstance(c[2], tuple)] + [p for s_ in S for p in s_ if isinstance(p[2], tuple)]
    ctx.notes['local_panic_paths'] = len(panics)
    for combo in itertools.product(*(S + [C])):
        if any(isinstance(c[2], tuple) for c in combo): continue
        n = sum(len(c[0]) for c in combo)
        if n > max_steps: ctx.notes['skipped_long_combos'] = ctx.notes.get('skipped_long_combos', 0) + 1; continue
        combos.append(combo)
    # vacuity witness on the first relevant combination: an INNER_SEND *before* the barrier must be schedulable
    global _COMBOS
    mons = ('barrier', 'noloss')
    _COMBOS = [(i, c, mons) for i, c in enumerate(combos)]
    reach_done = False; tried = 0
    for i, c in enumerate(combos):
        r = combo_job((i, c, ('reach',)))
        if r['queries']:
            tried += 1
            if r['sat']: reach_done = True; break
            if tried >= 40: break
    ctx.notes['reachability_witness'] = reach_done
    if not reach_done: ctx.not_explored.append('reachability twin of the barrier monitor is unsatisfiable: monitor may be vacuous')
    nproc = int(__import__('os').environ.get('VERIF_JOBS', '14'))
    tq = time.time(); total_q = 0; unknown = 0; maxn = 0
    with mp.get_context('fork').Pool(nproc) as pool:
        for r in pool.imap_unordered(_combo_entry, range(len(_COMBOS)), chunksize=4):
            total_q += r['queries']; unknown += r['unknown']; maxn = max(maxn, r['n'])
            ctx.obligations += r['queries']
            ctx.discharged += r['queries'] - len(r['sat']) - r['unknown']
            for kind, sched in r['sat']:
                key = 'C11/inner-send-after-barrier' if kind == 'barrier' else 'C11/command-left-in-queue'
                ctx.violations.append({'clause': kind, 'key': key, 'witness': {'schedule': sched}, 'replay': None})
    ctx.queries += total_q; ctx.solver_s += time.time() - tq
    ctx.ops += len(combos); ctx.nontrivial += len(combos)
    if unknown: ctx.not_explored.append('%d queries returned unknown (timeout)' % unknown)
    ctx.bounds = {'threads': '%d senders + controller + environment' % nsenders, 'blocking_done polls': polls, 'CAS retries per location and thread': cas_bound,
                  'dequeues per release_all': deq_bound, 'queue capacity': 2, 'steps per schedule': '<= %d (max seen %d)' % (max_steps, maxn),
                  'combinations of local paths': len(combos), 'skipped (too long)': ctx.notes.get('skipped_long_combos', 0)}
    ctx.assumptions += ['sequentially consistent atomics (the source uses SeqCst throughout)', 'crossbeam unbounded channel = atomic FIFO', 'every command handed to the backend eventually completes (environment thread)',
                        'schedules needing more CAS retries / dequeues than the bound are outside the claim']
    ctx.not_explored += ['3 or more senders (thorough: still 2 senders with deeper bounds)', 'nested start_blocking (count 2)', 'starvation / fairness', 'weak memory']
