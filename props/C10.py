"""C10 - scaling completes to a balanced full partition and frees only empty chunks.
Resize histories (scale out / in) from symbolic balanced states with the resulting migrations committed in every
order (<=3 tasks) / both extreme orders, optional failover in between; at the end the stable partition must be the
balanced prefix form again (so the post-state family is the pre-state family of the next resize), free chunks are
released exactly, and guarded requests are refused while a migration is running."""
from props.scenarios import *

GUARDED = [('migrate_slots', lambda b: b.call('migrate_slots', RStr('c1'))),
           ('migrate_slots_to_scale_down', lambda b: b.call('migrate_slots_to_scale_down', RStr('c1'), 4)),
           ('auto_add_nodes', lambda b: b.call('auto_add_nodes', RStr('c1'), 4)),
           ('auto_delete_free_nodes', lambda b: b.call('auto_delete_free_nodes', RStr('c1'))),
           ('change_config', lambda b: b.call('change_config', RStr('c1'), strmap({'compression_strategy': 'allow_all'}))),
           ('auto_change_node_number', lambda b: b.call('auto_change_node_number', RStr('c1'), 4))]


def final_check(job):
    def fin(b, h, e):
        ctx = h.ctx
        to = job['to']; frm = job['from']
        def rp(m):
            r = b.replay_spec(m, (), h.limits); r['spec']['final_balanced_chunks'] = to; r['accept_prefix'] = 'C10/'
            return r
        ctx.require_all(e, balanced_items(b, to), replay=rp)
        if to < frm:
            # the trailing chunks own nothing: auto_delete_free_nodes must remove exactly them and free their proxies
            before = cluster_proxies(b)
            r = b.call('auto_delete_free_nodes', RStr('c1'))
            def rp2(m):
                r2 = b.replay_spec(m, ('metadata',), h.limits); r2['spec']['final_chunk_count'] = to; r2['accept_prefix'] = 'C'
                return r2
            already = len(before) == 2 * to     # released by the last commit when clear_free_nodes was set
            items = [('free-chunks-released', 'C10/free-chunks-not-released', (r.variant == 0 or already) and len(b.chunks()) == to, None)]
            after = cluster_proxies(b)
            items.append(('released-exactly-trailing', 'C10/wrong-chunks-released', after == before[:2 * to], None))
            allp = b.fld(b.mstore(), 'MetaStore', 'all_proxies').v
            for k, c in allp.items:
                cl = b.fld(c.v, 'ProxyResource', 'cluster').v
                member = sval(k) in after
                items.append(('membership-complement', 'C10/membership-mismatch', (cl.variant == 1) == member, None))
            ctx.require_all(e, items, replay=rp2)
            ctx.require_all(e, balanced_items(b, to), replay=rp)
        else:
            r = b.call('auto_delete_free_nodes', RStr('c1'))
            err = b.src.enums['MetaStoreError'][r.f[0].v.variant] if r.variant == 1 else None
            ctx.require_all(e, [('nothing-to-release-after-scale-out', 'C10/chunk-released-after-scale-out', err == 'FreeNodeNotFound', None)])
    return fin


def guard_scenario(ctx, job):
    def run(e):
        b = Broker(e); b.new_store()
        b.add_proxies([3, 3])
        r = b.add_cluster(4 * job['from']); assert r.variant == 0
        b.symbolise_epochs(); b.symbolise_stable(job['shape']); b.mark_initial()
        if job['to'] > job['from']:
            b.call('auto_add_nodes', RStr('c1'), 4 * (job['to'] - job['from'])); b.call('migrate_slots', RStr('c1'))
        else:
            b.call('migrate_slots_to_scale_down', RStr('c1'), 4 * job['to'])
        assert b.is_migrating()
        k = e.choose(len(GUARDED), 'guarded-op')
        name, th = GUARDED[k]
        pre = clone(b.cluster_store()); prep = clone(b.fld(b.mstore(), 'MetaStore', 'all_proxies').v)
        r = th(b)
        err = b.src.enums['MetaStoreError'][r.f[0].v.variant] if r.variant == 1 else None
        items = [('refused-while-migrating:' + name, 'C10/not-refused-while-migrating/' + name, r.variant == 1, lambda m: {'op': name, 'result': repr(r)[:200], 'error': err}),
                 ('refusal-leaves-cluster-unchanged:' + name, 'C10/refused-but-changed/' + name, zand([veq(pre, b.cluster_store()), veq(prep, b.fld(b.mstore(), 'MetaStore', 'all_proxies').v)]), lambda m: {'op': name})]
        ctx.require_all(e, items)
        return 3
    res = ctx.explore('guards %d->%d' % (job['from'], job['to']), run)
    ctx.ops += sum(p.value or 0 for p in res if p.kind == 'ok')


def worker(ctx, job):
    if job['kind'] == 'guard': return guard_scenario(ctx, job)
    job['final'] = final_check(job)
    scale_scenario(ctx, job, ())


def run(ctx):
    quick = ctx.tier == 'quick'
    jobs = []
    pairs_q = ((1, 2), (2, 1), (2, 3), (3, 2))
    pairs_t = tuple((a, b) for a in range(1, 6) for b in range(1, 6) if a != b)
    for j in scale_jobs(ctx, quick_pairs=pairs_q, thorough_pairs=pairs_t, limits_q=(0,), limits_t=(0,)):
        if quick and j['from'] >= 2 and j['shape'] != list(range(2 * j['from'])) and j['failover']: continue
        if j['from'] >= 3 and j['failover']: continue
        j['kind'] = 'scale'; j['recommit'] = False; jobs.append(j)
    if quick:
        # a source that feeds several destinations (need < available) and a scale-in that drains two chunks
        for sh in ([0, 1], [0, 1, 0], [1, 0, 1]):
            jobs.append({'kind': 'scale', 'from': 1, 'to': 3, 'shape': sh, 'limits': (0,), 'failover': None, 'recommit': False})
        jobs.append({'kind': 'scale', 'from': 3, 'to': 1, 'shape': [0, 1, 2, 3, 4, 5], 'limits': (0,), 'failover': None, 'recommit': False, 'clear': True})
    else:
        for j in list(jobs):
            if j['kind'] == 'scale' and j['from'] - j['to'] >= 1 and not j['failover']:
                jobs.append(dict(j, clear=True))
    jobs.append({'kind': 'guard', 'from': 1, 'to': 2, 'shape': [0, 1]})
    jobs.append({'kind': 'guard', 'from': 2, 'to': 1, 'shape': [0, 1, 2, 3]})
    ctx.bounds = {'slot_num': SLOT_NUM, 'resize_pairs (chunks)': sorted(set((j['from'], j['to']) for j in jobs)), 'jobs': len(jobs),
                  'symbolic': 'tile boundaries (several ranges per master), epochs', 'enumerated': 'tile ownership sequences (sampled by VERIF_SEED beyond the base shape), commit order, failover point/victim'}
    ctx.assumptions += ['pre-states are balanced stable clusters; the final oracle re-establishes that form, so chains of resizes are covered inductively']
    ctx.not_explored += ['more than 5 chunks', 'two simultaneous failovers']
    ctx.run_parallel(jobs, worker)
