"""C03 - live slot migration neither loses, duplicates nor resurrects data (decided in part: the destination side's
on-demand pull / push-before-delete path for one key).
The real RestoreDataCmdTaskHandler (src/proxy/migration_backend.rs) is executed from its MIR: handle_cmd_task and the
six stage coroutines (EXISTS -> DUMP+PTTL -> RESTORE+command -> DEL, UMSYNC, pending UMSYNC) with their real channels,
key lock and wait registry, against storing stand-ins of the source Redis, the destination Redis and the source proxy.
The environment chooses when each backend answers its next queued request, when the source side's scan moves the key
(RESTORE without REPLACE, then DEL) and which error a refused RESTORE carries.  Client operations are issued one after
the other, so their replies must equal those of a single register; at quiescence a live key exists in exactly one
place and a key that was touched is gone from the source."""
import z3
from mirsym.values import *
from props import executor as X
import mirsym.conc as _conc       # crossbeam channel models (client pools of the source side)

K = b'{m}key'


class QSender(PyObj):
    """CmdTaskSender stand-in: queues the request until the environment lets the backend answer it"""
    def __init__(self, name): self.name = name; self.q = []
    def m_send(self, e, s, task): self.q.append(task); return Ok(mk_unit())


class Redis:
    """storing stand-in for one Redis node: key bytes -> (value byte values, ttl)"""
    def __init__(self, name): self.name = name; self.db = {}; self.log = []

    def execute(self, e, elems, restore_fault=None):
        name = X.as_bytes(elems[0]).upper(); args = elems[1:]
        k = X.as_bytes(args[0]) if args else None
        self.log.append((name, k))
        if name == b'EXISTS': return X.integer(e, 1 if k in self.db else 0)
        if name == b'DUMP': return X.bulk(e, self.db[k][0]) if k in self.db else X.nil_bulk(e)
        if name == b'PTTL':
            if k not in self.db: return X.integer(e, -2)
            return X.integer(e, self.db[k][1])
        if name == b'RESTORE':
            if restore_fault is not None: return restore_fault
            replace = any((X.as_bytes(a) or b'').upper() == b'REPLACE' for a in args[3:])
            if k in self.db and not replace: return X.error(e, b'BUSYKEY Target key name already exists.')
            ttl = X.as_bytes(args[1])
            self.db[k] = (list(args[2]), -1 if ttl == b'0' else int(ttl)); return X.simple(e, b'OK')
        if name == b'DEL':
            return X.integer(e, 1 if self.db.pop(k, None) is not None else 0)
        if name == b'GET': return X.bulk(e, self.db[k][0]) if k in self.db else X.nil_bulk(e)
        if name == b'SET':
            self.db[k] = (list(args[1]), -1); return X.simple(e, b'OK')
        if name == b'APPEND':
            old = self.db.get(k, ([], -1)); self.db[k] = (old[0] + list(args[1]), old[1]); return X.integer(e, len(self.db[k][0]))
        return X.simple(e, b'OK')


def inner_ctx(task):
    """CmdCtx inside a WaitableTask (or the CmdCtx itself)"""
    t = un(task)
    return un(t.f[0].v) if isinstance(t, Struct) and t.name == 'WaitableTask' else t


def answer(e, task, resp):
    t = un(task)
    if isinstance(t, Struct) and t.name == 'WaitableTask':
        e.generic_env['T'] = 'CmdCtx'
        e.run_func(e.find_fn('WaitableTask', 'set_resp_result', 'CmdTask'), [t, Ok(resp)])
    else:
        e.run_func(e.find_fn('CmdCtx', 'set_resp_result', 'CmdTask'), [t, Ok(resp)])


class World:
    def __init__(self, e, job):
        self.e = e; self.job = job
        self.src, self.dst = Redis('src'), Redis('dst')
        self.qsrc, self.qdst, self.qsrcp = QSender('src'), QSender('dst'), QSender('srcproxy')
        factory = Ref(Cell(Struct('CmdCtxFactory', [])), 'Arc')
        df = [f for f in e.mir.all_funcs if f.name.endswith('::default') and f.ret.endswith('MigrationStats')][0]
        stats = Ref(Cell(e.run_func(df, [])), 'Arc')
        e.generic_env.update({'F': 'CmdCtxFactory', 'S': 'QSender', 'DS': 'QSender', 'PS': 'QSender'})
        self.h = e.run_func(e.find_fn('RestoreDataCmdTaskHandler', 'new'), [self.qsrc, self.qdst, self.qsrcp, factory, stats])
        names = e.src.structs['RestoreDataCmdTaskHandler']
        f = lambda n: self.h.f[names.index(n)].v
        rx = un(un(un(f('task_receivers')).f[0].v).f[0].v)      # Arc<Mutex<Option<(..)>>> -> tuple
        ex_rx, dp_rx, rs_rx, pu_rx, um_rx, del_rx, wait = [c.v for c in rx.f]
        H = 'RestoreDataCmdTaskHandler'
        self.stages = [
            ('exists', e.run_func(e.find_fn(H, 'handle_exists_task'), [clone(f('exists_task_sender')), ex_rx, clone(f('dump_pttl_task_sender')), f('src_sender'), f('dst_sender'), f('cmd_task_factory'), f('key_lock'), f('stats'), f('registry')])),
            ('pending-umsync', e.run_func(e.find_fn(H, 'handle_pending_umsync_task'), [pu_rx, clone(f('umsync_task_sender')), f('src_proxy_sender'), f('dst_sender'), f('key_lock'), f('cmd_task_factory'), f('stats'), f('registry')])),
            ('dump-pttl', e.run_func(e.find_fn(H, 'handle_dump_pttl_task'), [dp_rx, clone(f('restore_task_sender')), f('dst_sender'), f('cmd_task_factory'), f('stats'), f('registry')])),
            ('restore', e.run_func(e.find_fn(H, 'handle_restore'), [rs_rx, f('src_sender'), clone(f('del_task_sender')), f('cmd_task_factory')])),
            ('umsync', e.run_func(e.find_fn(H, 'handle_umsync_task'), [um_rx, f('dst_sender'), f('stats'), f('registry')])),
            ('del', e.run_func(e.find_fn(H, 'handle_del_task'), [del_rx])),
        ]
        self.stages = [(n, Cell(c)) for n, c in self.stages]
        self.trace = []

    def pump(self):
        """let every stage run until none can make progress (they only wait for channel items and backend replies)"""
        e = self.e
        for _ in range(6):
            before = (len(self.qsrc.q), len(self.qdst.q), len(self.qsrcp.q), len(e.events))
            for n, c in self.stages:
                r = e.poll(Ref(c))
                if r.variant == 0: raise Unmodelled('stage %s ended' % n)
            if before == (len(self.qsrc.q), len(self.qdst.q), len(self.qsrcp.q), len(e.events)): break

    def client(self, elems):
        e = self.e
        ctx, rcv = X.make_cmd_ctx(e, elems)
        r = e.run_func(e.find_fn('RestoreDataCmdTaskHandler', 'handle_cmd_task'), [Ref(Cell(self.h)), ctx])
        self.trace.append('client ' + ' '.join(X.as_bytes(el).decode('latin1') if X.as_bytes(el) is not None else '<v>' for el in elems))
        return rcv, r

    def step_backend(self, which, restore_fault=None):
        """the backend answers its oldest queued request (a Multi request is one pipeline on one connection)"""
        e = self.e
        q, redis = {'src': (self.qsrc, self.src), 'dst': (self.qdst, self.dst)}[which]
        req = un(q.q.pop(0))
        variant = e.src.enums['ReqTask'][req.variant]
        tasks = [req.f[0].v] if variant == 'Simple' else [c.v for c in deref_vec(req.f[0].v).cells]
        for i, t in enumerate(tasks):
            elems = X.cmd_elements(e, inner_ctx(t))
            if getattr(redis, 'wants_vecs', False): redis.vecs = X.cmd_element_vecs(e, inner_ctx(t))
            resp = redis.execute(e, elems, restore_fault if which == 'dst' else None)
            self.trace.append('%s answers %s' % (which, X.as_bytes(elems[0]).decode()))
            answer(e, t, resp)
            hook = getattr(self, 'between_pipelined', None)
            if hook and i + 1 < len(tasks): hook(which, X.as_bytes(elems[0]))

    def source_task(self):
        """the source proxy's ScanMigrationTask (real handle_sync_task) in front of the same Redis stand-ins"""
        if getattr(self, '_stask', None) is not None: return self._stask
        e = self.e
        srcc = ScanClient(self.src, [], None); dstc = ScanClient(self.dst, [], None)
        class AddrFactory(PyObj):
            def m_create_client(self_, e_, s, addr): return ReadyFuture(Ok(srcc if sval(addr).startswith('src') else dstc))
        mk_pool = lambda nm: Struct('Pool', [Ref(Cell(Struct('CbSender', [_conc.Chan(nm)])), 'Arc'), Struct('CbReceiver', [_conc.Chan(nm)])])
        def pool(nm):
            ch = _conc.Chan(nm); return Struct('Pool', [Ref(Cell(Struct('CbSender', [ch])), 'Arc'), Struct('CbReceiver', [ch])])
        chan = e.call('mpsc::unbounded', [])
        df = [f for f in e.mir.all_funcs if f.name.endswith('::default') and f.ret.endswith('MigrationStats')][0]
        self.src_mutex = Struct('SlotMutex', [RVec([Cell(Struct('Atomic', [False])) for _ in range(16384)])])
        vals = {'sync_tasks_sender': chan.f[0].v, 'src_address': RStr('src:6379'), 'dst_address': RStr('dst:6379'), 'client_factory': Ref(Cell(AddrFactory()), 'Arc'),
                'slot_mutex': Ref(Cell(self.src_mutex), 'Arc'), 'src_client_pool': pool('srcpool'), 'dst_client_pool': pool('dstpool'),
                'stats': Ref(Cell(e.run_func(df, [])), 'Arc'), 'stats_conn_last_update_time': Struct('Atomic', [0])}
        self._stask = Struct('ScanMigrationTask', [vals.get(n, Opaque('scan-task:' + n)) for n in e.src.structs['ScanMigrationTask']])
        return self._stask

    def step_srcproxy(self):
        """the source proxy handles UMSYNC key with its real handler (ScanMigrationTask::handle_sync_task: slot lock, PTTL+DUMP
        from the source Redis, RESTORE on the destination, DEL on the source, reply)"""
        e = self.e
        req = un(self.qsrcp.q.pop(0))
        t = req.f[0].v
        e.generic_env.update({'T': 'CmdCtx', 'F': 'AddrFactory', 'C': 'ScanClient'})
        fut = e.run_func(e.find_fn('ScanMigrationTask', 'handle_sync_task'), [Ref(Cell(self.source_task())), inner_ctx(t)])
        e.block_on(Ref(Cell(fut)))
        self.trace.append('source proxy handles UMSYNC')

    def scan_restore(self, snapshot):
        """the source side's scan: RESTORE (no REPLACE) of the value it dumped earlier"""
        if K not in self.dst.db: self.dst.db[K] = snapshot
        self.trace.append('scan RESTORE')

    def scan_del(self):
        self.src.db.pop(K, None); self.trace.append('scan DEL')


OPS = {
    'GET': lambda v: [list(b'GET'), list(K)],
    'SET': lambda v: [list(b'SET'), list(K), v],
    'APPEND': lambda v: [list(b'APPEND'), list(K), v],
    'DEL': lambda v: [list(b'DEL'), list(K)],
}


def show(vals, m):
    if vals is None: return None
    return ''.join('%02x' % concretize(v, m) for v in vals)


def pull_path(ctx, job):
    ops = job['ops']
    def setup(e): e.loop_budget = 100000
    def run(e):
        w = World(e, job)
        V = [z3.BitVec('V%d' % i, 8) for i in range(2)]
        if job['initial'] == 'src': w.src.db[K] = (list(V), -1)
        elif job['initial'] == 'dst': w.dst.db[K] = (list(V), -1)
        logical = list(V) if job['initial'] != 'none' else None     # the register's value as a single sequential history sees it
        touched = False
        scan_state = 0      # 0 not started, 1 dumped (holds a snapshot), 2 restored, 3 deleted
        snapshot = None
        items = []
        budget = [job['steps']]
        refused = [False]; overwritten = [False]
        def wit(m, extra=None):
            d = {'initial': job['initial'], 'ops': ops, 'trace': list(w.trace), 'V': show(V, m),
                 'src': {k.decode('latin1'): show(v[0], m) for k, v in w.src.db.items()}, 'dst': {k.decode('latin1'): show(v[0], m) for k, v in w.dst.db.items()}}
            if extra: d.update(extra(m))
            return d
        def env_until(rcv):
            """the environment acts until the client's reply is there (or the step budget is used up)"""
            nonlocal scan_state, snapshot
            while True:
                w.pump()
                r = e.poll(Ref(Cell(rcv)))
                if r.variant == 0: return un(r.f[0].v)
                acts = []
                if w.qdst.q: acts.append('dst')
                if w.qsrc.q: acts.append('src')
                if w.qsrcp.q: acts.append('srcp')
                if job.get('scan'):
                    # the scan holds the source proxy's lock of the key from its DUMP to its DEL, so UMSYNC waits for it
                    if scan_state == 0 and K in w.src.db: acts.append('scan-dump')
                    elif scan_state == 1: acts.append('scan-restore')
                    elif scan_state == 2: acts.append('scan-del')
                if scan_state in (1, 2) and 'srcp' in acts: acts.remove('srcp')
                if not acts or budget[0] <= 0: return None
                budget[0] -= 1
                a = acts[e.choose(len(acts), 'env')]
                if a == 'dst':
                    fault = None
                    if job.get('restore_fault') and X.as_bytes(X.cmd_elements(e, inner_ctx(first_task(e, w.qdst.q[0])))[0]) == b'RESTORE':
                        if e.choose(2, 'restore-refused') == 1:
                            # any error a Redis may answer except BUSYKEY (which it only sends when the key exists)
                            n = job['restore_fault']
                            txt = [z3.BitVec('err%d' % i, 8) for i in range(n)]
                            pre = b'BUSYKEY'
                            e.assume(zor([txt[i] != pre[i] for i in range(min(n, len(pre)))]))
                            fault = Enum('Resp', e.src.variant_index('Resp', 'Error'), [RVec([Cell(b) for b in txt])]); refused[0] = True
                    w.step_backend('dst', fault)
                elif a == 'src': w.step_backend('src')
                elif a == 'srcp': w.step_srcproxy()
                elif a == 'scan-dump': snapshot = w.src.db[K]; scan_state = 1; w.trace.append('scan DUMP')
                elif a == 'scan-restore': w.scan_restore(snapshot); scan_state = 2
                elif a == 'scan-del': w.scan_del(); scan_state = 3
        for i, op in enumerate(ops):
            val = [z3.BitVec('W%d_%d' % (i, k), 8) for k in range(1)]
            rcv, r = w.client(OPS[op](val))
            if r.variant != 0:
                items.append(('command-accepted', 'C03/command-refused-during-migration/' + op, False, wit)); break
            rep = env_until(rcv)
            if rep is None: break          # step budget used up before the reply: nothing to compare for this path
            rr = X.reply_resp(e, rep)
            touched = True
            def w2(m, rr=rr, op=op, logical=logical): return wit(m, lambda m: {'op': op, 'reply': repr(rr)[:120], 'expected_value': show(logical, m)})
            if rr[0] != 'ok':
                items.append(('reply-present', 'C03/command-failed/' + op, False, w2)); continue
            t = rr[1]
            if job.get('restore_fault') and refused[0]:
                # Redis faults are outside the property's quantifier: when the destination refused the RESTORE the
                # pipelined command still ran there (a GET answers nil although the key is on the source).  Recorded as
                # an observation; what is decided for this family is that nothing is lost or duplicated (below).
                ctx.notes['observation: command pipelined behind a refused RESTORE runs on the destination without the key'] = True
                if op in ('SET', 'APPEND'):
                    logical = list(val) if op == 'SET' else list(val)       # the destination now holds what the command made of a missing key
                    overwritten[0] = True
                continue
            if op == 'GET':
                ok = (t == ('Bulk', None)) if logical is None else (t[0] == 'Bulk' and t[1] is not None and X.bytes_eq(t[1], logical))
                items.append(('read-sees-last-write', 'C03/read-does-not-see-last-acknowledged-write', ok, w2))
            elif op == 'SET':
                items.append(('write-acknowledged', 'C03/write-not-acknowledged', t == ('Simple', list(b'OK')), w2)); logical = list(val)
            elif op == 'APPEND':
                new = (logical or []) + list(val)
                items.append(('append-acknowledged-with-length', 'C03/append-on-wrong-base-value', t[0] == 'Integer' and X.as_bytes(t[1]) == str(len(new)).encode(), w2)); logical = new
            elif op == 'DEL':
                items.append(('delete-reports-existence', 'C03/delete-reply-wrong', t[0] == 'Integer' and X.as_bytes(t[1]) == (b'1' if logical is not None else b'0'), w2)); logical = None
        # quiescence: everything queued is answered, the scan (if started) finishes
        for _ in range(40):
            w.pump()
            if w.qdst.q: w.step_backend('dst')
            elif w.qsrc.q: w.step_backend('src')
            elif w.qsrcp.q and scan_state not in (1, 2): w.step_srcproxy()
            elif scan_state == 1: w.scan_restore(snapshot); scan_state = 2
            elif scan_state == 2: w.scan_del(); scan_state = 3
            else: break
        w.pump()
        in_src = K in w.src.db; in_dst = K in w.dst.db
        def w3(m): return wit(m, lambda m: {'logical_value': show(logical, m)})
        if logical is None:
            items.append(('deleted-key-stays-deleted', 'C03/deleted-key-reappears', not in_src and not in_dst, w3))
        else:
            items.append(('live-key-exists', 'C03/acknowledged-value-lost', in_src or in_dst, w3))
            if not refused[0]:
                # the copy a later read would be served from holds the last acknowledged write
                where = w.dst.db.get(K) or w.src.db.get(K)
                if where is not None:
                    items.append(('stored-value-is-last-write', 'C03/stored-value-is-not-the-last-acknowledged-write', X.bytes_eq(where[0], logical), w3))
                if scan_state == 3:
                    # once the source side has processed the key (its scan reached it) the key exists exactly once, on the
                    # destination; before that a transient second copy on the source is not excluded by the statement
                    items.append(('live-key-exists-once', 'C03/key-duplicated', not (in_src and in_dst), w3))
                    items.append(('scanned-key-left-the-source', 'C03/key-still-on-source-after-scan', not in_src, w3))
        ctx.require_all(e, items)
        ctx.sample({'scenario': 'pull path %s %s' % (job['initial'], '+'.join(ops)), 'trace': list(w.trace), 'src_has_key': in_src, 'dst_has_key': in_dst})
        return len(ops)
    res = ctx.explore('pull path initial=%s ops=%s scan=%s fault=%s' % (job['initial'], '+'.join(ops), job.get('scan'), job.get('restore_fault')), run, engine_setup=setup, max_paths=200000)
    ctx.ops += sum(p.value or 0 for p in res if p.kind == 'ok')


def overlap_path(ctx, job):
    """two clients at the importing proxy: a read whose pull is in flight and a write issued at any later point, with the
    source side's scan of the key at any points in between.  The stale dump of the pull must never replace what the
    acknowledged write stored."""
    def setup(e): e.loop_budget = 100000
    def run(e):
        w = World(e, job)
        V = [z3.BitVec('V%d' % i, 8) for i in range(2)]
        W = [z3.BitVec('W%d' % i, 8) for i in range(1)]
        w.src.db[K] = (list(V), -1)
        scan_state = 0; snapshot = None
        rcv_a, r = w.client(OPS['GET'](None)); assert r.variant == 0
        rcv_b = None; rep = {'a': None, 'b': None}
        budget = job['steps']
        while budget > 0:
            w.pump()
            for nm, rc in (('a', rcv_a), ('b', rcv_b)):
                if rc is not None and rep[nm] is None:
                    pr = e.poll(Ref(Cell(rc)))
                    if pr.variant == 0: rep[nm] = un(pr.f[0].v)
            if rep['a'] is not None and rep['b'] is not None: break
            if rcv_b is None and job['steps'] - budget >= job['issue_at']:
                # the second client issues its write after `issue_at` environment steps (one job per position: the
                # positions are explored in parallel processes)
                rcv_b, r = w.client(OPS[job['write']](W)); assert r.variant == 0
                continue
            acts = []
            if w.qdst.q: acts.append('dst')
            if w.qsrc.q: acts.append('src')
            if w.qsrcp.q and scan_state not in (1, 2): acts.append('srcp')
            if scan_state == 0 and K in w.src.db: acts.append('scan-dump')
            elif scan_state == 1: acts.append('scan-restore')
            elif scan_state == 2: acts.append('scan-del')
            if not acts:
                if rcv_b is None: budget = job['steps'] - job['issue_at']; continue      # nothing else can happen before the write
                break
            budget -= 1
            a = acts[e.choose(len(acts), 'env')]
            if a == 'dst': w.step_backend('dst')
            elif a == 'src': w.step_backend('src')
            elif a == 'srcp': w.step_srcproxy()
            elif a == 'scan-dump': snapshot = w.src.db[K]; scan_state = 1; w.trace.append('scan DUMP')
            elif a == 'scan-restore': w.scan_restore(snapshot); scan_state = 2
            elif a == 'scan-del': w.scan_del(); scan_state = 3
        if rep['a'] is None or rep['b'] is None: return 0          # step budget used up: nothing to compare on this path
        for _ in range(40):
            w.pump()
            if w.qdst.q: w.step_backend('dst')
            elif w.qsrc.q: w.step_backend('src')
            elif w.qsrcp.q and scan_state not in (1, 2): w.step_srcproxy()
            elif scan_state == 1: w.scan_restore(snapshot); scan_state = 2
            elif scan_state == 2: w.scan_del(); scan_state = 3
            else: break
        w.pump()
        ra, rb = X.reply_resp(e, rep['a']), X.reply_resp(e, rep['b'])
        def wit(m): return {'write': job['write'], 'trace': list(w.trace), 'V': show(V, m), 'W': show(W, m), 'read_reply': repr(ra)[:120], 'write_reply': repr(rb)[:120],
                            'src': {k.decode('latin1'): show(v[0], m) for k, v in w.src.db.items()}, 'dst': {k.decode('latin1'): show(v[0], m) for k, v in w.dst.db.items()}}
        items = [('write-acknowledged', 'C03/write-not-acknowledged', rb == ('ok', ('Simple', list(b'OK'))), wit)]
        okr = ra[0] == 'ok' and ra[1][0] == 'Bulk' and ra[1][1] is not None and zor([X.bytes_eq(ra[1][1], V), X.bytes_eq(ra[1][1], W)])
        items.append(('concurrent-read-sees-old-or-new-value', 'C03/read-sees-neither-old-nor-new-value', okr, wit))
        where = w.dst.db.get(K) or w.src.db.get(K)
        items.append(('live-key-exists', 'C03/acknowledged-value-lost', where is not None, wit))
        if where is not None:
            items.append(('stored-value-is-last-write', 'C03/stored-value-is-not-the-last-acknowledged-write', X.bytes_eq(where[0], W), wit))
        if scan_state == 3:
            items.append(('scanned-key-left-the-source', 'C03/key-still-on-source-after-scan', K not in w.src.db, wit))
        ctx.require_all(e, items)
        ctx.sample({'scenario': 'overlap GET || %s' % job['write'], 'trace': list(w.trace)})
        return 2
    res = ctx.explore('overlapping GET || %s with scan, write issued after %d of %d steps' % (job['write'], job['issue_at'], job['steps']), run, engine_setup=setup, max_paths=400000)
    ctx.ops += sum(p.value or 0 for p in res if p.kind == 'ok')


# ---------------------------------------------------------------- source side: one scan pass (scan_and_migrate_keys)
class ReadyFuture(PyObj):
    def __init__(self, v): self.v = v
    def m_poll(self, e, *a): return Enum('Poll', 0, [self.v])


class ScanClient(PyObj):
    """RedisClient stand-in in front of a storing Redis; SCAN batches are chosen by the environment"""
    def __init__(self, redis, keys, env_batch): self.redis = redis; self.keys = keys; self.env_batch = env_batch
    def run(self, e, cmd):
        elems = [[c.v for c in deref_vec(x.v).cells] for x in deref_vec(cmd).cells]
        if getattr(self.redis, 'wants_vecs', False): self.redis.vecs = [deref_vec(x.v) for x in deref_vec(cmd).cells]
        name = X.as_bytes(elems[0]).upper()
        if name == b'SCAN':
            cur = int(X.as_bytes(elems[1]))
            n = self.env_batch(len(self.keys) - cur)
            batch = self.keys[cur:cur + n]; nxt = cur + n
            if nxt >= len(self.keys): nxt = 0
            return X.array(e, [X.bulk(e, list(str(nxt).encode())), X.array(e, [X.bulk(e, list(k)) for k in batch])])
        if name == b'DEL':
            cnt = 0
            for k in elems[1:]:
                if self.redis.db.pop(X.as_bytes(k), None) is not None: cnt += 1
            self.redis.log.append((b'DEL', [X.as_bytes(k) for k in elems[1:]]))
            return X.integer(e, cnt)
        return self.redis.execute(e, elems)
    def m_execute_single(self, e, s, cmd): return ReadyFuture(Ok(self.run(e, cmd)))
    def m_execute_multi(self, e, s, cmds): return ReadyFuture(Ok(RVec([Cell(self.run(e, c.v)) for c in deref_vec(cmds).cells])))
    def m_execute(self, e, s, opt):
        o = un(opt)
        if e.src.enums['OptionalMulti'][o.variant] == 'Single': return ReadyFuture(Ok(Enum('OptionalMulti', o.variant, [self.run(e, o.f[0].v)])))
        return ReadyFuture(Ok(Enum('OptionalMulti', o.variant, [RVec([Cell(self.run(e, c.v)) for c in deref_vec(o.f[0].v).cells])])))
    def m_quit(self, e, s): return ReadyFuture(Ok(mk_unit()))


class DstFactory(PyObj):
    def __init__(self, client): self.client = client
    def m_create_client(self, e, s, addr): return ReadyFuture(Ok(self.client))


def scan_pass(ctx, job):
    """keep_migrating's loop around the real scan_and_migrate_keys: while another request holds the lock slot of a key
    the key is skipped and must be retried; the scan may only report completion when no key of the range is left"""
    from mirsym.models.misc import crc16_arc, crc16_xmodem
    names = job['keys']
    def setup(e): e.loop_budget = 100000
    def run(e):
        src, dst = Redis('src'), Redis('dst')
        vals = {}
        for i, k in enumerate(names):
            vals[k] = [z3.BitVec('v%d_%d' % (i, j), 8) for j in range(1)]
            src.db[k] = (list(vals[k]), -1)
        srcc = ScanClient(src, list(names), lambda rem: 1 + e.choose(rem, 'scan-batch'))
        dstc = ScanClient(dst, [], None)
        rl = Struct('RangeList', [RVec([Cell(Struct('Range', [0, 16383]))])])
        sra = e.run_func(e.find_fn('SlotRangeArray', 'new'), [rl])
        mutex = Struct('SlotMutex', [RVec([Cell(Struct('Atomic', [False])) for _ in range(16384)])])
        df = [f for f in e.mir.all_funcs if f.name.endswith('::default') and f.ret.endswith('MigrationStats')][0]
        stats = e.run_func(df, [])
        e.generic_env.update({'F': 'DstFactory', 'T': 'CmdCtx', 'C': 'ScanClient'})
        fn = e.find_fn('ScanMigrationTask', 'scan_and_migrate_keys')
        slots = {k: (crc16_arc(e, [Cell(b) for b in k]) % 16384) for k in names}
        index = 0; finished = False; trace = []
        cached = NONE()
        holds = job['holds']
        for call in range(job['calls']):
            # other requests (UMSYNC of a key) may hold lock slots during this pass
            held = []
            for k in names:
                if holds > 0 and e.choose(2, 'hold-%s' % k.decode()) == 1:
                    cell = deref_vec(mutex.f[0].v).cells[slots[k]].v
                    if not cell.f[0].v: cell.f[0].v = True; held.append(k); holds -= 1
            fut = e.run_func(fn, [Ref(Cell(sra)), index, cached, Ref(Cell(srcc)), RStr('dst:6379'), Ref(Cell(DstFactory(dstc)), 'Arc'), 1, Ref(Cell(mutex)), Ref(Cell(stats))])
            r = un(e.block_on(Ref(Cell(fut))))
            for k in held: deref_vec(mutex.f[0].v).cells[slots[k]].v.f[0].v = False
            if r.variant != 0:
                trace.append('pass %d failed' % call); break
            tup = un(r.f[0].v)
            index = tup.f[0].v; finished = tup.f[1].v; cached = tup.f[2].v
            trace.append('pass %d: held=%s -> next cursor %s finished=%s src=%s' % (call, [k.decode() for k in held], index, finished, sorted(k.decode() for k in src.db)))
            if finished: break
        def wit(m=None): return {'keys': [k.decode() for k in names], 'lock_slots': {k.decode(): slots[k] for k in names}, 'trace': trace,
                                 'left_on_source': sorted(k.decode() for k in src.db), 'on_destination': sorted(k.decode() for k in dst.db)}
        items = []
        for k in names:
            in_s = k in src.db; in_d = k in dst.db
            items.append(('key-never-lost', 'C03/scan-lost-a-key', in_s or in_d, wit))
            items.append(('key-not-duplicated', 'C03/scan-left-a-key-on-both-sides', not (in_s and in_d), wit))
            if in_d: items.append(('value-transferred-unaltered', 'C03/scan-altered-a-value', X.bytes_eq(dst.db[k][0], vals[k]), wit))
        if finished:
            items.append(('scan-finishes-only-when-source-is-empty', 'C03/scan-reports-finished-with-keys-left-on-source', not src.db, wit))
        ctx.require_all(e, items)
        ctx.sample({'scenario': 'scan pass', 'trace': trace, 'src_log': [str(x) for x in src.log][:12], 'dst_log': [str(x) for x in dst.log][:12]})
        return len(trace)
    res = ctx.explore('scan pass keys=%s holds=%d calls=%d' % ([k.decode() for k in names], job['holds'], job['calls']), run, engine_setup=setup, max_paths=200000)
    ctx.ops += sum(p.value or 0 for p in res if p.kind == 'ok')


def first_task(e, req):
    req = un(req)
    return req.f[0].v if e.src.enums['ReqTask'][req.variant] == 'Simple' else deref_vec(req.f[0].v).cells[0].v


def worker(ctx, job):
    if job.get('kind') == 'overlap': return overlap_path(ctx, job)
    if job.get('kind') == 'scan': scan_pass(ctx, job)
    else: pull_path(ctx, job)


def run(ctx):
    quick = ctx.tier == 'quick'
    jobs = []
    seqs = [['GET'], ['SET', 'GET'], ['DEL', 'GET'], ['GET', 'DEL', 'GET'], ['APPEND', 'GET'], ['SET', 'DEL', 'GET']]
    if not quick: seqs += [['GET', 'SET', 'GET'], ['DEL', 'SET', 'GET'], ['APPEND', 'DEL', 'GET'], ['GET', 'GET']]
    for initial in ('src', 'dst', 'none'):
        for ops in seqs:
            jobs.append({'initial': initial, 'ops': ops, 'steps': 14})
            if initial == 'src':
                jobs.append({'initial': initial, 'ops': ops, 'steps': 16 if quick else 20, 'scan': True})
    for ops in (['GET'], ['SET', 'GET'], ['APPEND', 'GET']):
        jobs.append({'initial': 'src', 'ops': ops, 'steps': 14, 'restore_fault': 8 if quick else 12})
    jobs.append({'kind': 'scan', 'keys': [b'ka', b'kb'], 'holds': 1, 'calls': 4})
    jobs.append({'kind': 'scan', 'keys': [b'ka', b'kb', b'kc'], 'holds': 1 if quick else 2, 'calls': 5 if quick else 6})
    # the longest jobs first
    jobs = [{'kind': 'overlap', 'write': 'SET', 'steps': 14 if quick else 18, 'issue_at': k} for k in range(6 if quick else 10)] + jobs
    ctx.bounds = {'scan pass': '2-3 keys, SCAN batches of any size, <= 2 lock slots held by other requests during a pass, <= 6 passes', 'keys': 'one key', 'client operations': '<= 3 of GET / SET / APPEND / DEL issued one after the other (each waits for its reply)', 'initial placement': ['source only', 'destination only', 'nowhere'],
                  'environment': 'answers of source Redis / destination Redis / source proxy (UMSYNC) one queued request at a time in any order; scan of the key (DUMP, RESTORE without REPLACE, DEL) at any points; refused RESTORE with symbolic error text',
                  'value bytes': 'symbolic'}
    ctx.assumptions += ['stand-ins: source Redis, destination Redis (EXISTS / DUMP / PTTL / RESTORE without REPLACE -> BUSYKEY iff the key exists / DEL / GET / SET / APPEND), source proxy (UMSYNC key: moves the key if still present and deletes it locally)',
                        'the source proxy serialises UMSYNC and its scan of the same key by its key lock (scan DUMP..DEL excludes UMSYNC)', 'a Multi request is answered as one pipeline on one connection',
                        'a Redis only answers BUSYKEY to RESTORE when the key exists; any other refusal text is symbolic', 'DUMP payload = the value bytes (serialisation format is opaque to the proxy)']
    ctx.not_explored += ['concurrent client operations on the same key other than one read whose pull is in flight overlapped by one SET (a DEL or APPEND overlapping a pull is not explored: whether a stale dump restored after an acknowledged DEL can bring the key back is an open question this check does not answer)', 'the source side beyond one scan loop over scan_and_migrate_keys (handle_sync_task, keep_migrating timing, PRECHECK/PRESWITCH/FINALSWITCH handshake of scan_task.rs)',
                         'several keys sharing a lock slot', 'expiry during the transfer (ttl conversion: C19)', 'redirect modes, backend connection counts', 'the commit of the migration and stopping of the task handler (run_task_handler select! cascade)']
    ctx.run_parallel(jobs, worker)
