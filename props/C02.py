"""C02 - synced proxies route every key to the broker-designated master (decided in part: metadata agreement across
the layers on the real plain encode path, for a symbolic slot).
broker view (get_proxy_by_address) -> filter_proxy_masters -> generate_proxy_meta_cmd_args -> ProxyClusterMeta::parse
-> ClusterBackendMap::from_cluster_map (mock senders) -> send(task with symbolic slot), for every proxy of the cluster."""
from props.scenarios import *
from props.routing import *


def designated(b, limit):
    """[(ranges, tag, node address, proxy address)] of master nodes from the broker's cluster view"""
    dc = b.dec_cluster(b.view_cluster(limit))
    out = []
    for n in dc['nodes']:
        for sr in n['slots']:
            out.append((sr['ranges'], sr['tag'], n['address'], n['proxy'], sr['meta']))
    return out


def scenario(ctx, job):
    def run(e):
        b = Broker(e); b.new_store()
        nchunks = job['chunks']
        b.add_proxies([nchunks + job.get('extra', 0), nchunks + job.get('extra', 0)])
        r = b.add_cluster(4 * nchunks); assert r.variant == 0
        if job.get('roles'): b.symbolise_roles()
        if job.get('migrate'):
            r = b.call('auto_add_nodes', RStr('c1'), 4); assert r.variant == 0
            r = b.call('migrate_slots', RStr('c1')); assert r.variant == 0
        limit = job.get('limit', 0)
        des = designated(b, limit)
        proxies = cluster_proxies(b)
        maps = {}
        for a in proxies:
            view = b.view_proxy(a, limit)
            masters = e.call('coordinator::sync::filter_proxy_masters', [clone(view)])
            flags = Struct('ClusterMapFlags', [False, False])
            args = e.call('coordinator::sync::generate_proxy_meta_cmd_args', [flags, masters])
            assert args.variant == 0, args
            toks = [RStr(c.v.s) for c in deref_vec(args.f[0].v).cells]
            parsed = e.run_func(e.find_fn('ProxyClusterMeta', 'parse'), [Ref(Cell(PyIter(toks)))])
            if parsed.variant != 0:
                ctx.require_all(e, [('metadata-parses-at-proxy', 'C02/broker-metadata-rejected-by-proxy-parser', False, lambda m: {'proxy': a, 'args': [sval(t) for t in toks]})])
                return 0
            meta = parsed.f[0].v.f[0].v
            lf, pf = MockFactory('local'), MockFactory('peer')
            maps[a] = e.run_func(e.find_fn('ClusterBackendMap', 'from_cluster_map'), [Ref(Cell(meta)), Ref(Cell(lf)), Ref(Cell(pf)), False])
        s = z3.BitVec('slot', 64); e.assume(z3.ULT(s, SLOT_NUM))
        items = []
        def route(a):
            t = MockTask(s)
            r = send(e, maps[a], t)
            rep = reply_text(e, t)
            if t.sent_to is not None: return ('local', t.sent_to)
            if rep is not None:
                parts = list(str_parts(rep[1]))
                if parts and isinstance(parts[0], str) and parts[0].startswith('MOVED'): return ('moved', parts[-1].strip() if isinstance(parts[-1], str) else None)
                return ('error', sval(rep[1]) if all(isinstance(p, str) for p in parts) else repr(parts))
            return ('none', None)
        for a in proxies:
            kind, where = route(a)
            # which designated entry covers the slot?
            def wit(m, a=a, kind=kind, where=where): return {'start_proxy': a, 'slot': concretize(s, m), 'decision': (kind, where), 'limit': limit,
                                                               'designated': [(concretize(rs, m) if False else [(concretize(x, m), concretize(y, m)) for x, y in rs], tg, na, pa) for rs, tg, na, pa, _ in des]}
            for rs, tg, na, pa, meta in des:
                if tg == 'Importing': continue
                inr = in_ranges(s, rs)
                if tg == 'None':
                    if kind == 'local':
                        items.append(('executes-only-on-designated-master', 'C02/executed-on-non-designated-node', z3.Implies(zbool(inr), where == na), wit))
                    elif kind == 'moved':
                        items.append(('moved-names-designated-proxy', 'C02/moved-to-non-designated-proxy', z3.Implies(zbool(inr), where == pa), wit))
                    else:
                        items.append(('every-slot-routable', 'C02/slot-not-routable', znot(inr), wit))
                else:   # Migrating: source or destination of that migration
                    ok_nodes = (sval(meta['src_node_address']), sval(meta['dst_node_address'])); ok_prox = (sval(meta['src_proxy_address']), sval(meta['dst_proxy_address']))
                    if kind == 'local':
                        items.append(('migrating-slot-executed-only-by-participants', 'C02/migrating-slot-executed-by-non-participant', z3.Implies(zbool(inr), where in ok_nodes), wit))
                    elif kind == 'moved':
                        items.append(('migrating-slot-moved-to-participant', 'C02/migrating-slot-moved-to-non-participant', z3.Implies(zbool(inr), where in ok_prox), wit))
                    else:
                        items.append(('every-slot-routable', 'C02/slot-not-routable', znot(inr), wit))
            # at most one redirection for non-migrating slots: the MOVED target executes locally on the designated node
            if kind == 'moved' and where in maps:
                k2, w2 = route(where)
                for rs, tg, na, pa, meta in des:
                    if tg != 'None': continue
                    items.append(('one-redirection-suffices', 'C02/second-redirection-needed', z3.Implies(zbool(in_ranges(s, rs)), zand([k2 == 'local', w2 == na])), wit))
        ctx.require_all(e, items)
        return len(proxies)
    def setup(e): e.max_steps = 80_000_000
    res = ctx.explore('pipeline chunks=%d migrate=%s roles=%s limit=%s' % (job['chunks'], job.get('migrate'), job.get('roles'), job.get('limit', 0)), run, engine_setup=setup)
    ctx.ops += sum(p.value or 0 for p in res if p.kind == 'ok')
    ctx.sample({'scenario': 'pipeline', 'paths': len(res)})


def run(ctx):
    quick = ctx.tier == 'quick'
    jobs = [{'chunks': 1}, {'chunks': 1, 'roles': True}, {'chunks': 1, 'migrate': True, 'extra': 1}, {'chunks': 2}]
    if not quick:
        jobs += [{'chunks': 2, 'roles': True}, {'chunks': 1, 'migrate': True, 'extra': 1, 'roles': True}, {'chunks': 1, 'migrate': True, 'extra': 1, 'limit': 1}, {'chunks': 2, 'migrate': True, 'extra': 1}]
    ctx.bounds = {'clusters': '1-2 chunks (+1 during a scale-out migration)', 'slot': 'symbolic over all 16384', 'role positions': 'enumerated', 'encoding': 'plain UMCTL SETCLUSTER arguments'}
    ctx.assumptions += ['range boundaries are the concrete balanced ones the broker produces (the proxy slot table cannot be built with symbolic bounds)',
                        'data commands are dispatched by ClusterBackendMap::send; the migration task layer in front of it (MigrationMap::send) is C03 territory']
    ctx.not_explored += ['the <= 3 redirections bound while a migration task is live', 'the compressed encoding', 'delivery of the metadata (C07)']
    ctx.run_parallel(jobs, lambda c, j: scenario(c, j))
