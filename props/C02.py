"""C02 - synced proxies route every key to the broker-designated master (decided in part: metadata agreement across
the layers on the real plain encode path, for a symbolic slot).
broker view (get_proxy_by_address) -> filter_proxy_masters -> generate_proxy_meta_cmd_args -> ProxyClusterMeta::parse
-> ClusterBackendMap::from_cluster_map (mock senders) -> send(task with symbolic slot), for every proxy of the cluster."""
from props.scenarios import *
from props.routing import *


def designated(b, limit):
    """[(ranges, tag, node address, proxy address)] of master nodes from the broker's cluster view"""
    dc = b.dec_cluster(b.view_cluster(limit))
    out = []
    for n in dc['nodes']:
        for sr in n['slots']:
            out.append((sr['ranges'], sr['tag'], n['address'], n['proxy'], sr['meta']))
    return out


def scenario(ctx, job):
    def run(e):
        b = Broker(e); b.new_store()
        nchunks = job['chunks']
        b.add_proxies([nchunks + job.get('extra', 0), nchunks + job.get('extra', 0)])
        r = b.add_cluster(4 * nchunks); assert r.variant == 0
        if job.get('narrow'):
            # concrete balanced layout with one-slot tiles at both ends of the slot space: 0-0 and 16383-16383
            b.symbolise_stable([0, 1, 0, 1], fixed_ends=[0, 8191, 16382])
        if job.get('roles'): b.symbolise_roles()
        if job.get('migrate'):
            r = b.call('auto_add_nodes', RStr('c1'), 4); assert r.variant == 0
            r = b.call('migrate_slots', RStr('c1')); assert r.variant == 0
        if job.get('scale_down'):
            # a removed chunk whose masters keep no stable slots and feed several destinations (most postponed by the limit)
            r = b.call('migrate_slots_to_scale_down', RStr('c1'), 4 * job['scale_down']); assert r.variant == 0, r
        limit = job.get('limit', 0)
        des = designated(b, limit)
        proxies = cluster_proxies(b)
        maps = {}
        for a in proxies:
            view = b.view_proxy(a, limit)
            masters = e.call('coordinator::sync::filter_proxy_masters', [clone(view)])
            flags = Struct('ClusterMapFlags', [False, False])
            args = e.call('coordinator::sync::generate_proxy_meta_cmd_args', [flags, masters])
            assert args.variant == 0, args
            toks = [RStr(c.v.s) for c in deref_vec(args.f[0].v).cells]
            parsed = e.run_func(e.find_fn('ProxyClusterMeta', 'parse'), [Ref(Cell(PyIter(toks)))])
            if parsed.variant != 0:
                ctx.require_all(e, [('metadata-parses-at-proxy', 'C02/broker-metadata-rejected-by-proxy-parser', False, lambda m: {'proxy': a, 'args': [sval(t) for t in toks]})])
                return 0
            meta = parsed.f[0].v.f[0].v
            lf, pf = MockFactory('local'), MockFactory('peer')
            maps[a] = e.run_func(e.find_fn('ClusterBackendMap', 'from_cluster_map'), [Ref(Cell(meta)), Ref(Cell(lf)), Ref(Cell(pf)), False])
        s = z3.BitVec('slot', 64); e.assume(z3.ULT(s, SLOT_NUM))
        items = []
        # every slot has a designated master in the view the proxies are given (the limited view when a limit is set)
        items.append(('every-slot-has-a-designated-master', 'C02/slot-without-designated-master', zor([in_ranges(s, rs) for rs, tg, na, pa, _ in des if tg != 'Importing']),
                      lambda m: {'slot': concretize(s, m), 'limit': limit, 'designated': [([(concretize(x, m), concretize(y, m)) for x, y in rs], tg, na, pa) for rs, tg, na, pa, _ in des]}))
        def route(a):
            t = MockTask(s)
            r = send(e, maps[a], t)
            rep = reply_text(e, t)
            if t.sent_to is not None: return ('local', t.sent_to)
            if rep is not None:
                parts = list(str_parts(rep[1]))
                if parts and isinstance(parts[0], str) and parts[0].startswith('MOVED'): return ('moved', parts[-1].strip() if isinstance(parts[-1], str) else None)
                return ('error', sval(rep[1]) if all(isinstance(p, str) for p in parts) else repr(parts))
            return ('none', None)
        for a in proxies:
            kind, where = route(a)
            # which designated entry covers the slot?
            def wit(m, a=a, kind=kind, where=where): return {'start_proxy': a, 'slot': concretize(s, m), 'decision': (kind, where), 'limit': limit,
                                                               'designated': [(concretize(rs, m) if False else [(concretize(x, m), concretize(y, m)) for x, y in rs], tg, na, pa) for rs, tg, na, pa, _ in des]}
            for rs, tg, na, pa, meta in des:
                if tg == 'Importing': continue
                inr = in_ranges(s, rs)
                if tg == 'None':
                    if kind == 'local':
                        items.append(('executes-only-on-designated-master', 'C02/executed-on-non-designated-node', z3.Implies(zbool(inr), where == na), wit))
                    elif kind == 'moved':
                        items.append(('moved-names-designated-proxy', 'C02/moved-to-non-designated-proxy', z3.Implies(zbool(inr), where == pa), wit))
                    else:
                        items.append(('every-slot-routable', 'C02/slot-not-routable', znot(inr), wit))
                else:   # Migrating: source or destination of that migration
                    ok_nodes = (sval(meta['src_node_address']), sval(meta['dst_node_address'])); ok_prox = (sval(meta['src_proxy_address']), sval(meta['dst_proxy_address']))
                    if kind == 'local':
                        items.append(('migrating-slot-executed-only-by-participants', 'C02/migrating-slot-executed-by-non-participant', z3.Implies(zbool(inr), where in ok_nodes), wit))
                    elif kind == 'moved':
                        items.append(('migrating-slot-moved-to-participant', 'C02/migrating-slot-moved-to-non-participant', z3.Implies(zbool(inr), where in ok_prox), wit))
                    else:
                        items.append(('every-slot-routable', 'C02/slot-not-routable', znot(inr), wit))
            # at most one redirection for non-migrating slots: the MOVED target executes locally on the designated node
            if kind == 'moved' and where in maps:
                k2, w2 = route(where)
                for rs, tg, na, pa, meta in des:
                    if tg != 'None': continue
                    items.append(('one-redirection-suffices', 'C02/second-redirection-needed', z3.Implies(zbool(in_ranges(s, rs)), zand([k2 == 'local', w2 == na])), wit))
        ctx.require_all(e, items)
        return len(proxies)
    def setup(e): e.max_steps = 80_000_000
    res = ctx.explore('pipeline chunks=%d migrate=%s roles=%s limit=%s%s' % (job['chunks'], job.get('migrate'), job.get('roles'), job.get('limit', 0), (' one-slot tiles' if job.get('narrow') else '') + (' scale-down to %d' % job['scale_down'] if job.get('scale_down') else '')), run, engine_setup=setup)
    ctx.ops += sum(p.value or 0 for p in res if p.kind == 'ok')
    ctx.sample({'scenario': 'pipeline', 'paths': len(res)})


# ---------------------------------------------------------------- migration task layer (dispatch only)
class TaskStub(PyObj):
    """stands in for RedisScanMigratingTask / RedisScanImportingTask (async scan machinery: C03): records what it is asked"""
    def __init__(self, kind, slot_range, meta): self.kind = kind; self.slot_range = slot_range; self.meta = meta; self.got = []
    def m_contains_slot(self, e, s, slot):
        rl = un(self.slot_range).f[0].v
        return e.run_func(e.find_fn('RangeList', 'contains_slot'), [Ref(Cell(un(rl))), slot]) if False else \
            zor([zand([z3.ULE(bv(un(c.v).f[0].v), bv(slot)), z3.ULE(bv(slot), bv(un(c.v).f[1].v))]) for c in deref_vec(un(rl).f[0].v).cells])
    def m_send(self, e, s, task): self.got.append(un(task)); un(task).sent_to = 'task:%s' % self.kind; return Ok(mk_unit())
    def m_get_state(self, e, s): return Enum('MigrationState', 0)
    def m_get_stop_handle(self, e, s): return NONE()
    def m_start(self, e, s): return Opaque('future')


def install_task_stubs(e, created):
    import re
    def mk(kind, sr_idx, meta_idx):
        def f(e, args):
            t = TaskStub(kind, args[sr_idx], args[meta_idx]); created.append(t); return t
        return f
    e.fn_stubs = []          # per path: the stubs close over this path's `created` list
    # RedisScanMigratingTask::new(config, mgr_config, cluster_name, slot_range, meta, client_factory, ctrl, stats)
    # RedisScanImportingTask::new(config, mgr_config, meta, slot_range, client_factory, sender_factory, dst.., proxy.., cmd_task_factory, stats)
    def dispatch(e, args):
        if len(args) == 8: return mk('migrating', 3, 4)(e, args)
        if len(args) == 10: return mk('importing', 3, 2)(e, args)
        raise Unmodelled('unexpected scan task constructor arity %d' % len(args))
    names = [n for n in e.mir.funcs if re.search(r'scan_task::<impl at [^>]*>::new$', n)]
    for n in names:
        e.fn_stubs.append((re.compile(re.escape(n) + '$'), dispatch, 'RedisScan{Migrating,Importing}Task::new'))


class CtrlFactory(PyObj):
    def m_create(self, e, s, addr): return Opaque('BlockingController')


def migration_layer(ctx, job):
    """metadata installs over time: the live task set follows the migration tags, a task whose tag is unchanged is
    carried over (not restarted, not forgotten), and a command for a slot of a tagged range reaches that task"""
    def run(e):
        created = []
        install_task_stubs(e, created)
        a = z3.BitVec('a', 64); b_ = z3.BitVec('b', 64); c = z3.BitVec('c', 64)
        e.assume(zand([z3.ULT(a, b_), z3.ULT(b_, c), z3.ULT(c, SLOT_NUM - 1)]))
        metaA = {'epoch': z3.BitVec('mepoch', 64), 'src_proxy': 'p1:5299', 'src_node': 'n1:6000', 'dst_proxy': 'p2:5299', 'dst_node': 'n2:6000'}
        metaB = dict(metaA, dst_proxy='p3:5299', dst_node='n3:6000')
        kind = job['side']       # this proxy is source ('Migrating') or destination ('Importing')
        def local(tags):
            srs = [slot_range(e, [(0, a)])] if kind == 'Migrating' else []
            if 'A' in tags: srs.append(slot_range(e, [(a + 1, b_)], (kind, metaA)))
            if 'B' in tags: srs.append(slot_range(e, [(b_ + 1, c)], (kind, metaB)))
            return node_map(e, {'n1:6000' if kind == 'Migrating' else 'n2:6000': srs})
        mm = e.run_func(e.find_fn('MigrationMap', 'empty'), [])
        hist = job['history']           # e.g. ['AB', 'B', 'B', '']: tags present in successive metadata installs
        s = z3.BitVec('slot', 64); e.assume(z3.ULT(s, SLOT_NUM))
        items = []
        alive = {}
        for step, tags in enumerate(hist):
            n_before = len(created)
            e.generic_env.update({'T': 'MockTask'})
            r = e.run_func(e.find_fn('MigrationMap', 'update_from_old_task_map'),
                           [Ref(Cell(mm)), cname(e, 'mydb'), Ref(Cell(local(tags))), Ref(Cell(e.default_value('ClusterConfig'))),
                            Ref(Cell(Opaque('ServerProxyConfig')), 'Arc'), Ref(Cell(Opaque('AtomicMigrationConfig')), 'Arc'), Ref(Cell(Opaque('cf')), 'Arc'),
                            Ref(Cell(Opaque('sf')), 'Arc'), Ref(Cell(Opaque('dsf')), 'Arc'), Ref(Cell(Opaque('psf')), 'Arc'), Ref(Cell(Opaque('ctf')), 'Arc'),
                            Ref(Cell(CtrlFactory()), 'Arc'), Ref(Cell(Opaque('stats')), 'Arc')])
            mm = un(r).f[0].v
            new = created[n_before:]
            def wit(m, step=step, tags=tags): return {'side': kind, 'history': hist, 'step': step, 'a': concretize(a, m), 'b': concretize(b_, m), 'c': concretize(c, m), 'slot': concretize(s, m),
                                                      'tasks_created_at_this_step': len(new)}
            # exactly the tags that were not live before get a new task
            want_new = [t for t in tags if t not in alive]
            items.append(('new-task-per-new-migration', 'C02/migration-task-set-differs-from-tags', len(new) == len(want_new), wit))
            for t in list(alive):
                if t not in tags: del alive[t]
            for t, obj in zip(want_new, new): alive[t] = obj
            # dispatch of a data command
            task = MockTask(s)
            res = e.run_func(e.find_fn('MigrationMap', 'send'), [Ref(Cell(mm)), task])
            inA = zand([z3.UGT(s, a), z3.ULE(s, b_)]); inB = zand([z3.UGT(s, b_), z3.ULE(s, c)])
            want = zor(([inA] if 'A' in tags else []) + ([inB] if 'B' in tags else []))
            got_task = task.sent_to is not None
            items.append(('slot-of-live-migration-reaches-its-task', 'C02/migrating-slot-bypasses-migration-task', zbool(want) == got_task, wit))
            if got_task:
                owner = [t for t, obj in alive.items() if task in obj.got or any(x is task for x in obj.got)]
                exp = zor(([zand([inA, owner == ['A']])] if 'A' in tags else []) + ([zand([inB, owner == ['B']])] if 'B' in tags else []))
                items.append(('command-reaches-the-task-of-its-range', 'C02/command-dispatched-to-wrong-migration-task', exp, wit))
        ctx.require_all(e, items)
        return len(hist)
    res = ctx.explore('migration task layer %s %s' % (job['side'], job['history']), run)
    ctx.ops += sum(p.value or 0 for p in res if p.kind == 'ok')


HISTORIES = [['A'], ['A', 'A'], ['A', 'A', ''], ['AB', 'B', 'B'], ['A', 'AB', 'B', ''], ['', 'A', 'A']]


def run(ctx):
    quick = ctx.tier == 'quick'
    jobs = [{'chunks': 3, 'scale_down': 2, 'limit': 1}, {'chunks': 1}, {'chunks': 1, 'narrow': True}, {'chunks': 1, 'roles': True}, {'chunks': 1, 'migrate': True, 'extra': 1}, {'chunks': 2}]
    if not quick:
        jobs += [{'chunks': 2, 'roles': True}, {'chunks': 1, 'migrate': True, 'extra': 1, 'roles': True}, {'chunks': 1, 'migrate': True, 'extra': 1, 'limit': 1}, {'chunks': 2, 'migrate': True, 'extra': 1}]
    ctx.bounds = {'clusters': '1-2 chunks (+1 during a scale-out migration)', 'slot': 'symbolic over all 16384', 'role positions': 'enumerated', 'encoding': 'plain UMCTL SETCLUSTER arguments'}
    ctx.assumptions += ['range boundaries are the concrete balanced ones the broker produces (the proxy slot table cannot be built with symbolic bounds)',
                        'pipeline scenarios: data commands are dispatched by ClusterBackendMap::send']
    ctx.not_explored += ['the <= 3 redirections bound while a migration task is live', 'the compressed encoding', 'delivery of the metadata (C07)']
    for side in ('Migrating', 'Importing'):
        for h in (HISTORIES[:4] if quick else HISTORIES):
            jobs.append({'kind': 'mgr', 'side': side, 'history': h})
    ctx.bounds['migration task layer'] = 'metadata install histories of <= 4 steps over two migrations (symbolic range boundaries), source and destination side, symbolic slot'
    ctx.assumptions.append('migration task layer: RedisScanMigratingTask / RedisScanImportingTask constructors are stand-ins (stub:*); only creation / carry-over / dispatch by MigrationMap is decided, not what the tasks do (C03)')
    ctx.run_parallel(jobs, worker)


def worker(c, j):
    if j.get('kind') == 'mgr': migration_layer(c, j)
    else: scenario(c, j)
