"""C17 - control-plane messages survive their wire encodings (plain forms; the compressed form is outside the claim).
Values have symbolic numbers everywhere (epochs full u64, range ends) and enumerated shapes; the real encoders and
decoders are executed from their MIR (decimal text of a symbolic integer is a structured token that parse inverts)."""
import itertools
from props.scenarios import *
from props.resp import RespH


def srange(e, b, tagkind, nranges, tag):
    """a SlotRange with `nranges` symbolic compact ranges and a tag of the given kind with symbolic epoch"""
    rs = []; prev = None
    for i in range(nranges):
        a = z3.BitVec('%s_s%d' % (tag, i), 64); c = z3.BitVec('%s_e%d' % (tag, i), 64)
        e.assume(z3.ULE(a, c)); e.assume(z3.ULT(c, SLOT_NUM))
        if prev is not None: e.assume(z3.ULT(prev + 1, a))
        prev = c; rs.append(Cell(Struct('Range', [a, c])))
    rl = Struct('RangeList', [RVec(rs)])
    vi = b.src.variant_index
    if tagkind == 'None': tg = Enum('SlotRangeTag', vi('SlotRangeTag', 'None'))
    else:
        ep = z3.BitVec('%s_epoch' % tag, 64)
        meta = Struct('MigrationMeta', [ep, RStr('10.0.0.1:7000'), RStr('10.0.0.1:6000'), RStr('10.0.0.2:7000'), RStr('10.0.0.2:6000')])
        tg = Enum('SlotRangeTag', vi('SlotRangeTag', tagkind), [meta])
    return Struct('SlotRange', [rl, tg])


def token_kind(t):
    """class of a wire token (part of violation keys, so that known findings stay specific)"""
    parts = str_parts(t)
    txt = ''.join(p if isinstance(p, str) else '0' for p in parts)
    if txt.upper() in ('PEER', 'CONFIG', 'MIGRATING', 'IMPORTING', 'NOFLAG', 'FORCE', 'COMPRESS', 'V2', 'MASTER', 'REPLICA'): return 'keyword-' + txt.upper()
    if ':' in txt: return 'address'
    if '-' in txt and txt.replace('-', '').isdigit(): return 'range'
    if txt.isdigit(): return 'number'
    return 'name'


def peek(items): return Ref(Cell(PyIter(list(items))))


def strs(v): return [c.v for c in deref_vec(v).cells]


def slot_range_rt(ctx, job):
    def run(e):
        b = Broker(e)
        sr = srange(e, b, job['tag'], job['n'], 'r')
        orig = clone(sr)
        toks = strs(e.run_func(e.find_fn('SlotRange', 'into_strings'), [sr]))
        def wit(m): return {'value': repr(concretize(orig, m))[:300], 'tokens': [concretize(t, m) for t in toks]}
        rp = lambda m: {'kind': 'rust-test', 'filter': 'verif_replay_wire', 'spec': {'entry': 'slotrange', 'tokens': [concretize(t, m) for t in toks]}}
        back = e.run_func(e.find_fn('SlotRange', 'from_strings'), [peek(toks)])
        items = [('decodes', 'C17/slot-range-rejected', back.variant == 1, wit)]
        if back.variant == 1: items.append(('round-trip-equal', 'C17/slot-range-differs', veq(back.f[0].v, orig), lambda m: dict(wit(m), decoded=repr(concretize(back, m))[:300])))
        ctx.require_all(e, items, replay=rp)
        # INFOMGR journey of the task descriptor: into_strings -> join(' ') -> split(' ') -> from_strings
        task = Struct('MigrationTaskMeta', [b.cname('mydb'), clone(orig)])
        torig = clone(task)
        ts = strs(e.run_func(e.find_fn('MigrationTaskMeta', 'into_strings'), [task]))
        joined = mkstr([p for i, t in enumerate(ts) for p in (([' '] if i else []) + list(str_parts(t)))])
        pieces = list(e.call('core::str::<impl str>::split::<char>', [joined, 32]))
        back2 = e.run_func(e.find_fn('MigrationTaskMeta', 'from_strings'), [peek([RStr(x.s) for x in pieces])])
        its = [('task-decodes', 'C17/task-meta-rejected', back2.variant == 1, lambda m: {'line': concretize(joined, m)})]
        if back2.variant == 1: its.append(('task-round-trip-equal', 'C17/task-meta-differs', veq(back2.f[0].v, torig), lambda m: {'line': concretize(joined, m), 'decoded': repr(concretize(back2, m))[:300]}))
        ctx.require_all(e, its, replay=lambda m: {'kind': 'rust-test', 'filter': 'verif_replay_wire', 'spec': {'entry': 'taskmeta', 'tokens': concretize(joined, m).split(' ')}})
        # deleting / duplicating one token never yields a different valid descriptor
        k = e.choose(len(ts), 'deleted-token')
        mut = [t for i, t in enumerate(ts) if i != k]
        back3 = e.run_func(e.find_fn('MigrationTaskMeta', 'from_strings'), [peek([RStr(x.s) for x in mut])])
        if back3.variant == 1:
            ctx.require_all(e, [('deleted-token-not-accepted-as-other-value', 'C17/corrupted-task-meta-accepted/deleted-' + token_kind(ts[k]) + '@%d' % k, veq(back3.f[0].v, torig),
                                 lambda m: {'tokens': [concretize(t, m) for t in mut], 'deleted_index': k, 'decoded': repr(concretize(back3, m))[:300]})],
                            replay=lambda m: {'kind': 'rust-test', 'filter': 'verif_replay_wire', 'spec': {'entry': 'corrupt-task', 'tokens': [concretize(t, m) for t in mut], 'original': [concretize(t, m) for t in ts]}})
        return 3
    res = ctx.explore('slot range tag=%s ranges=%d' % (job['tag'], job['n']), run)
    ctx.ops += sum(p.value or 0 for p in res if p.kind == 'ok')


def cluster_meta_rt(ctx, job):
    def run(e):
        b = Broker(e)
        def nodemap(spec, tag):
            m = RMap('HashMap')
            for i, (addr, ranges) in enumerate(spec):
                m.items.append((RStr(addr), Cell(RVec([Cell(srange(e, b, tk, n, '%s%d_%d' % (tag, i, j))) for j, (tk, n) in enumerate(ranges)]))))
            return m
        local = nodemap(job['local'], 'l'); peer = nodemap(job['peer'], 'p')
        epoch = z3.BitVec('epoch', 64)
        flags = Struct('ClusterMapFlags', [bool(job.get('force')), False])
        cfg = e.default_value('ClusterConfig')
        if job.get('config'):
            r = e.run_func(e.find_fn('ClusterConfig', 'set_field'), [Ref(Cell(cfg)), RStr(job['config'][0]), RStr(job['config'][1])]); assert r.variant == 0, r
        meta = e.run_func(e.find_fn('ProxyClusterMeta', 'new'), [epoch, flags, b.cname('mydb'), local, peer, cfg])
        orig = clone(meta)
        args = strs(e.run_func(e.find_fn('ProxyClusterMeta', 'to_args'), [Ref(Cell(meta))]))
        def wit(m): return {'args': [concretize(t, m) for t in args]}
        rp = lambda m: {'kind': 'rust-test', 'filter': 'verif_replay_wire', 'spec': {'entry': 'setcluster-roundtrip', 'tokens': [concretize(t, m) for t in args]}}
        back = e.run_func(e.find_fn('ProxyClusterMeta', 'parse'), [peek([RStr(x.s) for x in args])])
        items = [('decodes', 'C17/cluster-meta-rejected', back.variant == 0, wit)]
        if back.variant == 0:
            got = back.f[0].v.f[0].v
            same = zand([veq(got.f[i].v, orig.f[i].v) for i in range(len(orig.f))])
            items.append(('round-trip-equal', 'C17/cluster-meta-differs', same, lambda m: dict(wit(m), decoded=repr(concretize(got, m))[:400])))
            items.append(('extended-meta-ok', 'C17/cluster-meta-config-lost', back.f[0].v.f[1].v.variant == 0, wit))
        ctx.require_all(e, items, replay=rp)
        if job.get('corrupt'):
            k = e.choose(len(args), 'deleted-token')
            mut = [RStr(t.s) for i, t in enumerate(args) if i != k]
            b3 = e.run_func(e.find_fn('ProxyClusterMeta', 'parse'), [peek(mut)])
            if b3.variant == 0:
                got = b3.f[0].v.f[0].v
                same = zand([veq(got.f[i].v, orig.f[i].v) for i in range(len(orig.f))])
                # deleting a whole trailing group (shorter valid message) cannot happen by one token; anything accepted must be equal
                in_config = any(sval(t) == 'CONFIG' for t in args[:k] if isinstance(t.s, str))
                ctx.require_all(e, [('deleted-token-not-accepted-as-other-value', 'C17/corrupted-cluster-meta-accepted/' + ('config-section/' if in_config else '') + 'deleted-' + token_kind(args[k]), same,
                                     lambda m: {'tokens': [concretize(t, m) for t in mut], 'deleted_index': k, 'original': [concretize(t, m) for t in args]})],
                                replay=lambda m: {'kind': 'rust-test', 'filter': 'verif_replay_wire', 'spec': {'entry': 'corrupt-cluster', 'tokens': [concretize(t, m) for t in mut], 'original': [concretize(t, m) for t in args]}})
        return 2
    res = ctx.explore('cluster meta local=%s peer=%s cfg=%s' % (job['local'], job['peer'], job.get('config')), run)
    ctx.ops += sum(p.value or 0 for p in res if p.kind == 'ok')


def repl_meta_rt(ctx, job):
    def run(e):
        b = Broker(e); h = RespH(e)
        def peers(n, tag): return RVec([Cell(Struct('ReplPeer', [RStr('%s-node%d:6000' % (tag, i)), RStr('%s-proxy%d:7000' % (tag, i))])) for i in range(n)])
        masters = RVec([Cell(Struct('MasterMeta', [b.cname('db%d' % i), RStr('m%d:6000' % i), peers(n, 'mr%d' % i)])) for i, n in enumerate(job['masters'])])
        replicas = RVec([Cell(Struct('ReplicaMeta', [b.cname('db%d' % i), RStr('r%d:6000' % i), peers(n, 'rm%d' % i)])) for i, n in enumerate(job['replicas'])])
        epoch = z3.BitVec('epoch', 64)
        meta = Struct('ReplicatorMeta', [epoch, Struct('ClusterMapFlags', [bool(job.get('force')), False]), masters, replicas])
        orig = clone(meta)
        args = strs(e.call('replicator::encode_repl_meta', [meta]))
        vi = lambda en, n: e.src.variant_index(en, n)
        def bulk(t):
            bs = e.call('String::into_bytes', [RStr(t.s)])
            return Enum('Resp', vi('Resp', 'Bulk'), [Enum('BulkStr', vi('BulkStr', 'Str'), [bs])])
        arr = [bulk(RStr('UMCTL')), bulk(RStr('SETREPL'))] + [bulk(t) for t in args]
        resp = Enum('Resp', vi('Resp', 'Arr'), [Enum('Array', vi('Array', 'Arr'), [RVec([Cell(x) for x in arr])])])
        back = e.call('replicator::parse_repl_meta', [Ref(Cell(resp))])
        def wit(m): return {'args': [concretize(t, m) for t in args]}
        rp = lambda m: {'kind': 'rust-test', 'filter': 'verif_replay_repl', 'spec': {'tokens': [concretize(t, m) for t in args]}}
        items = [('decodes', 'C17/repl-meta-rejected', back.variant == 0, wit)]
        if back.variant == 0: items.append(('round-trip-equal', 'C17/repl-meta-differs', veq(back.f[0].v, orig), lambda m: dict(wit(m), decoded=repr(concretize(back, m))[:400])))
        ctx.require_all(e, items, replay=rp)
        if job.get('corrupt') and len(args) > 0:
            # one token deleted at any position (the last position = a truncated message)
            k = e.choose(len(args), 'deleted-token')
            mut = [t for i, t in enumerate(args) if i != k]
            arr2 = [bulk(RStr('UMCTL')), bulk(RStr('SETREPL'))] + [bulk(t) for t in mut]
            resp2 = Enum('Resp', vi('Resp', 'Arr'), [Enum('Array', vi('Array', 'Arr'), [RVec([Cell(x) for x in arr2])])])
            b2 = e.call('replicator::parse_repl_meta', [Ref(Cell(resp2))])
            if b2.variant == 0:
                ctx.require_all(e, [('deleted-token-not-accepted-as-other-value', 'C17/corrupted-repl-meta-accepted/deleted-' + token_kind(args[k]) + ('-last' if k == len(args) - 1 else ''), veq(b2.f[0].v, orig),
                                     lambda m: {'tokens': [concretize(t, m) for t in mut], 'deleted_index': k, 'original': [concretize(t, m) for t in args]})],
                                replay=lambda m: {'kind': 'rust-test', 'filter': 'verif_replay_repl', 'spec': {'tokens': [concretize(t, m) for t in mut], 'original': [concretize(t, m) for t in args], 'corrupt': True}})
        return 1
    res = ctx.explore('repl meta masters=%s replicas=%s' % (job['masters'], job['replicas']), run)
    ctx.ops += sum(p.value or 0 for p in res if p.kind == 'ok')


def commit_by_descriptor(ctx, job):
    """the descriptor reported for a migration (Migrating or Importing tag, after the INFOMGR string journey) is accepted
    by the broker as naming that migration"""
    def run(e):
        b = Broker(e); b.new_store(); b.add_proxies([2, 2])
        r = b.add_cluster(4); assert r.variant == 0
        b.symbolise_epochs(); b.symbolise_stable([0, 1, 0] if job.get('multi') else [0, 1])
        b.call('auto_add_nodes', RStr('c1'), 4); b.call('migrate_slots', RStr('c1'))
        c = b.view_cluster(0)
        descs = []
        for n in b.fld(c, 'Cluster', 'nodes').v.cells:
            for s in b.fld(n.v, 'Node', 'slots').v.cells:
                tag = b.fld(s.v, 'SlotRange', 'tag').v
                if b.src.enums['SlotRangeTag'][tag.variant] == job['tag']: descs.append(clone(s.v))
        sr = descs[e.choose(len(descs), 'which')]
        task = Struct('MigrationTaskMeta', [b.cname('c1'), sr])
        ts = strs(e.run_func(e.find_fn('MigrationTaskMeta', 'into_strings'), [task]))
        joined = mkstr([p for i, t in enumerate(ts) for p in (([' '] if i else []) + list(str_parts(t)))])
        pieces = list(e.call('core::str::<impl str>::split::<char>', [joined, 32]))
        back = e.run_func(e.find_fn('MigrationTaskMeta', 'from_strings'), [peek([RStr(x.s) for x in pieces])])
        items = [('descriptor-decodes', 'C17/reported-descriptor-rejected', back.variant == 1, lambda m: {'line': concretize(joined, m)})]
        if back.variant == 1:
            rr = b.call('commit_migration', back.f[0].v, False)
            items.append(('broker-accepts-reported-descriptor', 'C17/broker-refuses-reported-descriptor', rr.variant == 0, lambda m: {'line': concretize(joined, m), 'result': repr(rr)[:100]}))
        ctx.require_all(e, items)
        return 2
    res = ctx.explore('commit by %s descriptor multi=%s' % (job['tag'], job.get('multi')), run)
    ctx.ops += sum(p.value or 0 for p in res if p.kind == 'ok')


def worker(ctx, job):
    {'sr': slot_range_rt, 'cm': cluster_meta_rt, 'rm': repl_meta_rt, 'cd': commit_by_descriptor}[job['kind']](ctx, job)


def run(ctx):
    quick = ctx.tier == 'quick'
    jobs = []
    for tag in ('None', 'Migrating', 'Importing'):
        for n in ((0, 1, 2, 3) if not quick else (0, 1, 3)):
            jobs.append({'kind': 'sr', 'tag': tag, 'n': n})
    N, M, I = ('None', 1), ('Migrating', 1), ('Importing', 2)
    jobs += [{'kind': 'cm', 'local': [('127.0.0.1:6000', [N])], 'peer': [], 'corrupt': True},
             {'kind': 'cm', 'local': [('127.0.0.1:6000', [N, M])], 'peer': [('127.0.0.2:7000', [('None', 2)])], 'corrupt': True, 'force': True},
             {'kind': 'cm', 'local': [('127.0.0.1:6000', [I]), ('127.0.0.1:6001', [('None', 3)])], 'peer': [('127.0.0.2:7000', [N]), ('127.0.0.3:7000', [M])], 'config': ('compression_strategy', 'allow_all'), 'corrupt': not quick},
             {'kind': 'cm', 'local': [], 'peer': [], 'config': ('migration_max_migration_time', '77') if False else ('compression_strategy', 'set_get_only')}]
    jobs += [{'kind': 'rm', 'masters': [1], 'replicas': [], 'corrupt': True}, {'kind': 'rm', 'masters': [2, 0], 'replicas': [1], 'force': True, 'corrupt': True}, {'kind': 'rm', 'masters': [], 'replicas': [2, 3], 'corrupt': not quick}, {'kind': 'rm', 'masters': [], 'replicas': []}]
    jobs += [{'kind': 'cd', 'tag': 'Migrating'}, {'kind': 'cd', 'tag': 'Importing'}, {'kind': 'cd', 'tag': 'Importing', 'multi': True}]
    ctx.bounds = {'ranges per list': '0..3 (symbolic ends)', 'nodes': '<= 2 local x <= 2 slot ranges, <= 2 peers', 'repl peers': '0..3', 'epochs': 'symbolic full u64', 'corruption': 'deletion of one token at every position'}
    ctx.assumptions += ['addresses and cluster names are concrete ASCII', 'HashMap iteration order is insertion order in to_args (the decoded map is compared as a map)']
    ctx.not_explored += ['the compressed form (flate2 + base64 + serde_json: data-dependent loops per byte, not encodable by this engine)', 'non-ASCII addresses', 'token corruption other than deletion']
    ctx.run_parallel(jobs, worker)
