"""C04 - metadata epochs version every change and never regress.
Every mutator of the broker API is run from symbolic states (global epoch, cluster epochs, tile boundaries symbolic);
for every registered proxy address and migration limit the served view before and after the call are compared."""
from props.scenarios import *


def worker(ctx, job):
    if job['kind'] == 'scale': scale_scenario(ctx, job, ('epoch',))
    else: admin_scenario(ctx, job, ('epoch',))


def run(ctx):
    quick = ctx.tier == 'quick'
    jobs = []
    for j in scale_jobs(ctx, quick_pairs=((1, 2), (2, 1))):
        if quick and (j['shape'] != list(range(2 * j['from'])) ): continue
        j['kind'] = 'scale'; jobs.append(j)
    limits = (0, 1) if quick else (0, 1, 2)
    if quick:
        jobs.append({'kind': 'admin', 'depth': 1, 'second': True, 'limits': limits})
        for first in (['auto_add_nodes'], ['replace_failed_proxy(member0)'], ['remove_cluster(c2)'], ['add_failure(free)']):
            jobs.append({'kind': 'admin', 'depth': 2, 'second': True, 'limits': limits, 'first': first})
        # two chunks with every combination of role positions (states after earlier failovers): one operation
        jobs.append({'kind': 'admin', 'depth': 1, 'second': False, 'limits': limits, 'chunks': 2, 'layout': [4, 4], 'roles': True,
                     'first': ['balance_masters', 'change_config', 'replace_failed_proxy(member0)', 'replace_failed_proxy(member1)', 'auto_delete_free_nodes']})
    else:
        menu_names = ['add_proxy(new)', 'add_proxy(existing free)', 'add_proxy(existing member)', 'remove_proxy(free)', 'remove_proxy(member)',
                      'add_failure(free)', 'add_failure(member)', 'replace_failed_proxy(member0)', 'replace_failed_proxy(member1)',
                      'replace_failed_proxy(free)', 'balance_masters', 'change_config', 'change_config(noop value)', 'change_config(valid key then rejected key)',
                      'change_config(rejected key then valid key)', 'change_config(unknown key)', 'auto_add_nodes', 'auto_scale_up_nodes',
                      'auto_delete_free_nodes', 'migrate_slots', 'auto_scale_out_node_number', 'auto_change_node_number(8)', 'remove_cluster(c2)',
                      'remove_cluster(c1)', 'add_cluster(c3)', 'force_bump_all_epoch', 'recover_epoch', 'commit_migration(bogus)']
        for first in menu_names:
            for second in (True, False):
                jobs.append({'kind': 'admin', 'depth': 3 if first in ('auto_add_nodes', 'replace_failed_proxy(member0)') else 2, 'second': second, 'limits': limits, 'first': [first], 'roles': second})
        for first in ('balance_masters', 'change_config', 'replace_failed_proxy(member0)', 'replace_failed_proxy(member1)', 'auto_delete_free_nodes', 'migrate_slots', 'add_failure(member)'):
            jobs.append({'kind': 'admin', 'depth': 2, 'second': False, 'limits': limits, 'chunks': 2, 'layout': [4, 4], 'roles': True, 'first': [first]})
    ctx.bounds = {'slot_num': SLOT_NUM, 'jobs': len(jobs), 'migration_limits': list(limits), 'history_depth': '<= 2 admin operations after set-up (quick) / <= 3 (thorough); resize histories of C01',
                  'symbolic': 'global epoch, cluster epochs, tile boundaries, force/recover epoch arguments', 'enumerated': 'operation choice, shapes'}
    ctx.assumptions += ['global epoch < 2^63 (wrap of global_epoch + 1 is outside the claim)', 'cluster.epoch <= global_epoch in the pre-state']
    ctx.not_explored += ['histories longer than the bound', 'external-storage broker', 'HTTP layer']
    ctx.run_parallel(jobs, worker)
