"""C07 - control plane converges despite message faults and coordinator crashes (decided in part).
Three per-message / per-round ingredients are executed from their MIR against real counterparts:
  (A) the coordinator's real ProxyMetaRespSender::send_meta_impl (SETREPL then SETCLUSTER, plain encoding) talks to a
      real proxy control path (ForwardHandler::handle_cmd_ctx -> handle_umctl -> MetaManager::set_meta /
      ReplicatorManager::update_replicators) through a transport stand-in that drops requests, loses replies,
      aborts the round between the two calls (= coordinator crash) and delivers stale rounds late; views come from the
      real broker (get_proxy_by_address) whose epochs are symbolic and move forward between rounds.
      Safety: neither installed epoch ever decreases.  Convergence: after the faults stop, three clean rounds leave the
      proxy with the broker's current epoch for routing and for replication, and with the broker's slot ranges.
  (B) ParMigrationStateSynchronizer::sync_migration_state with the real broker behind the committer / retriever
      stand-ins and a fault at every call boundary: commit first, destination before source, nothing is sent when the
      commit fails, the source is not updated when the destination update failed.
  (C) the broker accepts a commit only for a live migration with the same range list AND epoch: a delayed duplicate
      with another epoch is refused and changes nothing, a second commit of the same task is refused."""
import z3
from mirsym.values import *
from props.scenarios import *
from props import executor as X
from props.C05 import new_manager, installed


# ---------------------------------------------------------------- (A)
class ReadyFuture(PyObj):
    def __init__(self, v): self.v = v
    def m_poll(self, e, *a): return Enum('Poll', 0, [self.v])


class Transport(PyObj):
    """RedisClient stand-in: hands UMCTL commands to the real proxy control path, subject to the fault of this round"""
    def __init__(self, proxy): self.proxy = proxy; self.fault = None; self.calls = []; self.n = 0
    def m_execute_single(self, e, s, cmd):
        self.n += 1
        elems = [c.v for c in deref_vec(cmd).cells]
        name = ''.join(chr(x.v) for x in deref_vec(elems[1]).cells) if deref_vec(elems[1]).text is None else sval(deref_vec(elems[1]).text)
        self.calls.append(name)
        f = self.fault
        err = lambda: ReadyFuture(Err(Enum('RedisClientError', 0, [Opaque('io::Error', 'transport')])))
        if f == ('drop', self.n) or (f is not None and f[0] == 'crash-before' and self.n >= f[1]): return err()
        reply = self.proxy.execute(e, elems)
        if f == ('dup', self.n): reply = self.proxy.execute(e, elems)
        if f == ('reply-lost', self.n): return err()
        return ReadyFuture(Ok(reply))
    def m_quit(self, e, s): return ReadyFuture(Ok(mk_unit()))


class ClientFactory(PyObj):
    def __init__(self, transport): self.transport = transport
    def m_create_client(self, e, s, addr): return ReadyFuture(Ok(self.transport))


class RealProxy:
    """a proxy's control path: real ForwardHandler::handle_cmd_ctx with a real MetaManager behind it"""
    def __init__(self, e, host):
        self.e = e
        self.mgr = new_manager(e, announce_host=host)
        fields = e.src.structs['ServerProxyConfig']
        cfg = Struct('ServerProxyConfig', [Opaque('cfg:' + f) for f in fields])
        cfg.f[fields.index('active_redirection')].v = False
        cfg.f[fields.index('password')].v = NONE()
        hf = e.src.structs['ForwardHandler']
        vals = {'config': Ref(Cell(cfg), 'Arc'), 'manager': self.mgr}
        self.handler = Struct('ForwardHandler', [vals.get(f, Opaque('handler:' + f)) for f in hf])

    def execute(self, e, elems):
        """elems: Vec<u8> values (possibly text-backed) -> reply as RespVec"""
        vi = e.src.variant_index
        arr = [Enum('Resp', vi('Resp', 'Bulk'), [Enum('BulkStr', vi('BulkStr', 'Str'), [el])]) for el in elems]
        pkt = X.data_packet(e, X.array(e, arr))
        cmd = e.run_func(e.find_fn('Command', 'new'), [Ref(Cell(pkt), 'Box')])
        pair = e.call('command::new_command_pair', [Ref(Cell(cmd))])
        ctxv = e.run_func(e.find_fn('CmdCtx', 'new'), [cmd, pair.f[0].v, 1, False])
        auth = Struct('Atomic', [True])
        fut = e.run_func(e.find_fn('ForwardHandler', 'handle_cmd_ctx', 'CmdCtxHandler'), [Ref(Cell(self.handler)), ctxv, pair.f[1].v, Ref(Cell(auth))])
        r = un(e.block_on(Ref(Cell(fut))))
        if r.variant != 0: raise Unmodelled('control command not answered')
        return e.run_func(e.find_fn('TaskReply', 'into_resp_vec'), [un(r.f[0].v)])

    def epochs(self):
        e = self.e; src = e.src
        ep, mapep, ranges = installed(e, self.mgr)
        rm = un(self.mgr.f[src.field_index('MetaManager', 'replicator_manager')].v)
        repl = un(un(rm.f[src.field_index('ReplicatorManager', 'replicators')].v).f[0].v).f[0].v
        return ep, mapep, ranges, repl


def send_round(e, sender, view):
    fut = e.run_func(e.find_fn('ProxyMetaRespSender', 'send_meta_impl'), [Ref(Cell(sender)), clone(view)])
    return un(e.block_on(Ref(Cell(fut))))


FAULTS = [None, ('drop', 1), ('drop', 2), ('reply-lost', 1), ('reply-lost', 2), ('dup', 1), ('dup', 2)]


def sync_under_faults(ctx, job):
    steps = job['steps']
    def run(e):
        b = Broker(e); b.new_store()
        b.add_proxies([2, 2])
        r = b.add_cluster(4); assert r.variant == 0
        b.symbolise_epochs()
        addr = cluster_proxies(b)[job.get('which', 0)]
        proxy = RealProxy(e, addr.split(':')[0])
        tr = Transport(proxy)
        sender = Struct('ProxyMetaRespSender', [Ref(Cell(ClientFactory(tr)), 'Arc'), False])
        hist = []; items = []
        old_views = []
        prev = (0, 0)
        steps_log = []          # (view value, fault) of every delivered round, for the native replay
        prefix = list(job.get('prefix', []))
        def choose(n, label):
            # the first decisions may be fixed by the job (the scenario is split over worker processes)
            return prefix.pop(0) if prefix else e.choose(n, label)
        def record(label):
            ep, mapep, ranges, repl = proxy.epochs()
            hist.append(label)
            def wit(m, hist=list(hist), ep=ep, repl=repl): return {'proxy': addr, 'history': hist, 'cluster_epoch': concretize(ep, m), 'repl_epoch': concretize(repl, m), 'calls': list(tr.calls)}
            items.append(('installed-epochs-never-decrease', 'C07/proxy-metadata-replaced-by-older', zand([z3.UGE(bv(ep), bv(prev[0])), z3.UGE(bv(repl), bv(prev[1]))]), wit))
            return ep, repl
        for k in range(steps):
            kind = choose(3 if old_views else 2, 'step')        # 0 broker moves on, 1 coordinator round with a fault, 2 a stale round arrives late
            if kind == 0:
                g = b.fld(b.mstore(), 'MetaStore', 'global_epoch').v
                ne = z3.BitVec('bump%d' % k, 64); e.assume(zand([z3.UGT(ne, bv(g)), z3.ULT(ne, 1 << 62)]))
                r = b.call('force_bump_all_epoch', ne); assert r.variant == 0
                hist.append('broker epoch moves on')
                continue
            if kind == 1:
                f = FAULTS[choose(len(FAULTS), 'fault')]
                view = b.view_proxy(addr, 0); old_views.append(clone(view))
                tr.fault = f; tr.n = 0
                steps_log.append((clone(view), f))
                send_round(e, sender, view)
                prev = record('round with fault %s' % (f,))
            else:
                view = old_views[choose(len(old_views), 'which-stale')]
                tr.fault = None; tr.n = 0
                steps_log.append((clone(view), None))
                send_round(e, sender, view)
                prev = record('stale round delivered late')
        # faults stop: three clean rounds with the broker's current view
        view = b.view_proxy(addr, 0)
        want = b.fld(view, 'Proxy', 'epoch').v
        for k in range(3):
            tr.fault = None; tr.n = 0
            rr = send_round(e, sender, view)
            prev = record('clean round %d' % (k + 1))
        ep, mapep, ranges, repl = proxy.epochs()
        def wit(m): return {'proxy': addr, 'history': hist, 'broker_epoch': concretize(want, m), 'cluster_epoch': concretize(ep, m), 'routing_epoch': concretize(mapep, m), 'repl_epoch': concretize(repl, m), 'calls': list(tr.calls)}
        items.append(('routing-metadata-converges', 'C07/proxy-routing-metadata-does-not-converge', zand([bv(ep) == bv(want), bv(mapep) == bv(want)]), wit))
        items.append(('replication-metadata-converges', 'C07/proxy-replication-metadata-does-not-converge', bv(repl) == bv(want), wit))
        # the installed local ranges are the broker's (master nodes of this proxy)
        from props.broker import to_serde
        def rp(m):
            return {'kind': 'rust-test', 'filter': 'verif_replay_sync_rounds',
                    'spec': {'host': addr.split(':')[0], 'clean_rounds': 3, 'final_view': to_serde(e.src, view, m),
                             'steps': [{'view': to_serde(e.src, v, m), 'fault': list(f) if f else None} for v, f in steps_log]}}
        ctx.require_all(e, items, replay=rp)
        return steps + 3
    res = ctx.explore('send_meta rounds under faults, %d steps, proxy #%d, first decisions %s' % (steps, job.get('which', 0), job.get('prefix')), run, max_paths=100000)
    ctx.ops += sum(p.value or 0 for p in res if p.kind == 'ok')


# ---------------------------------------------------------------- (B)
class Committer(PyObj):
    def __init__(self, b, log, fail): self.b = b; self.log = log; self.fail = fail
    def m_commit(self, e, s, meta):
        self.log.append(('commit', None))
        if self.fail == 'commit-transport': return ReadyFuture(Err(Enum('CoordinateError', e.src.variant_index('CoordinateError', 'InvalidReply'))))
        r = self.b.call('commit_migration', meta, False)
        self.log[-1] = ('commit', r.variant == 0)
        if r.variant != 0: return ReadyFuture(Err(Enum('CoordinateError', e.src.variant_index('CoordinateError', 'InvalidReply'))))
        return ReadyFuture(Ok(mk_unit()))


class Retriever(PyObj):
    def __init__(self, b): self.b = b
    def m_get_proxy_meta(self, e, s, addr):
        v = self.b.view_proxy(sval(addr), 0)
        return ReadyFuture(Ok(Some(v) if v is not None else NONE()))


class Sender(PyObj):
    def __init__(self, log, fail): self.log = log; self.fail = fail
    def m_send_meta(self, e, s, proxy):
        a = sval(un(proxy).f[e.src.structs['Proxy'].index('address')].v)
        self.log.append(('send', a))
        if self.fail == ('send', len([x for x in self.log if x[0] == 'send'])):
            return ReadyFuture(Err(Enum('CoordinateError', e.src.variant_index('CoordinateError', 'InvalidReply'))))
        return ReadyFuture(Ok(mk_unit()))


def migration_commit_order(ctx, job):
    def run(e):
        b = Broker(e); b.new_store()
        b.add_proxies([2, 2])
        r = b.add_cluster(4); assert r.variant == 0
        b.symbolise_epochs()
        r = b.call('auto_add_nodes', RStr('c1'), 4); assert r.variant == 0
        r = b.call('migrate_slots', RStr('c1')); assert r.variant == 0
        tasks = b.migration_tasks()
        t = tasks[e.choose(len(tasks), 'task')]
        fail = job['fail']
        log = []
        meta = un(t)
        tag = un(meta.f[e.src.structs['MigrationTaskMeta'].index('slot_range')].v).f[1].v
        mm = un(tag.f[0].v)
        names = e.src.structs['MigrationMeta']
        src_addr = sval(mm.f[names.index('src_proxy_address')].v); dst_addr = sval(mm.f[names.index('dst_proxy_address')].v)
        if job.get('twice'):
            r0 = b.call('commit_migration', clone(t), False); assert r0.variant == 0
        e.generic_env.update({'MC': 'Committer', 'MR': 'Retriever', 'S': 'Sender'})
        f = e.find_fn('ParMigrationStateSynchronizer', 'sync_migration_state')
        fut = e.run_func(f, [Ref(Cell(Committer(b, log, fail))), Ref(Cell(Retriever(b))), Ref(Cell(Sender(log, fail))), clone(t)])
        res = un(e.block_on(Ref(Cell(fut))))
        def wit(m=None): return {'fail': fail, 'twice': job.get('twice'), 'log': log, 'src': src_addr, 'dst': dst_addr, 'result': 'ok' if res.variant == 0 else 'err'}
        sends = [x[1] for x in log if x[0] == 'send']
        commits = [x for x in log if x[0] == 'commit']
        items = [('commit-exactly-once-and-first', 'C07/commit-not-first-or-repeated', len(commits) == 1 and log[0][0] == 'commit', wit)]
        committed = commits and commits[0][1] is True
        if not committed:
            items.append(('nothing-sent-after-failed-commit', 'C07/metadata-sent-although-commit-failed', sends == [], wit))
        else:
            items.append(('destination-updated-before-source', 'C07/source-updated-before-destination', sends[:1] == [dst_addr] and (len(sends) < 2 or sends[1] == src_addr) and len(sends) <= 2, wit))
            if fail == ('send', 1):
                items.append(('source-not-updated-when-destination-failed', 'C07/source-updated-although-destination-failed', sends == [dst_addr] and res.variant == 1, wit))
            elif fail is None:
                items.append(('both-updated', 'C07/participant-not-updated-after-commit', sends == [dst_addr, src_addr] and res.variant == 0, wit))
        ctx.require_all(e, items)
        return 1
    res = ctx.explore('sync_migration_state fail=%s twice=%s' % (job['fail'], job.get('twice')), run)
    ctx.ops += len(res)


# ---------------------------------------------------------------- (C)
def stale_commit(ctx, job):
    """scale out, then commits arrive: a duplicate carrying another epoch is refused without any change; the real one
    is accepted once; its repetition is refused"""
    def run(e):
        b = Broker(e); b.new_store()
        n = job['chunks']
        b.add_proxies([n + 1, n + 1])
        r = b.add_cluster(4 * n); assert r.variant == 0
        b.symbolise_epochs()
        r = b.call('auto_add_nodes', RStr('c1'), 4); assert r.variant == 0
        r = b.call('migrate_slots', RStr('c1')); assert r.variant == 0
        tasks = b.migration_tasks()
        t = tasks[e.choose(len(tasks), 'task')]
        names = e.src.structs['MigrationMeta']
        def with_epoch(t, ep):
            t2 = clone(t)
            tag = un(un(t2).f[e.src.structs['MigrationTaskMeta'].index('slot_range')].v).f[1].v
            un(tag.f[0].v).f[names.index('epoch')].v = ep
            return t2
        tag = un(un(t).f[e.src.structs['MigrationTaskMeta'].index('slot_range')].v).f[1].v
        real_ep = un(tag.f[0].v).f[names.index('epoch')].v
        stale = z3.BitVec('stale_epoch', 64); e.assume(stale != bv(real_ep))
        b.mark_initial()
        before = clone(b.mstore())
        view_before = b.view_cluster(0)
        r1 = b.call('commit_migration', with_epoch(t, stale), False)
        same = veq(b.view_cluster(0), view_before)
        g0 = b.fld(before, 'MetaStore', 'global_epoch').v; g1 = b.fld(b.mstore(), 'MetaStore', 'global_epoch').v
        def wit(m): return {'task_epoch': concretize(real_ep, m), 'stale_epoch': concretize(stale, m), 'result_of_stale_commit': 'accepted' if r1.variant == 0 else 'refused'}
        items = [('commit-with-other-epoch-refused', 'C07/stale-commit-accepted', r1.variant == 1, wit)]
        if r1.variant == 1:
            items.append(('refused-commit-changes-nothing', 'C07/refused-commit-changed-state', zand([same, bv(g0) == bv(g1)]), wit))
        r2 = b.call('commit_migration', clone(t), False)
        items.append(('live-migration-commits-once', 'C07/live-migration-commit-refused', r2.variant == 0, wit))
        r3 = b.call('commit_migration', clone(t), False)
        items.append(('second-commit-refused', 'C07/second-commit-accepted', r3.variant == 1, wit))
        def rp(m):
            sp = b.replay_spec(m, ['unchanged-on-error', 'partition'], [0])
            exps = [('Err', 'C07/stale-commit-accepted'), ('Ok', 'C07/live-migration-commit-refused'), ('Err', 'C07/second-commit-accepted')]
            for op, (ex, key) in zip(sp['spec']['ops'], exps): op['expect'] = ex; op['violation_key'] = key
            return sp
        ctx.require_all(e, items, replay=rp)
        return 3
    res = ctx.explore('stale / duplicate commit, %d chunk(s)' % job['chunks'], run)
    ctx.ops += sum(p.value or 0 for p in res if p.kind == 'ok')


def worker(ctx, job):
    {'sync': sync_under_faults, 'order': migration_commit_order, 'stale': stale_commit}[job['kind']](ctx, job)


def run(ctx):
    quick = ctx.tier == 'quick'
    jobs = []
    for which in ((0,) if quick else (0, 1)):
        jobs.append({'kind': 'sync', 'steps': 2 if quick else 3, 'which': which, 'prefix': [0]})
        for fi in range(len(FAULTS)):
            jobs.append({'kind': 'sync', 'steps': 2 if quick else 3, 'which': which, 'prefix': [1, fi]})
    for fail in (None, 'commit-transport', ('send', 1), ('send', 2)):
        jobs.append({'kind': 'order', 'fail': fail})
    jobs.append({'kind': 'order', 'fail': None, 'twice': True})
    jobs.append({'kind': 'stale', 'chunks': 1})
    if not quick: jobs.append({'kind': 'stale', 'chunks': 2})
    ctx.bounds = {'sync rounds': 'histories of %d steps (broker epoch moves on | coordinator round with one of %d transport faults | stale round delivered late) + 3 clean rounds; one proxy; broker epochs symbolic' % (2 if quick else 3, len(FAULTS)),
                  'faults': [str(f) for f in FAULTS], 'commit ordering': 'fault at every call boundary of sync_migration_state; duplicate run', 'stale commit': 'symbolic other epoch'}
    ctx.assumptions += ['transport faults are per call: request dropped, reply lost after the proxy applied it, request applied twice; a coordinator crash between the two calls of a round equals dropping the second call',
                        'stand-ins: RedisClient / RedisClientFactory (transport), MigrationCommitter / ProxyMetaRetriever / ProxyMetaSender around the real broker; MigrationManager and replicator futures stubs of C05',
                        'plain (uncompressed) metadata encoding']
    ctx.not_explored += ['whole-system runs with several proxies and coordinators, HTTP broker, timers and streams (chunks_timeout, join_all) of the coordinator loops',
                         'failure detection and proxy replacement flows (detector.rs, recover.rs)', 'proxy restart with empty state', 'the compressed encoding',
                         'bounded number of rounds for convergence beyond "three clean rounds suffice for one proxy"']
    ctx.run_parallel(jobs, worker)
