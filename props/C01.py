"""C01 - every slot has exactly one owner in every broker view.
Bounded operation histories of the real MetaStore API from *symbolic balanced states*: the tile boundaries of the
slot partition, all epochs and the probe slot are solver variables; shapes (tile ownership sequence, commit order,
failover point) are enumerated by forking.  After every operation every served view is checked."""
import itertools, z3
from mirsym.values import *
from props.broker import *


def owner_shapes(halves, max_tiles_per_half):
    """alternating owner sequences over `halves` halves, each half owning 1..max tiles"""
    out = []
    def rec(seq, counts):
        if all(c >= 1 for c in counts): out.append(list(seq))
        for h in range(halves):
            if seq and seq[-1] == h: continue
            if counts[h] >= max_tiles_per_half: continue
            counts[h] += 1; seq.append(h); rec(seq, counts); seq.pop(); counts[h] -= 1
    rec([], [0] * halves)
    return out


def scenario_scale(ctx, job):
    chunks_from, chunks_to, shape, limits, with_failover = job['from'], job['to'], job['shape'], job['limits'], job['failover']
    def run(e):
        b = Broker(e); b.new_store()
        need = max(chunks_from, chunks_to) * 2 + (1 if with_failover == 'spare' else 0)
        per_host = (need + 1) // 2
        b.add_proxies([per_host, need - per_host])
        r = b.add_cluster(4 * chunks_from); assert r.variant == 0, r
        b.symbolise_epochs()
        b.symbolise_stable(shape)
        b.symbolise_roles() if job.get('roles') else None
        ops = 0
        check_views(b, ctx, e, limits, 'initial')
        if chunks_to > chunks_from:
            r = b.op('auto_add_nodes', RStr('c1'), 4 * (chunks_to - chunks_from)); ops += 1
            assert r.variant == 0, r
            check_views(b, ctx, e, limits, 'auto_add_nodes')
            r = b.op('migrate_slots', RStr('c1')); ops += 1
            assert r.variant == 0, r
        else:
            r = b.op('migrate_slots_to_scale_down', RStr('c1'), 4 * chunks_to); ops += 1
            assert r.variant == 0, r
        check_views(b, ctx, e, limits, 'start-migration')
        tasks = b.migration_tasks()
        order = perms(len(tasks))[e.choose(len(perms(len(tasks))), 'commit-order')] if len(tasks) <= 3 else list(range(len(tasks)))
        fail_at = None
        if with_failover:
            fail_at = e.choose(len(tasks) + 1, 'failover-point')
            addrs = [a for ch in b.chunks() for a in [sval(x.v) for x in b.fld(ch, 'ChunkStore', 'proxy_addresses').v.f]]
            victim = addrs[e.choose(len(addrs), 'victim')]
        for k, ti in enumerate(order):
            if fail_at == k:
                b.op('replace_failed_proxy', RStr(victim), limits[-1]); ops += 1
                check_views(b, ctx, e, limits, 'failover(%s)' % victim)
                tasks = None
            if tasks is None:
                # migration metas were re-issued: a coordinator reads the tasks again
                tasks2 = b.migration_tasks()
                if not tasks2: break
                t = tasks2[0]
            else: t = tasks[ti]
            r = b.op('commit_migration', t, bool(job.get('clear'))); ops += 1
            if ctx.fresh_point(e): ctx.require(e, 'commit-accepted', r.variant == 0, key='C01/commit-rejected')
            check_views(b, ctx, e, limits, 'commit#%d' % k)
            # committing the same task again must be refused and change nothing visible
            if job.get('recommit'):
                r2 = b.op('commit_migration', clone(t), False); ops += 1
                if ctx.fresh_point(e): ctx.require(e, 'second-commit-refused', r2.variant == 1, key='C01/second-commit-accepted')
                check_views(b, ctx, e, limits[:1], 'recommit#%d' % k)
        if fail_at == len(order) and with_failover:
            b.op('replace_failed_proxy', RStr(victim), 0); ops += 1
            check_views(b, ctx, e, limits, 'failover-after(%s)' % victim)
        e.notes['ops'] = ops
        return ops
    name = 'scale %d->%d shape=%s failover=%s' % (chunks_from, chunks_to, shape, with_failover)
    res = ctx.explore(name, run, time_limit=job.get('time_limit'))
    ctx.ops += sum(p.value or 0 for p in res if p.kind == 'ok')
    ctx.sample({'scenario': name, 'paths': len(res), 'path_condition_of_first': [str(c)[:160] for c in res[0].pc[:6]] if res else []})


def run(ctx):
    import random
    quick = ctx.tier == 'quick'
    rnd = random.Random(ctx.seed)
    jobs = []
    limits = (0, 1) if quick else (0, 1, 2)
    for (a, bb) in ([(1, 2), (2, 1)] if quick else [(1, 2), (2, 1), (2, 3), (3, 2), (1, 3), (3, 1), (2, 4)]):
        halves = 2 * a
        maxt = 2 if (quick or a > 1) else 3
        shapes = owner_shapes(halves, maxt)
        if a >= 2: shapes = [s for s in shapes if len(s) <= halves + (1 if quick else 2)]
        base = list(range(halves))
        if quick and len(shapes) > 6:
            rest = [s for s in shapes if s != base]
            shapes = [base] + rnd.sample(rest, 5)
        if not quick and len(shapes) > 40:
            rest = [s for s in shapes if s != base]
            shapes = [base] + rnd.sample(rest, 39)
        for k, sh in enumerate(shapes):
            jobs.append({'from': a, 'to': bb, 'shape': sh, 'limits': limits, 'failover': None, 'recommit': True})
            if not quick or k < 2:
                jobs.append({'from': a, 'to': bb, 'shape': sh, 'limits': limits, 'failover': 'nospare'})
            if not quick and k < 8:
                jobs.append({'from': a, 'to': bb, 'shape': sh, 'limits': limits, 'failover': 'spare', 'clear': True})
    ctx.bounds = {'slot_num': SLOT_NUM, 'resize_pairs': sorted(set((j['from'], j['to']) for j in jobs)),
                  'max_tiles_per_half': 2 if quick else 3, 'migration_limits': list(limits), 'jobs': len(jobs),
                  'symbolic': 'tile boundaries, global/cluster epochs, probe slot', 'enumerated': 'tile ownership sequence (sampled by VERIF_SEED beyond the base shape), commit order (<=3 tasks), failover point and victim'}
    ctx.assumptions += ['pre-states are balanced stable clusters (owning halves are a prefix, counts avg+[i<rem]); C10 checks that resizes end in this family',
                        'std containers/iterators/strings as modelled by mirsym (conformance suite)', 'global epoch < 2^63 (no wrap)']
    ctx.not_explored += ['clusters with more than %d chunks' % (2 if quick else 4), 'HTTP layer of src/broker/service.rs', 'two simultaneous failovers']
    ctx.run_parallel(jobs, scenario_scale)
