"""C01 - every slot has exactly one owner in every broker view.
Bounded operation histories of the real MetaStore API from *symbolic balanced states*: the tile boundaries of the
slot partition, all epochs and the probe slot are solver variables; shapes (tile ownership sequence, commit order,
failover point) are enumerated by forking.  After every operation every served view is checked."""
from props.scenarios import *


def run(ctx):
    quick = ctx.tier == 'quick'
    jobs = scale_jobs(ctx)
    if quick:
        # one source feeding several destinations, with a migration limit above 1
        jobs.append({'from': 1, 'to': 3, 'shape': [0, 1], 'limits': (0, 2), 'failover': None, 'recommit': False})
        # a removed master that keeps no stable slots and feeds four destinations, most of them postponed by the limit
        jobs.append({'from': 3, 'to': 2, 'shape': [0, 1, 2, 3, 4, 5], 'limits': (0, 1), 'failover': None, 'recommit': False})
    limits = (0, 1) if quick else (0, 1, 2)
    ctx.bounds = {'slot_num': SLOT_NUM, 'resize_pairs': sorted(set((j['from'], j['to']) for j in jobs)),
                  'max_tiles_per_half': 2 if quick else 3, 'migration_limits': list(limits) + ([2] if quick else []), 'jobs': len(jobs),
                  'symbolic': 'tile boundaries, global/cluster epochs, probe slot', 'enumerated': 'tile ownership sequence (sampled by VERIF_SEED beyond the base shape), commit order (<=3 tasks, else both extreme orders), failover point and victim'}
    ctx.assumptions += ['pre-states are balanced stable clusters (owning halves are a prefix, counts avg+[i<rem]); C10 checks that resizes end in this family',
                        'std containers/iterators/strings as modelled by mirsym (conformance suite)', 'global epoch < 2^63 (no wrap)']
    ctx.not_explored += ['clusters with more than %d chunks' % (3 if quick else 4), 'HTTP layer of src/broker/service.rs', 'two simultaneous failovers']
    ctx.run_parallel(jobs, lambda c, j: scale_scenario(c, j, ('partition',)))
