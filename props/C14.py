"""C14 - CLUSTER NODES and CLUSTER SLOTS advertise each slot once and agree with routing.
Three proxies A (migration source), B (destination) and C (bystander) are built as real ClusterBackendMaps (mock
senders) from one consistent metadata with symbolic range boundaries; every MigrationState of the two participants and
both NODES format versions are enumerated; a symbolic slot is the probe."""
from props.routing import *
from props.broker import count_true
from props.resp import RespH


def cluster(e, a, b, c, epoch, layout='three'):
    """per proxy, per node the slot ranges.
    layout 'three':  A stable [0..a] + Migrating [a+1..b] -> B;  B Importing [a+1..b] + stable [b+1..c];  C stable [c+1..16383]
    layout 'two-local' (after a failover that promoted the local replica): proxy pa holds two masters, pa:6000 with A's ranges
    and pa:6001 with C's range; the proxies are pa and pb only
    layout 'two-local-dst': the same with the roles of the migration swapped (the two-master proxy is the destination)"""
    if layout == 'two-local-dst':
        meta = {'epoch': epoch, 'src_proxy': 'pb:7000', 'src_node': 'pb:6000', 'dst_proxy': 'pa:7000', 'dst_node': 'pa:6000'}
        A = [slot_range(e, [(0, a)]), slot_range(e, [(a + 1, b)], ('Importing', meta))]
        B = [slot_range(e, [(a + 1, b)], ('Migrating', meta)), slot_range(e, [(b + 1, c)])]
    else:
        meta = {'epoch': epoch, 'src_proxy': 'pa:7000', 'src_node': 'pa:6000', 'dst_proxy': 'pb:7000', 'dst_node': 'pb:6000'}
        A = [slot_range(e, [(0, a)]), slot_range(e, [(a + 1, b)], ('Migrating', meta))]
        B = [slot_range(e, [(a + 1, b)], ('Importing', meta)), slot_range(e, [(b + 1, c)])]
    C = [slot_range(e, [(c + 1, SLOT_NUM - 1)])]
    if layout == 'three': return {'pa': {'pa:6000': A}, 'pb': {'pb:6000': B}, 'pc': {'pc:6000': C}}
    return {'pa': {'pa:6000': A, 'pa:6001': C}, 'pb': {'pb:6000': B}}


def proxy_maps(e, nodes, me):
    local = node_map(e, {n: [clone(x) for x in rs] for n, rs in nodes[me].items()})
    peer = node_map(e, {'%s:7000' % p: [clone(x) for rs in nodes[p].values() for x in rs] for p in nodes if p != me})
    return local, peer


def parse_nodes_text(e, text):
    """CLUSTER NODES text -> [(id, address, flags, [(start, end)])] with symbolic numbers kept"""
    parts = list(str_parts(text))
    lines = [[]]
    for p in parts:
        if isinstance(p, str):
            segs = p.split('\n')
            lines[-1].append(segs[0])
            for sg in segs[1:]: lines.append([sg])
        else: lines[-1].append(p)
    out = []
    for ln in lines:
        if not ln or (len(ln) == 1 and ln[0] == ''): continue
        toks = [[]]
        for p in ln:
            if isinstance(p, str):
                segs = p.split(' ')
                toks[-1].append(segs[0])
                for sg in segs[1:]: toks.append([sg])
            else: toks[-1].append(p)
        toks = [[x for x in t if x != ''] for t in toks]
        flat = lambda t: ''.join(x for x in t if isinstance(x, str))
        nid, addr, flags = flat(toks[0]), flat(toks[1]), flat(toks[2])
        ranges = []
        for t in toks[8:]:
            if not t: continue
            nums = [x for x in t if isinstance(x, NumStr)] + [int(x) for x in ''.join(y for y in t if isinstance(y, str)).split('-') if x.isdigit()] if False else None
            # tokens are "n" or "n-m" with numeric parts possibly symbolic
            vals = []; cur = ''
            for x in t:
                if isinstance(x, NumStr): vals.append(x.v)
                else:
                    for piece in x.split('-'):
                        if piece.isdigit(): vals.append(int(piece))
            if len(vals) == 1: ranges.append((vals[0], vals[0]))
            elif len(vals) == 2: ranges.append((vals[0], vals[1]))
            else: raise Unmodelled('cluster nodes slot token %r' % (t,))
        out.append((nid, addr, flags, ranges))
    return out


def parse_slots(e, h, resp):
    t = h.tree(resp)
    out = []
    for ent in t[1]:
        s_, e_, ipp = ent[1]
        num = lambda leaf: (leaf[1][1][0].v if False else None)
        def val(x):
            b = x[1][1]
            # integer payload bytes: either text-backed (symbolic number) or concrete digits
            return b
        out.append((ent[1][0], ent[1][1], ent[1][2]))
    return out


def leaf_number(e, resp_int):
    """value of a Resp::Integer(Vec<u8>) produced by n.to_string().into_bytes()"""
    data = un(un(resp_int).f[0].v)
    if data.text is not None:
        parts = norm_parts(str_parts(data.text))
        if isinstance(parts, tuple) and len(parts) == 1 and isinstance(parts[0], NumStr): return parts[0].v
        return int(sval(data.text))
    return int(bytes(c.v for c in data.cells).decode())


def leaf_text(e, resp_bulk):
    x = un(un(resp_bulk).f[0].v)
    data = un(x.f[0].v) if isinstance(x, Enum) else x
    if data.text is not None: return sval(data.text)
    return bytes(c.v for c in data.cells).decode()


def scenario(ctx, job):
    def run(e):
        h = RespH(e)
        if job.get('concrete'):
            a, b, c = job['concrete']
        else:
            a = z3.BitVec('a', 64); b = z3.BitVec('b', 64); c = z3.BitVec('c', 64)
            e.assume(z3.ULT(a + 1, b)) if job.get('wide') else e.assume(z3.ULE(a + 1, b))
            e.assume(z3.ULT(b, c)); e.assume(z3.ULT(c, SLOT_NUM - 1)); e.assume(z3.ULT(a, SLOT_NUM))
        epoch = z3.BitVec('mepoch', 64)
        layout = job.get('layout', 'three')
        nodes = cluster(e, a, b, c, epoch, layout)
        src_p, dst_p = ('pb', 'pa') if layout == 'two-local-dst' else ('pa', 'pb')
        c_owner = 'pc:' if layout == 'three' else 'pa:'
        states = e.src.enums['MigrationState']
        st = job['state'] if job.get('state') is not None else e.choose(len(states), 'migration-state')
        ver = e.choose(2, 'nodes-version')
        s = z3.BitVec('slot', 64); e.assume(z3.ULT(s, SLOT_NUM))
        migr_rl = Struct('RangeList', [RVec([Cell(Struct('Range', [a + 1, b]))])])
        items = []
        for me in sorted(nodes):
            local, peer = proxy_maps(e, nodes, me)
            if job.get('concrete'):
                bm, lf, pf = backend_map(e, local, peer)
            else:
                # the advertisement code only reads the slot-range maps; the slot lookup tables (which need concrete
                # bounds) are left out of the object for symbolic boundaries
                nm = cname(e, 'mydb'); src = e.src
                lc = Struct('LocalCluster', [None] * len(src.structs['LocalCluster'])); rc = Struct('RemoteCluster', [None] * len(src.structs['RemoteCluster']))
                for st_, vals in ((lc, {'cluster_name': clone(nm), 'epoch': 7, 'local_backend': Opaque('SenderMap'), 'slot_ranges': local, 'config': e.default_value('ClusterConfig')}),
                                  (rc, {'cluster_name': clone(nm), 'epoch': 7, 'slot_map': Opaque('SlotMap'), 'slot_ranges': peer, 'remote_backend': NONE()})):
                    for k, v in vals.items(): st_.f[src.field_index(st_.name, k)].v = v
                bm = Struct('ClusterBackendMap', [clone(nm), lc, rc])
            ms = RMap('HashMap')
            if me in ('pa', 'pb'): ms.items.append((clone(migr_rl), Cell(Enum('MigrationState', st))))
            text = e.run_func(e.find_fn('ClusterBackendMap', 'gen_cluster_nodes'), [Ref(Cell(bm)), RStr('%s:7000' % me), Ref(Cell(ms)), Enum('ClusterNodesVersion', ver)])
            slots = e.run_func(e.find_fn('ClusterBackendMap', 'gen_cluster_slots'), [Ref(Cell(bm)), RStr('%s:7000' % me), Ref(Cell(ms))])
            def wit(m, me=me, text=text): return {'proxy': me, 'layout': layout, 'state': states[st], 'version': ver, 'a': concretize(a, m), 'b': concretize(b, m), 'c': concretize(c, m), 'slot': concretize(s, m), 'cluster_nodes': concretize(text, m)}
            items.append(('cluster-slots-ok', 'C14/cluster-slots-error', slots.variant == 0, wit))
            if slots.variant != 0: continue
            lines = parse_nodes_text(e, text)
            ents = []
            for ent in deref_vec(un(un(slots.f[0].v).f[0].v).f[0].v).cells:
                arr = deref_vec(un(un(ent.v).f[0].v).f[0].v).cells
                ipp = deref_vec(un(un(arr[2].v).f[0].v).f[0].v).cells
                ents.append((leaf_number(e, arr[0].v), leaf_number(e, arr[1].v), leaf_text(e, ipp[0].v), leaf_number(e, ipp[1].v) if True else None, leaf_text(e, ipp[2].v)))
            # exactly one advertised owner per slot, in both commands
            cov_slots = [zand([z3.ULE(bv(x), s), z3.ULE(s, bv(y))]) for x, y, _, _, _ in ents]
            cov_nodes = [(nid, addr, zand([z3.ULE(bv(x), s), z3.ULE(s, bv(y))])) for nid, addr, fl, rs in lines for x, y in rs]
            items.append(('slots-advertise-each-slot-once', 'C14/cluster-slots-not-exactly-once', count_true(cov_slots) == 1, wit))
            items.append(('nodes-advertise-each-slot-once', 'C14/cluster-nodes-not-exactly-once', count_true([c_ for _, _, c_ in cov_nodes]) == 1, wit))
            # the two commands agree: the node id advertising s is the same
            for (x, y, host, port, nid), cs in zip(ents, cov_slots):
                same = zor([zand([c_, nid2 == nid]) for nid2, _, c_ in cov_nodes])
                items.append(('nodes-and-slots-agree', 'C14/cluster-nodes-and-slots-disagree', z3.Implies(zbool(cs), zbool(same)), wit))
            # who is advertised: owner of a non-migrating slot; source before the switch handshake (PreCheck), destination afterwards
            owner_addr = lambda nid: [addr for n2, addr, fl, rs in lines if n2 == nid][0].split('@')[0]
            in_a = z3.ULE(s, bv(a)); in_m = zand([z3.UGT(s, bv(a)), z3.ULE(s, bv(b))]); in_b = zand([z3.UGT(s, bv(b)), z3.ULE(s, bv(c))]); in_c = z3.UGT(s, bv(c))
            def adv(nid_pred):
                return zor([zand([c_, nid_pred(addr.split('@')[0])]) for n2, addr, c_ in cov_nodes])
            items.append(('stable-slot-advertised-at-owner', 'C14/stable-slot-advertised-elsewhere',
                          zand([z3.Implies(zbool(in_a), zbool(adv(lambda ad: ad.startswith('pa:')))), z3.Implies(zbool(in_b), zbool(adv(lambda ad: ad.startswith('pb:')))), z3.Implies(zbool(in_c), zbool(adv(lambda ad: ad.startswith(c_owner))))]), wit))
            if me in ('pa', 'pb'):
                exp = (src_p if states[st] == 'PreCheck' else dst_p) + ':'
                items.append(('migrating-slot-advertised-by-phase', 'C14/migrating-slot-advertised-at-wrong-side', z3.Implies(zbool(in_m), zbool(adv(lambda ad: ad.startswith(exp)))), wit))
            else:
                items.append(('migrating-slot-advertised-at-a-participant', 'C14/migrating-slot-advertised-at-non-participant', z3.Implies(zbool(in_m), zbool(adv(lambda ad: ad.startswith('pa:') or ad.startswith('pb:')))), wit))
            # "myself" flag only on the proxy's own line
            for nid, addr, fl, rs in lines:
                items.append(('myself-flag', 'C14/myself-flag-wrong', ('myself' in fl) == addr.startswith(me + ':'), wit))
            # routing agreement for non-migrating slots (concrete layouts only: the slot table needs concrete bounds)
            if job.get('concrete'):
                t = MockTask(s)
                r = send(e, bm, t)
                rep = reply_text(e, t)
                if t.sent_to is not None:
                    items.append(('local-execution-iff-advertised-as-myself', 'C14/executes-slot-advertised-elsewhere', z3.Implies(znot(zbool(in_m)), zbool(adv(lambda ad: ad.startswith(me + ':')))), wit))
                elif rep is not None:
                    parts = list(str_parts(rep[1]))
                    if parts and isinstance(parts[0], str) and parts[0].startswith('MOVED') and isinstance(parts[-1], str):
                        target = parts[-1].strip()
                        items.append(('moved-target-is-advertised-node', 'C14/moved-target-not-advertised-node', z3.Implies(znot(zbool(in_m)), zbool(adv(lambda ad: ad == target))), wit))
        ctx.require_all(e, items)
        return 6
    def setup(e): e.max_steps = 80_000_000
    res = ctx.explore('topology %s %s state=%s' % (job.get('layout', 'three'), 'concrete %s' % (job['concrete'],) if job.get('concrete') else 'symbolic', job.get('state')), run, engine_setup=setup)
    ctx.ops += sum(p.value or 0 for p in res if p.kind == 'ok')
    ctx.sample({'scenario': 'topology', 'paths': len(res)})


def ignore_kernel(ctx, job):
    """should_ignore_slots on all (tag, Option<MigrationState>) pairs"""
    def run(e):
        states = e.src.enums['MigrationState']
        meta = {'epoch': 1, 'src_proxy': 'a:1', 'src_node': 'a:2', 'dst_proxy': 'b:1', 'dst_node': 'b:2'}
        items = []
        for tag in (None, 'Migrating', 'Importing'):
            for st in [None] + list(range(len(states))):
                sr = slot_range(e, [(5, 9)], (tag, meta) if tag else None)
                ms = RMap('HashMap')
                if st is not None: ms.items.append((Struct('RangeList', [RVec([Cell(Struct('Range', [5, 9]))])]), Cell(Enum('MigrationState', st))))
                r = e.call('proxy::cluster::should_ignore_slots', [Ref(Cell(sr)), Ref(Cell(ms))])
                pre = st is not None and states[st] == 'PreCheck'
                exp = False if tag is None else ((not pre) if tag == 'Migrating' else pre)
                items.append(('ignore-table', 'C14/should-ignore-slots-table', r == exp, lambda m, tag=tag, st=st, r=r: {'tag': tag, 'state': states[st] if st is not None else None, 'ignored': r}))
        ctx.require_all(e, items)
        return 1
    res = ctx.explore('should_ignore_slots table', run)
    ctx.ops += len(res)


def worker(ctx, job):
    {'topo': scenario, 'kernel': ignore_kernel}[job['kind']](ctx, job)


def run(ctx):
    from props.broker import count_true
    quick = ctx.tier == 'quick'
    jobs = [{'kind': 'kernel'}] + [{'kind': 'topo', 'state': k} for k in range(6)]
    jobs += [{'kind': 'topo', 'concrete': (4000, 9000, 12000), 'state': k} for k in ((0, 2, 5) if quick else range(6))]
    jobs += [{'kind': 'topo', 'layout': lay, 'concrete': (4000, 9000, 12000), 'state': k} for lay in ('two-local', 'two-local-dst') for k in ((0, 3) if quick else range(6))]
    jobs += [{'kind': 'topo', 'layout': lay, 'state': k} for lay in ('two-local', 'two-local-dst') for k in ((0, 2) if quick else range(6))]
    if not quick: jobs += [{'kind': 'topo', 'concrete': cc, 'state': k} for cc in ((0, 1, 2), (100, 16000, 16381)) for k in range(6)]
    ctx.bounds = {'topology': '3 proxies, one migration pair, symbolic boundaries a < b < c; all 6 MigrationStates x 2 NODES versions; plus 2 proxies where one holds two local masters (after a failover) as migration source or destination', 'routing agreement': 'concrete boundary layouts with a symbolic slot'}
    ctx.assumptions += ['bystander proxies have no migration state: for them a migrating slot may be advertised at either participant (the statement is only enforced on source and destination)',
                        'crc64 node ids are computed concretely (real CRC-64/Jones model)']
    ctx.not_explored += ['two simultaneous migration pairs', 'arbitrary hand-built maps with several ranges per node beyond this topology']
    ctx.run_parallel(jobs, worker)
