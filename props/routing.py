"""Harness library for the proxy routing properties (C02, C09, C14): mock senders / tasks for the crate's own traits
and helpers to build the real ClusterBackendMap from slot-range maps."""
import z3
from mirsym.values import *
from props.broker import SLOT_NUM


class MockTask(PyObj):
    """a CmdTask whose slot is given (possibly symbolic / None); records the reply set on it"""
    def __init__(self, slot, key=None):
        self.slot = slot; self.key = key; self.reply = None; self.sent_to = None
    def m_get_slot(self, e, selfref): return Some(self.slot) if self.slot is not None else NONE()
    def m_get_key(self, e, selfref): return Some(SliceRef(RVec([Cell(b) for b in self.key]))) if self.key is not None else NONE()
    def m_set_resp_result(self, e, selfv, result):
        self.reply = result; e.events.append(('reply', self, result)); return mk_unit()
    def m_set_result(self, e, selfv, result):
        self.reply = result; e.events.append(('reply', self, result)); return mk_unit()
    def m_log_event(self, e, selfref, ev): return mk_unit()
    def m_into_task(self, e, selfv): return self
    def m_get_context(self, e, selfref): return Opaque('ctx')


class MockSender(PyObj):
    def __init__(self, addr, log): self.addr = addr; self.log = log
    def m_send(self, e, selfref, task):
        t = un(task); t.sent_to = self.addr
        self.log.append((self.addr, t)); e.events.append(('send', self.addr, t))
        return Ok(mk_unit())


class MockFactory(PyObj):
    def __init__(self, kind): self.kind = kind; self.log = []; self.created = []
    def m_create(self, e, selfref, addr):
        a = sval(addr); self.created.append(a)
        return MockSender(a, self.log)


def reply_text(e, task):
    """the error text set on a task (Resp::Error(bytes)) as Python parts, or None"""
    r = task.reply
    if r is None: return None
    r = un(r)
    if r.variant != 0: return ('err', r)
    resp = un(r.f[0].v)
    kind = e.src.enums['Resp'][resp.variant]
    data = un(resp.f[0].v)
    if isinstance(data, RVec) and data.text is not None: return (kind, data.text)
    if isinstance(data, RVec): return (kind, RStr(bytes(c.v for c in data.cells).decode('utf-8', 'replace')))
    return (kind, data)


def slot_range(e, ranges, tag=None):
    rl = Struct('RangeList', [RVec([Cell(Struct('Range', [a, b])) for a, b in ranges])])
    vi = e.src.variant_index
    if tag is None: tg = Enum('SlotRangeTag', vi('SlotRangeTag', 'None'))
    else:
        kind, meta = tag
        tg = Enum('SlotRangeTag', vi('SlotRangeTag', kind), [Struct('MigrationMeta', [meta['epoch'], RStr(meta['src_proxy']), RStr(meta['src_node']), RStr(meta['dst_proxy']), RStr(meta['dst_node'])])])
    return Struct('SlotRange', [rl, tg])


def node_map(e, spec):
    """spec: {address: [slot_range values]} -> HashMap<String, Vec<SlotRange>>"""
    m = RMap('HashMap')
    for addr, srs in spec.items(): m.items.append((RStr(addr), Cell(RVec([Cell(x) for x in srs]))))
    return m


def cname(e, s):
    r = e.run_func(e.find_fn('ClusterName', 'try_from', 'TryFrom'), [RStr(s)])
    return r.f[0].v


def backend_map(e, local, peer, active_redirection=False, epoch=7, name='mydb'):
    """real ClusterBackendMap::from_cluster_map over mock sender factories"""
    flags = Struct('ClusterMapFlags', [False, False])
    meta = e.run_func(e.find_fn('ProxyClusterMeta', 'new'), [epoch, flags, cname(e, name), local, peer, e.default_value('ClusterConfig')])
    lf, pf = MockFactory('local'), MockFactory('peer')
    bm = e.run_func(e.find_fn('ClusterBackendMap', 'from_cluster_map'), [Ref(Cell(meta)), Ref(Cell(lf)), Ref(Cell(pf)), active_redirection])
    return bm, lf, pf


def send(e, bm, task):
    return e.run_func(e.find_fn('ClusterBackendMap', 'send'), [Ref(Cell(bm)), task])
