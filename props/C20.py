"""C20 - value compression is transparent.
The real ForwardHandler::handle_cmd_ctx (data-command path: handle_data_cmd, handle_single_key_data_cmd, the async
MGET / MSET / MSETNX splitters, CmdCompressor) and the real reply path (DecompressCommitHandler::handle_task,
CmdReplyDecompressor, RespPacket::change_*) run from their MIR against a storing Redis stand-in.  Values are symbolic
byte strings; zstd is the injective pair of mirsym/models/misc.py.  Decided per scenario by z3:
  * what arrives at the backend differs from the request only in value positions, and there it decodes to the value;
  * what a later GET / GETSET / MGET (through the same or another proxy of the cluster) returns equals the value;
  * non-string replies and refused requests are passed on unaltered; restricted commands are refused in set_get_only,
    passed unchanged in allow_all, and with compression disabled nothing is touched in either direction."""
from props.executor import *

K1, K2, K3, KX = b'{t}a', b'{t}b', b'{t}c', b'{t}missing'
OTHER_SLOT = b'{u}z'

# Redis string commands that read or partially modify the stored bytes (Redis command reference, "string" group,
# without the whole-value writers/readers the property names); a set_get_only proxy must refuse them
OBSERVERS = [
    ('APPEND', [b'x']), ('BITCOUNT', []), ('BITFIELD', [b'GET', b'u8', b'0']), ('BITOP', [b'AND', K2]), ('BITPOS', [b'1']),
    ('DECR', []), ('DECRBY', [b'1']), ('GETBIT', [b'0']), ('GETRANGE', [b'0', b'-1']), ('INCR', []), ('INCRBY', [b'1']),
    ('INCRBYFLOAT', [b'1.5']), ('SETBIT', [b'0', b'1']), ('SETRANGE', [b'0', b'x']), ('STRLEN', []),
    ('SUBSTR', [b'0', b'-1']), ('GETDEL', []), ('GETEX', []),
]


def L(b): return list(b)


def symval(tag, n): return [z3.BitVec('%s%d' % (tag, i), 8) for i in range(n)]


def write_shapes():
    """name -> function(values) -> (request elements, {element index: value index}, [(key, value index)])"""
    S = {}
    S['SET k v'] = lambda v: ([L(b'SET'), L(K1), v[0]], {2: 0}, [(K1, 0)])
    S['set k v (lower case)'] = lambda v: ([L(b'set'), L(K1), v[0]], {2: 0}, [(K1, 0)])
    S['SeT k v EX 10'] = lambda v: ([L(b'SeT'), L(K1), v[0], L(b'EX'), L(b'10')], {2: 0}, [(K1, 0)])
    S['SET k v NX'] = lambda v: ([L(b'SET'), L(K1), v[0], L(b'NX')], {2: 0}, [(K1, 0)])
    S['SET k v PX 5 KEEPTTL'] = lambda v: ([L(b'SET'), L(K1), v[0], L(b'PX'), L(b'5'), L(b'KEEPTTL')], {2: 0}, [(K1, 0)])
    S['SETEX k 10 v'] = lambda v: ([L(b'SETEX'), L(K1), L(b'10'), v[0]], {3: 0}, [(K1, 0)])
    S['psetex k 10 v'] = lambda v: ([L(b'psetex'), L(K1), L(b'10'), v[0]], {3: 0}, [(K1, 0)])
    S['SETNX k v'] = lambda v: ([L(b'SETNX'), L(K1), v[0]], {2: 0}, [(K1, 0)])
    S['GETSET k v'] = lambda v: ([L(b'GETSET'), L(K1), v[0]], {2: 0}, [(K1, 0)])
    S['MSET k1 v1'] = lambda v: ([L(b'MSET'), L(K1), v[0]], {2: 0}, [(K1, 0)])
    S['MSET k1 v1 k2 v2'] = lambda v: ([L(b'MSET'), L(K1), v[0], L(K2), v[1]], {2: 0, 4: 1}, [(K1, 0), (K2, 1)])
    S['mset k1 v1 k2 v2 k3 v3'] = lambda v: ([L(b'mset'), L(K1), v[0], L(K2), v[1], L(K3), v[2]], {2: 0, 4: 1, 6: 2}, [(K1, 0), (K2, 1), (K3, 2)])
    S['MSETNX k1 v1'] = lambda v: ([L(b'MSETNX'), L(K1), v[0]], {2: 0}, [(K1, 0)])
    S['MSETNX k1 v1 k2 v2'] = lambda v: ([L(b'MSETNX'), L(K1), v[0], L(K2), v[1]], {2: 0, 4: 1}, [(K1, 0), (K2, 1)])
    S['msetnx k1 v1 k2 v2 k3 v3'] = lambda v: ([L(b'msetnx'), L(K1), v[0], L(K2), v[1], L(K3), v[2]], {2: 0, 4: 1, 6: 2}, [(K1, 0), (K2, 1), (K3, 2)])
    return S


NVALS = {'MSET k1 v1 k2 v2': 2, 'mset k1 v1 k2 v2 k3 v3': 3, 'MSETNX k1 v1 k2 v2': 2, 'msetnx k1 v1 k2 v2 k3 v3': 3}


INFLATE = 1 << 22


def conc_el(el, m, big=()):
    """bytes of one command element under the model; a value element of a counterexample that depends on the decompressed
    size exceeding a buffer capacity stands for a large, highly compressible value: the witness bytes repeated to 4 MiB"""
    bs = [concretize(b, m) for b in el]
    if any(el is v for v in big): return {'repeat': bs or [0], 'times': INFLATE // max(1, len(bs))}
    return bs


def spec_of(strategy, cmds, m, big=()):
    return {'strategy': strategy, 'cmds': [[conc_el(el, m, big) for el in c] for c in cmds]}


def tree_eq_bulk(t, val):
    return t[0] == 'Bulk' and t[1] is not None and bytes_eq(t[1], val)


def roundtrip(ctx, job):
    """write through proxy A, read through proxy B (same cluster config, same Redis)"""
    strategy = job['strategy']; wname = job['write']; lens = job['lens']
    mk = write_shapes()[wname]
    def run(e):
        vals = [symval('v%d_' % i, n) for i, n in enumerate(lens)]
        req, vpos, stored = mk(vals)
        redis = RedisStandIn()
        hA, mgrA, _ = make_handler(e, strategy, redis)
        hB, mgrB, _ = make_handler(e, strategy, redis)
        cmds = []
        if job.get('old') is not None:
            # an older value written the same way, so that GETSET / SET .. NX see an existing key
            old = symval('old', job['old'])
            cmds.append([L(b'SET'), L(K1), old]); handle(e, hA, cmds[-1])
        else: old = None
        orig = [list(x) for x in req]
        cmds.append(req)
        wr = reply_resp(e, handle(e, hA, req))
        items = []
        def wit(m, extra=None):
            d = {'strategy': strategy, 'write': wname, 'commands': [[show(el, m) for el in c] for c in cmds]}
            d.update(extra(m) if extra else {}); return d
        # (1) what arrived at the backend for this request
        arrived = [x for x in mgrA.sent[(1 if old is not None else 0):]]
        name = bytes(orig[0]).upper()
        # the backend may see the multi-key writes split into single writes or as one command: what counts is the set of
        # (key, stored value) pairs and that nothing else of the request changed
        def pairs_of(cmd):
            nm = as_bytes(cmd[0]); nm = nm.upper() if nm is not None else None
            if nm in (b'MSET', b'MSETNX'): return [(cmd[i], cmd[i + 1], i, i + 1) for i in range(1, len(cmd) - 1, 2)] if len(cmd) % 2 == 1 else None
            if nm in (b'SET', b'SETNX', b'GETSET') and len(cmd) >= 3: return [(cmd[1], cmd[2], 1, 2)]
            if nm in (b'SETEX', b'PSETEX') and len(cmd) == 4: return [(cmd[1], cmd[3], 1, 3)]
            return None
        def arrived_wit(m): return wit(m, lambda m: {'arrived': [[show(el, m) for el in a] for a in arrived]})
        if name in (b'MSET', b'MSETNX'):
            got = []
            ok_shape = len(arrived) >= 1
            for a in arrived:
                ps = pairs_of(a)
                if ps is None: ok_shape = False; break
                got += [(k_, v_) for k_, v_, _, _ in ps]
            ok_shape = ok_shape and len(got) == len(stored)
            items.append(('backend-sees-same-command', 'C20/request-altered/' + wname, ok_shape, arrived_wit))
            if ok_shape:
                for (k, vi) in stored:
                    match = [(k_, v_) for k_, v_ in got if as_bytes(k_) == k]
                    items.append(('key-unaltered', 'C20/key-altered/' + wname, len(match) == 1, arrived_wit))
                    if len(match) == 1:
                        isf, payload = decoded(match[0][1]) if strategy != 'Disabled' else (True, match[0][1])
                        items.append(('value-recoverable', 'C20/stored-value-not-recoverable/' + wname, zand([isf, bytes_eq(payload, vals[vi])]) if payload is not None else False, arrived_wit))
        else:
            ok_shape = len(arrived) == 1 and len(arrived[0]) == len(orig)
            items.append(('backend-sees-same-command', 'C20/request-altered/' + wname, ok_shape, arrived_wit))
            if ok_shape:
                for j, el in enumerate(arrived[0]):
                    if j in vpos:
                        isf, payload = decoded(el) if strategy != 'Disabled' else (True, el)
                        items.append(('value-recoverable', 'C20/stored-value-not-recoverable/' + wname, zand([isf, bytes_eq(payload, vals[vpos[j]])]) if payload is not None else False, arrived_wit))
                    else:
                        items.append(('non-value-argument-unaltered', 'C20/argument-altered/%s/arg%d' % (wname, j), bytes_eq(el, orig[j]), arrived_wit))
        # (2) the reply to the write
        nx_blocked = old is not None and (name == b'SETNX' or name == b'MSETNX' or (name == b'SET' and any(bytes(x).upper() == b'NX' for x in orig[3:] if as_bytes(x) is not None)))
        if name == b'GETSET':
            exp_ok = (wr[0] == 'ok') and (tree_eq_bulk(wr[1], old) if old is not None else wr[1] == ('Bulk', None))
            items.append(('getset-returns-old-value', 'C20/getset-old-value-altered', exp_ok, lambda m: wit(m, lambda m: {'reply': show_tree(wr, m)}),))
        elif name in (b'SETNX', b'MSETNX'):
            items.append(('integer-reply-unaltered', 'C20/non-string-reply-altered/' + wname, wr == ('ok', ('Integer', L(b'0' if nx_blocked else b'1'))), lambda m: wit(m, lambda m: {'reply': show_tree(wr, m)})))
        elif nx_blocked:
            items.append(('nil-reply-unaltered', 'C20/non-string-reply-altered/' + wname, wr == ('ok', ('Bulk', None)), lambda m: wit(m, lambda m: {'reply': show_tree(wr, m)})))
        else:
            items.append(('ok-reply-unaltered', 'C20/non-string-reply-altered/' + wname, wr == ('ok', ('Simple', L(b'OK'))), lambda m: wit(m, lambda m: {'reply': show_tree(wr, m)})))
        # (3) read back through the other proxy
        expect = {}; exp_replies = []
        if old is not None: expect[K1] = old
        if not nx_blocked:
            for k, vi in stored: expect[k] = vals[vi]
        for rname in job['reads']:
            if rname == 'GET':
                for k in [K1, K2, K3][:len(stored)] + [KX]:
                    cmds.append([L(b'GET'), L(k)])
                    rr = reply_resp(e, handle(e, hB, cmds[-1]))
                    exp = expect.get(k); exp_replies.append((len(cmds) - 1, exp))
                    ok = rr[0] == 'ok' and (tree_eq_bulk(rr[1], exp) if exp is not None else rr[1] == ('Bulk', None))
                    items.append(('get-returns-written-value', 'C20/value-not-byte-identical/GET-after-' + wname, ok,
                                  lambda m, rr=rr, exp=exp, n=len(cmds): dict(wit(m), reply=show_tree(rr, m), expected=show(exp, m) if exp is not None else None, upto=n)))
            elif rname == 'MGET':
                keys = [K1, KX, K2, K3][:len(stored) + 1]
                cmds.append([L(b'MGET')] + [L(k) for k in keys])
                rr = reply_resp(e, handle(e, hB, cmds[-1]))
                ok = rr[0] == 'ok' and rr[1][0] == 'Arr' and rr[1][1] is not None and len(rr[1][1]) == len(keys) and \
                    zand([(tree_eq_bulk(t, expect[k]) if k in expect else t == ('Bulk', None)) for t, k in zip(rr[1][1], keys)])
                items.append(('mget-returns-written-values', 'C20/value-not-byte-identical/MGET-after-' + wname, ok,
                              lambda m, rr=rr: dict(wit(m), reply=show_tree(rr, m), expected=[show(expect[k], m) if k in expect else None for k in keys])))
            elif rname == 'GETSET':
                nv = symval('n', 1)
                cmds.append([L(b'GETSET'), L(K1), nv])
                rr = reply_resp(e, handle(e, hB, cmds[-1]))
                exp = expect.get(K1); exp_replies.append((len(cmds) - 1, exp))
                ok = rr[0] == 'ok' and (tree_eq_bulk(rr[1], exp) if exp is not None else rr[1] == ('Bulk', None))
                items.append(('getset-returns-written-value', 'C20/value-not-byte-identical/GETSET-after-' + wname, ok,
                              lambda m, rr=rr, exp=exp: dict(wit(m), reply=show_tree(rr, m), expected=show(exp, m) if exp is not None else None)))
                expect[K1] = nv
                cmds.append([L(b'GET'), L(K1)])
                rr2 = reply_resp(e, handle(e, hA, cmds[-1]))
                items.append(('get-returns-written-value', 'C20/value-not-byte-identical/GET-after-GETSET', rr2[0] == 'ok' and tree_eq_bulk(rr2[1], nv),
                              lambda m, rr2=rr2: dict(wit(m), reply=show_tree(rr2, m))))
        def rp(m):
            big = [v for v in vals + [old] + [el for c in cmds for el in c if any(is_sym(b) for b in el)] if v is not None] if any(ev[0] == 'zstd-capacity-exceeded' for ev in e.events) else ()
            sp = spec_of(strategy, cmds, m, big)
            sp['expect_get'] = {k.decode(): conc_el(v, m, big) for k, v in expect.items()}
            sp['expect_replies'] = [[i, None if v is None else conc_el(v, m, big)] for i, v in exp_replies]
            return {'kind': 'rust-test', 'filter': 'verif_replay_compression', 'spec': sp}
        ctx.require_all(e, items, replay=rp)
        return 1
    res = ctx.explore('roundtrip %s / %s lens=%s old=%s' % (strategy, wname, lens, job.get('old')), run)
    ctx.ops += sum(1 for _ in res) * (2 + len(job['reads']))


def show(vals, m):
    if vals is None: return None
    bs = [concretize(v, m) for v in vals]
    return ''.join(chr(b) if 32 <= b < 127 and chr(b) not in '\\"' else '\\x%02x' % b for b in bs)


def show_tree(t, m):
    if t is None: return None
    if t[0] in ('ok',): return show_tree(t[1], m)
    if t[0] == 'err': return 'error:' + str(t[1])
    if t[0] == 'Arr': return None if t[1] is None else [show_tree(c, m) for c in t[1]]
    return (t[0], show(t[1], m))


def restricted(ctx, job):
    strategy = job['strategy']; name, extra = job['cmd']
    def run(e):
        h, mgr, redis = make_handler(e, strategy)
        v = symval('s', 2)
        handle(e, h, [L(b'SET'), L(K1), v])
        nsent = len(mgr.sent)
        req = [L(name.encode()), L(K1)] + [L(x) for x in extra]
        rr = reply_resp(e, handle(e, h, req))
        sent = mgr.sent[nsent:]
        def wit(m): return {'strategy': strategy, 'command': [show(el, m) for el in req], 'reply': show_tree(rr, m), 'sent_to_backend': [[show(el, m) for el in a] for a in sent]}
        rp = lambda m: {'kind': 'rust-test', 'filter': 'verif_replay_restricted', 'spec': {'strategy': strategy, 'cmd': [[concretize(b, m) for b in el] for el in req]}}
        items = []
        if strategy == 'SetGetOnly':
            items.append(('observer-command-refused', 'C20/observer-command-not-refused/' + name, len(sent) == 0 and rr[0] == 'ok' and rr[1][0] == 'Error', wit))
        else:
            same = len(sent) == 1 and len(sent[0]) == len(req) and zand([bytes_eq(a, b) for a, b in zip(sent[0], req)])
            items.append(('passed-unaltered', 'C20/request-altered/' + name, same, wit))
        ctx.require_all(e, items, replay=rp)
        return 1
    res = ctx.explore('restricted %s / %s' % (strategy, name), run)
    ctx.ops += len(res) * 2


class ForcedRedis(RedisStandIn):
    """answers the next command with a given reply (wrong-type errors, integers, nested arrays ...)"""
    def __init__(self, replies): RedisStandIn.__init__(self); self.replies = list(replies)
    def execute(self, e, elems):
        self.log.append(elems)
        return self.replies.pop(0)(e)


def passthrough(ctx, job):
    """replies that are not (arrays of) bulk strings reach the client unaltered; a stored value that is not a
    compressed frame is never answered with other bytes"""
    strategy = job['strategy']; rkind = job['reply']; cmd = job['cmd']
    def run(e):
        raw = symval('r', job.get('n', 4))
        mk = {'nil': lambda e: nil_bulk(e), 'error': lambda e: error(e, b'WRONGTYPE Operation against a key'), 'integer': lambda e: integer(e, 7),
              'simple': lambda e: simple(e, b'OK'), 'nilarray': lambda e: Enum('Resp', e.src.variant_index('Resp', 'Arr'), [Enum('Array', e.src.variant_index('Array', 'Nil'))]),
              'raw': lambda e: bulk(e, raw), 'mixed': lambda e: array(e, [nil_bulk(e), integer(e, 3), error(e, b'ERR x')])}[rkind]
        redis = ForcedRedis([mk])
        h, mgr, _ = make_handler(e, strategy, redis)
        req = [L(cmd.encode()), L(K1)] + ([L(K2)] if cmd == 'MGET' else []) + ([symval('w', 1)] if cmd == 'GETSET' else [])
        # MGET is split into GET sub-commands: give each sub-command its own forced reply
        if cmd == 'MGET': redis.replies = [mk] * (len(req) - 1)
        rr = reply_resp(e, handle(e, h, req))
        exp_tree = resp_tree(e, mk(e))
        def wit(m): return {'strategy': strategy, 'command': [show(el, m) for el in req], 'backend_reply': rkind, 'client_reply': show_tree(rr, m), 'raw': show(raw, m)}
        items = []
        if rkind == 'raw' and strategy != 'Disabled':
            # stored bytes that are a frame decode to their payload, anything else must not come out as different bytes
            def bulk_ok(t):
                if t == ('Bulk', None) or t[0] == 'Error': return True
                if t[0] != 'Bulk': return False
                isf, payload = decoded(raw)
                return zor([zand([isf, bytes_eq(t[1], payload)]), bytes_eq(t[1], raw)])
            if cmd == 'MGET':
                ok = rr[0] == 'ok' and (rr[1][0] == 'Error' or (rr[1][0] == 'Arr' and rr[1][1] is not None and len(rr[1][1]) == 2 and zand([bulk_ok(t) for t in rr[1][1]])))
            else:
                ok = rr[0] == 'ok' and bulk_ok(rr[1])
            items.append(('undecodable-value-never-other-bytes', 'C20/undecodable-value-answered-with-other-bytes/' + cmd, ok, wit))
        else:
            if cmd == 'MGET':
                # the client sees an array of the sub-replies, or the first error among them
                first_err = exp_tree[0] == 'Error'
                ok = rr[0] == 'ok' and ((first_err and rr[1] == exp_tree) or (not first_err and rr[1][0] == 'Arr' and rr[1][1] is not None and len(rr[1][1]) == 2 and zand([tree_eq(t, exp_tree) for t in rr[1][1]])))
            else:
                ok = rr[0] == 'ok' and tree_eq(rr[1], exp_tree)
            items.append(('non-string-reply-unaltered', 'C20/non-string-reply-altered/%s/%s' % (cmd, rkind), ok, wit))
        ctx.require_all(e, items)
        return 1
    res = ctx.explore('passthrough %s / %s / %s' % (strategy, cmd, rkind), run)
    ctx.ops += len(res)


def tree_eq(a, b):
    if a[0] != b[0]: return False
    if a[1] is None or b[1] is None: return a[1] is None and b[1] is None
    if a[0] == 'Arr':
        return len(a[1]) == len(b[1]) and zand([tree_eq(x, y) for x, y in zip(a[1], b[1])])
    return bytes_eq(a[1], b[1])


def guards(ctx, job):
    """multi-key requests over keys of different slots are refused before anything reaches a backend (redirection
    off), odd argument counts are refused, and nothing is half-written"""
    def run(e):
        h, mgr, redis = make_handler(e, job['strategy'])
        req = [L(x) if isinstance(x, bytes) else x for x in GUARDS[job['guard']][1](symval)]
        rr = reply_resp(e, handle(e, h, req))
        def wit(m): return {'command': [show(el, m) for el in req], 'reply': show_tree(rr, m), 'sent': [[show(el, m) for el in a] for a in mgr.sent]}
        ok = rr[0] == 'ok' and rr[1][0] == 'Error'
        items = [('refused', 'C20/malformed-multi-key-request-not-refused/' + job['name'], ok, wit)]
        if job.get('nothing_sent', True):
            items.append(('nothing-written', 'C20/refused-request-partially-written/' + job['name'], len(mgr.sent) == 0, wit))
        ctx.require_all(e, items)
        return 1
    res = ctx.explore('guard %s / %s' % (job['strategy'], job['name']), run)
    ctx.ops += len(res)


GUARDS = [
    ('MSET keys of two slots', lambda sv: [b'MSET', K1, sv('a', 1), OTHER_SLOT, sv('b', 1)], True),
    ('MSETNX keys of two slots', lambda sv: [b'MSETNX', K1, sv('a', 1), OTHER_SLOT, sv('b', 1)], True),
    ('MGET keys of two slots', lambda sv: [b'MGET', K1, OTHER_SLOT], True),
    ('MSET without value for last key', lambda sv: [b'MSET', K1, sv('a', 1), K2], False),
    ('MSETNX without value for last key', lambda sv: [b'MSETNX', K1, sv('a', 1), K2], True),
    ('MSET without arguments', lambda sv: [b'MSET'], True),
    ('MGET without arguments', lambda sv: [b'MGET'], True),
]


def worker(ctx, job):
    {'rt': roundtrip, 'restricted': restricted, 'pass': passthrough, 'guard': guards}[job['kind']](ctx, job)


def run(ctx):
    quick = ctx.tier == 'quick'
    jobs = []
    W = list(write_shapes())
    lens1 = [0, 1, 4] if quick else [0, 1, 2, 3, 4, 5, 8]   # 4 = length of the zstd magic number: values that look like frames
    for strategy in ('SetGetOnly', 'AllowAll', 'Disabled'):
        for w in W:
            nv = NVALS.get(w, 1)
            reads = ['GET', 'MGET'] if nv > 1 or not w.upper().startswith('GETSET') else ['GET', 'MGET']
            if nv == 1:
                for n in (lens1 if strategy != 'Disabled' else lens1[:2]):
                    jobs.append({'kind': 'rt', 'strategy': strategy, 'write': w, 'lens': [n], 'reads': reads + (['GETSET'] if n == 1 else [])})
                if w.upper().startswith(('GETSET', 'SETNX', 'SET K V NX', 'MSETNX')) and strategy != 'Disabled':
                    jobs.append({'kind': 'rt', 'strategy': strategy, 'write': w, 'lens': [2], 'old': 1, 'reads': ['GET', 'MGET']})
            else:
                combos = [[1, 0, 2][:nv], [0, 4, 1][:nv]] if quick else [[1, 0, 2][:nv], [0, 4, 1][:nv], [2, 2, 2][:nv], [5, 1, 0][:nv], [4, 4, 4][:nv]]
                for lens in (combos if strategy != 'Disabled' else combos[:1]):
                    jobs.append({'kind': 'rt', 'strategy': strategy, 'write': w, 'lens': lens, 'reads': reads})
                if w.upper().startswith('MSETNX') and strategy == 'SetGetOnly':
                    jobs.append({'kind': 'rt', 'strategy': strategy, 'write': w, 'lens': [1] * nv, 'old': 2, 'reads': ['GET', 'MGET']})
        for c in OBSERVERS:
            jobs.append({'kind': 'restricted', 'strategy': strategy, 'cmd': c})
        for cmd in ('GET', 'GETSET', 'MGET'):
            for rk in ('nil', 'error', 'integer', 'simple', 'nilarray', 'mixed', 'raw'):
                jobs.append({'kind': 'pass', 'strategy': strategy, 'cmd': cmd, 'reply': rk, 'n': 4 if quick else 5})
        if strategy != 'AllowAll' or not quick:
            for gi, (name, req, ns) in enumerate(GUARDS):
                jobs.append({'kind': 'guard', 'strategy': strategy, 'name': name, 'guard': gi, 'nothing_sent': ns})
    ctx.bounds = {'value length': '%s bytes, every byte symbolic (binary safe, empty included)' % lens1, 'write shapes': W, 'reads': ['GET', 'GETSET', 'MGET (incl. missing key)'],
                  'strategies': ['disabled', 'set_get_only', 'allow_all'], 'observer commands': [c[0] for c in OBSERVERS],
                  'reply kinds passed through': ['nil', 'error', 'integer', 'simple', 'nil array', 'mixed array', 'bulk that is not a compressed frame'],
                  'keys': 'concrete (three keys of one slot via a hash tag, one missing key, one key of another slot)'}
    ctx.assumptions += ['zstd::encode_all / decode_all are modelled as an injective pair (frame = magic number ++ payload; bytes without the magic number are rejected); the real library\'s own round trip is trusted',
                        'stand-ins (listed under models_used as stub:*): MetaManager::send / ensure_keys_imported -> storing Redis stand-in + real DecompressCommitHandler::handle_task; compression config source (CompressionStrategyConfig)',
                        'the oracle list of "commands that observe the stored bytes" is the string group of the Redis command reference minus the whole-value commands named by the property']
    ctx.not_explored += ['values longer than the bound', 'zstd itself (FFI)', 'delivery of the strategy to every proxy (metadata distribution: C02 / C17)',
                         'scripts (EVAL) and non-string commands (DUMP, SORT ... GET) that could observe the stored bytes',
                         'MGET/MSET with active redirection (sub-commands forwarded to other proxies)']
    ctx.run_parallel(jobs, worker)
