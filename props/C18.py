"""C18 - failover needs a quorum of fresh, distinct reports.
Sequences of the real add_failure / get_failures / cleanup_failures / add_proxy / remove_proxy / replace_failed_proxy
calls are executed with Utc::now a symbolic non-decreasing clock, symbolic ttl and quorum; a ghost multiset of
(address, reporter, report time) is the specification the results are compared with by the solver."""
from props.scenarios import *
from mirsym.models.misc import t_sub, t_lt

ADDRS = ['h0:7000', 'h1:7000', 'x9:1']          # free proxy, cluster member, never registered
REPORTERS = ['r1', 'r2', 'r3']


def scenario(ctx, job):
    def run(e):
        b = Broker(e); b.new_store(); b.add_proxies([2, 2])
        r = b.add_cluster(4, 'c1'); assert r.variant == 0
        members = cluster_proxies(b)
        free = [a for a in b.proxy_addresses() if a not in members]
        A = [free[0], members[0], 'x9:1']
        ttl = z3.BitVec('ttl_s', 64); e.assume(z3.ULT(ttl, 1 << 32))
        quorum = z3.BitVec('quorum', 64); e.assume(z3.And(z3.UGE(quorum, 1), z3.ULE(quorum, 4)))
        ghost = []            # (addr, reporter, sec)
        registered = set(b.proxy_addresses()); failed = set()
        def clock(): return e.notes['clock_vars'][-1]
        def age_lt(sec, now, strict):
            d = t_sub(e, Struct('Instant', [now[0], now[1]]), Struct('Instant', [sec, 0]), 'Duration')
            return t_lt(e, d, Struct('Duration', [ttl, 0]), strict)
        ops = 0
        for step in range(job['depth']):
            menu = [('add_failure', A[0], rp) for rp in REPORTERS[:job['reporters']]] + [('add_failure', A[1], 'r1'), ('add_failure', A[2], 'r1')]
            if job.get('full'): menu = [('add_failure', a, rp) for a in A for rp in REPORTERS[:job['reporters']]]
            menu += [('get_failures',), ('cleanup_failures',), ('add_proxy', A[0]), ('remove_proxy', A[0]), ('replace_failed_proxy', A[0])]
            op = menu[job['first']] if (step == 0 and job.get('first') is not None) else menu[e.choose(len(menu), 'op')]
            ops += 1
            items = []
            hist = lambda m: {'history': e.notes.get('hist', []) + [op], 'ttl_s': concretize(ttl, m), 'quorum': concretize(quorum, m),
                              'clock': [(concretize(s, m), concretize(ms, m)) for s, ms in e.notes.get('clock_vars', [])],
                              'ghost': [(a, rp, concretize(t, m)) for a, rp, t in ghost]}
            e.notes.setdefault('hist', []).append(op)
            if op[0] == 'add_failure':
                g0 = b.global_epoch_cell().v
                r = b.call('add_failure', RStr(op[1]), RStr(op[2]))
                dup = any(a == op[1] and rp == op[2] for a, rp, t in ghost)
                items.append(('duplicate-report-returns-false', 'C18/duplicate-report-accepted', bool(r) == (not dup), hist))
                if not dup: ghost.append((op[1], op[2], clock()[0]))
                # the stored report times are exactly the ghost's (a duplicate report must not refresh its time)
                fl = b.fld(b.mstore(), 'MetaStore', 'failures').v
                for a, rp, t in ghost:
                    val = None
                    for k, c in fl.items:
                        if sval(k) == a:
                            for k2, c2 in c.v.items:
                                if sval(k2) == rp: val = c2.v
                    items.append(('report-time-kept', 'C18/report-time-changed-or-lost', (val is not None) and (bv(val) == bv(t)), hist))
            elif op[0] in ('get_failures', 'cleanup_failures'):
                if op[0] == 'get_failures':
                    res = b.call('get_failures', Struct('Duration', [ttl, 0]), quorum)
                    got = [sval(x.v) for x in res.cells]
                else:
                    b.call('cleanup_failures', Struct('Duration', [ttl, 0]), quorum); got = None
                now = clock()
                for a in A:
                    strict = count_true([age_lt(t, now, True) for aa, rp, t in ghost if aa == a])
                    loose = count_true([age_lt(t, now, False) for aa, rp, t in ghost if aa == a])
                    q16 = z3.Extract(15, 0, quorum)
                    if got is not None:
                        if a in got:
                            items.append(('listed-only-with-fresh-quorum-and-registered', 'C18/listed-without-quorum-or-unregistered', zand([a in registered, z3.UGE(loose, q16)]), lambda m, a=a: dict(hist(m), address=a, listed=True)))
                        else:
                            items.append(('listed-when-fresh-quorum-and-registered', 'C18/not-listed-despite-quorum', znot(zand([a in registered, z3.UGE(strict, q16)])), lambda m, a=a: dict(hist(m), address=a, listed=False)))
                # expired reports are discarded, fresh ones kept
                fl = b.fld(b.mstore(), 'MetaStore', 'failures').v
                keep = []
                for a, rp, t in ghost:
                    present = any(sval(k) == a and any(sval(k2) == rp for k2, _ in c.v.items) for k, c in fl.items)
                    if present: items.append(('kept-report-is-not-expired', 'C18/expired-report-kept', age_lt(t, now, False), hist)); keep.append((a, rp, t))
                    else: items.append(('discarded-report-is-not-fresh', 'C18/fresh-report-discarded', znot(age_lt(t, now, True)), hist))
                ghost[:] = keep
            elif op[0] == 'add_proxy':
                g0 = b.global_epoch_cell().v
                host, port = op[1].split(':')
                r = b.call('add_proxy', RStr(op[1]), Struct('[]', [RStr('%s:%d' % (host, int(port) + 1000)), RStr('%s:%d' % (host, int(port) + 2000))]), NONE(), NONE())
                # (re-)registration clears the reports and the failed mark whether or not the address existed
                changed = (op[1] not in registered) or (op[1] in failed) or any(g[0] == op[1] for g in ghost)
                registered.add(op[1]); failed.discard(op[1]); ghost[:] = [g for g in ghost if g[0] != op[1]]
                if changed:
                    items.append(('reregistration-bumps-epoch', 'C18/reregistration-without-epoch-bump', z3.UGT(bv(b.global_epoch_cell().v), bv(g0)), hist))
            elif op[0] == 'remove_proxy':
                r = b.call('remove_proxy', RStr(op[1]))
                if r.variant == 0:
                    registered.discard(op[1]); failed.discard(op[1]); ghost[:] = [g for g in ghost if g[0] != op[1]]
            elif op[0] == 'replace_failed_proxy':
                r = b.call('replace_failed_proxy', RStr(op[1]), 0)
                if r.variant == 0 and op[1] in registered:
                    failed.add(op[1]); ghost[:] = [g for g in ghost if g[0] != op[1]]
            # state agreement: failures map == ghost, failed set == spec
            fl = b.fld(b.mstore(), 'MetaStore', 'failures').v
            stored = sorted((sval(k), sval(k2)) for k, c in fl.items for k2, _ in c.v.items)
            items.append(('reports-match-specification', 'C18/report-set-differs', stored == sorted((a, rp) for a, rp, t in ghost), lambda m: dict(hist(m), stored=stored)))
            fp = sorted(sval(x.v) for x in b.call('get_failed_proxies').cells)
            items.append(('failed-proxies-match-specification', 'C18/failed-proxy-list-differs', fp == sorted(failed), lambda m: dict(hist(m), failed_proxies=fp, expected=sorted(failed))))
            if ctx.fresh_point(e): ctx.require_all(e, items)
        return ops
    name = 'failures depth=%d reporters=%d first=%s' % (job['depth'], job['reporters'], job.get('first'))
    res = ctx.explore(name, run, time_limit=job.get('time_limit'))
    ctx.ops += sum(p.value or 0 for p in res if p.kind == 'ok')
    ctx.sample({'scenario': name, 'paths': len(res)})


def run(ctx):
    quick = ctx.tier == 'quick'
    jobs = [{'depth': 3, 'reporters': 2}] if quick else [{'depth': 4, 'reporters': 2}, {'depth': 3, 'reporters': 3, 'full': True}]
    jobs = [dict(j, first=k) for j in jobs for k in range(9 if not j.get('full') else 14)]
    ctx.bounds = {'calls per history': jobs[0]['depth'], 'reporters': jobs[0]['reporters'], 'addresses': 'free proxy, member, unregistered',
                  'symbolic': 'clock (seconds, milliseconds) of every call (non-decreasing), ttl seconds < 2^32, quorum 1..4'}
    ctx.assumptions += ['a report whose age equals the ttl exactly may be counted or not (boundary unspecified by the statement)', 'report times have the one-second resolution the broker stores']
    ctx.not_explored += ['HTTP parameter parsing in service.rs', "the coordinator's choice of reporter ids"]
    ctx.run_parallel(jobs, scenario)
