"""C06 - failover promotes the replica without changing slot ownership.
From symbolic balanced states (tile boundaries, epochs symbolic; role positions of all chunks and the victim are
enumerated), optionally with a resize migration in flight, the real replace_failed_proxy is run (with and without a
spare proxy, and twice); the cluster views before and after are compared for a symbolic slot."""
from props.scenarios import *
from props.broker import _check_views


def owners(dc, tags):
    """[(node record, [ranges])] of master nodes for slot ranges with tag in tags"""
    out = []
    for n in dc['nodes']:
        rs = []
        for sr in n['slots']:
            if sr['tag'] in tags: rs += sr['ranges']
        out.append((n, rs))
    return out


def node_by_addr(dc, addr):
    for n in dc['nodes']:
        if n['address'] == addr: return n
    return None


def failover_items(b, pre, post, victim, epoch_before, replaced):
    items = []
    s = z3.BitVec('slot', 64)
    def wit(m): return {'victim': victim, 'slot': m.eval(s, model_completion=True).as_long(), 'replaced_by_spare': replaced,
                        'before': [(n['address'], n['proxy'], n['role'], [(x['tag'], [(concretize(a, m), concretize(c, m)) for a, c in x['ranges']], concretize(x['meta']['epoch'], m) if x['meta'] else None) for x in n['slots']]) for n in pre['nodes']],
                        'after': [(n['address'], n['proxy'], n['role'], [(x['tag'], [(concretize(a, m), concretize(c, m)) for a, c in x['ranges']], concretize(x['meta']['epoch'], m) if x['meta'] else None) for x in n['slots']]) for n in post['nodes']]}
    # (i) ownership moves to the replica peer iff the owner was on the failed proxy
    for tags, what in ((('None', 'Migrating'), 'owner'), (('Importing',), 'importer')):
        after = {n['address']: rs for n, rs in owners(post, tags)}
        for n, rs in owners(pre, tags):
            if not rs or n['role'] != 'Master': continue
            if n['proxy'] == victim:
                exp = n['peers'][0][0] if n['peers'] else None
            else: exp = n['address']
            f = z3.Implies(zbool(in_ranges(s, rs)), zbool(in_ranges(s, after.get(exp, [])))) if exp in after else False
            items.append(('%s-moves-to-replica-peer-only' % what, 'C06/%s-changed-wrongly' % what, f, wit))
    # (ii) roles and peers
    for n in post['nodes']:
        if n['proxy'] == victim:
            items.append(('failed-proxy-has-no-master', 'C06/master-left-on-failed-proxy', n['role'] != 'Master', wit))
        if n['role'] == 'Master':
            ok = len(n['peers']) == 1
            if ok:
                pn = node_by_addr(post, n['peers'][0][0])
                ok = pn is not None and pn['role'] == 'Replica' and pn['proxy'] == n['peers'][0][1] and pn['proxy'] != n['proxy'] and pn['peers'] == [(n['address'], n['proxy'])]
            items.append(('master-has-one-mutual-replica-on-other-proxy', 'C06/peer-records-inconsistent', ok, wit))
    # (iii) migrations whose addresses change are re-issued with a newer epoch; the others keep their meta
    def metas(dc):
        out = []
        for n in dc['nodes']:
            for sr in n['slots']:
                if sr['tag'] in ('Migrating', 'Importing'): out.append((sr['tag'], sr['ranges'], sr['meta']))
        return out
    pm, qm = metas(pre), metas(post)
    for tag, ranges, meta in pm:
        match = [(t2, r2, m2) for t2, r2, m2 in qm if t2 == tag and len(r2) == len(ranges)]
        # ranges are not touched by a failover: match by position in the view (same order of nodes and slots)
        cands = [m2 for t2, r2, m2 in match if ranges_eq(ranges, r2) is not False]
        if not cands:
            items.append(('migration-survives-failover', 'C06/migration-lost', False, wit)); continue
        for m2 in cands:
            same_ranges = ranges_eq(ranges, [r for t2, r, mm in match if mm is m2][0])
            addr_same = all(sval(meta[k]) == sval(m2[k]) for k in ('src_proxy_address', 'src_node_address', 'dst_proxy_address', 'dst_node_address'))
            if addr_same:
                pass   # no requirement: a re-issue with a newer epoch is allowed, keeping the epoch too
            else:
                items.append(('readdressed-migration-gets-newer-epoch', 'C06/readdressed-migration-keeps-old-epoch',
                              z3.Implies(zbool(same_ranges), z3.UGT(bv(m2['epoch']), bv(epoch_before))), wit))
    return items


def scenario(ctx, job):
    limits = (0,)
    def run(e):
        b = Broker(e); b.new_store()
        chunks_from, chunks_to = job['from'], job['to']
        need = max(chunks_from, chunks_to) * 2 + (1 if job['spare'] else 0)
        per_host = (need + 1) // 2
        b.add_proxies([per_host, need - per_host])
        r = b.add_cluster(4 * chunks_from); assert r.variant == 0, r
        ep = b.symbolise_epochs(); b.symbolise_stable(job['shape'])
        if job.get('roles'): b.symbolise_roles()
        b.mark_initial()
        if chunks_to > chunks_from:
            b.call('auto_add_nodes', RStr('c1'), 4 * (chunks_to - chunks_from)); b.mark_initial(); b.call('migrate_slots', RStr('c1'))
        elif chunks_to < chunks_from:
            b.call('migrate_slots_to_scale_down', RStr('c1'), 4 * chunks_to)
        if job.get('roles_after'): b.symbolise_roles()
        members = cluster_proxies(b)
        victim = members[e.choose(len(members), 'victim')]
        pre_view = b.view_cluster(0)
        pre = b.dec_cluster(pre_view)
        epoch_before = pre['epoch']
        r = b.call('replace_failed_proxy', RStr(victim), 0)
        replaced = r.variant == 0 and r.f[0].v.variant == 1
        def checks():
            post = b.dec_cluster(b.view_cluster(0))
            def rp(m): return b.replay_spec(m, ('failover',), (0,))
            items = failover_items(b, pre, post, victim, epoch_before, replaced)
            ok = ctx.require_all(e, items, assuming=[z3.ULT(z3.BitVec('slot', 64), SLOT_NUM)], replay=rp)
            ok &= _check_views(b, ctx, e, (0, 1), 'after failover', None, lambda m: b.replay_spec(m, ('partition',), (0, 1)))
            return ok
        e.sub_explore(checks)
        # (iv) a repeated failover call changes neither roles nor migration epochs
        mid = b.dec_cluster(b.view_cluster(0))
        b.call('replace_failed_proxy', RStr(victim), 0)
        def checks2():
            post2 = b.dec_cluster(b.view_cluster(0))
            items = []
            for n1, n2 in zip(mid['nodes'], post2['nodes']):
                items.append(('second-call-keeps-roles', 'C06/second-failover-changes-roles', (n1['address'], n1['role']) == (n2['address'], n2['role']), None))
                for s1, s2 in zip(n1['slots'], n2['slots']):
                    if s1['meta'] and s2['meta']:
                        items.append(('second-call-keeps-migration-epochs', 'C06/second-failover-reissues-migrations', bv(s1['meta']['epoch']) == bv(s2['meta']['epoch']), None))
            return ctx.require_all(e, items)
        e.sub_explore(checks2)
        return 3
    name = 'failover %d->%d shape=%s spare=%s roles=%s' % (job['from'], job['to'], job['shape'], job['spare'], job.get('roles'))
    res = ctx.explore(name, run, time_limit=job.get('time_limit'))
    ctx.ops += sum(p.value or 0 for p in res if p.kind == 'ok')
    ctx.sample({'scenario': name, 'paths': len(res)})


def rebalance_scenario(ctx, job):
    """after a failover whose failed proxy is still down (no spare / ordered-proxy mode, where only the failure report
    records it) a rebalance must not hand masters back to that proxy, and must not change who owns a slot"""
    def run(e):
        b = Broker(e); b.new_store(ordered=job['ordered'])
        n = job['chunks']
        b.add_proxies([n, n])                       # no spare proxy: the failed one cannot be replaced
        r = b.add_cluster(4 * n); assert r.variant == 0, r
        b.symbolise_epochs()
        members = cluster_proxies(b)
        victim = members[e.choose(len(members), 'victim')]
        b.mark_initial()
        if job['report']: b.call('add_failure', RStr(victim), RStr('reporter1'))
        b.call('replace_failed_proxy', RStr(victim), 0)
        mid = b.dec_cluster(b.view_cluster(0))
        r = b.call('balance_masters', RStr('c1'))
        post = b.dec_cluster(b.view_cluster(0))
        s = z3.BitVec('slot', 64)
        def wit(m): return {'ordered_proxy_mode': job['ordered'], 'failure_reported': job['report'], 'victim': victim, 'balance_result': repr(r)[:60],
                            'before_balance': [(x['address'], x['proxy'], x['role']) for x in mid['nodes']], 'after_balance': [(x['address'], x['proxy'], x['role']) for x in post['nodes']]}
        items = []
        for x in post['nodes']:
            if x['proxy'] == victim:
                items.append(('failed-proxy-has-no-master-after-rebalance', 'C06/rebalance-returns-masters-to-failed-proxy', x['role'] != 'Master', wit))
        # ownership of a chunk that contains the failed proxy is untouched by the rebalance
        after = {x['address']: rs for x, rs in owners(post, ('None', 'Migrating'))}
        for x, rs in owners(mid, ('None', 'Migrating')):
            if not rs: continue
            chunk_has_victim = x['proxy'] == victim or any(p[1] == victim for p in x['peers'])
            if chunk_has_victim:
                items.append(('owner-in-failed-chunk-unchanged', 'C06/rebalance-moves-slots-of-failed-chunk', z3.Implies(zbool(in_ranges(s, rs)), zbool(in_ranges(s, after.get(x['address'], [])))), wit))
        def rp(m):
            r = b.replay_spec(m, ('partition', 'rebalance'), (0,)); r['spec']['failed_proxy'] = victim
            return r
        ctx.require_all(e, items, assuming=[z3.ULT(s, SLOT_NUM)], replay=rp)
        _check_views(b, ctx, e, (0,), 'after rebalance', None, rp)
        return 3
    res = ctx.explore('rebalance after failover ordered=%s report=%s chunks=%d' % (job['ordered'], job['report'], job['chunks']), run)
    ctx.ops += sum(p.value or 0 for p in res if p.kind == 'ok')


def worker(ctx, job):
    if job.get('kind') == 'rebalance': rebalance_scenario(ctx, job)
    else: scenario(ctx, job)


def run(ctx):
    quick = ctx.tier == 'quick'
    jobs = [{'kind': 'rebalance', 'ordered': o, 'report': rep, 'chunks': c} for o in (False, True) for rep in (True, False) for c in ((1, 2) if not quick else (1,)) if (rep or not o)]
    for (a, bb) in ([(1, 1), (1, 2), (2, 1)] if quick else [(1, 1), (2, 2), (1, 2), (2, 1), (2, 3), (3, 2), (1, 3)]):
        shapes = [list(range(2 * a))] if quick else [list(range(2 * a))] + [s for s in owner_shapes(2 * a, 2, 2 * a + 1) if len(s) == 2 * a + 1][:3]
        for sh in shapes:
            for spare in (False, True):
                jobs.append({'from': a, 'to': bb, 'shape': sh, 'spare': spare, 'roles': True})
                if a != bb and (not quick):
                    jobs.append({'from': a, 'to': bb, 'shape': sh, 'spare': spare, 'roles': False, 'roles_after': True})
    ctx.bounds = {'slot_num': SLOT_NUM, 'resize in flight (chunks)': sorted(set((j['from'], j['to']) for j in jobs if 'from' in j)), 'jobs': len(jobs), 'rebalance after failover': 'default and ordered-proxy mode, with / without a pending failure report, 1-2 chunks',
                  'symbolic': 'tile boundaries, epochs, probe slot', 'enumerated': 'role position of every chunk, failing proxy, spare available or not'}
    ctx.assumptions += ['the chunk partner of the failing proxy is healthy (one failover at a time; the pre-state may already contain earlier role changes)',
                        'a re-issue (newer migration epoch) is required exactly for migrations whose addresses change']
    ctx.not_explored += ['both proxies of one chunk failed', 'more than 3 chunks']
    ctx.run_parallel(jobs, worker)
