"""C16 - no client input can crash, abort or wedge a proxy (decided in part).
Monitors on the symbolic execution of the real parsers: (a) no feasible panic path (assert / expect / unwrap /
overflow / index / slice), (b) every allocation request (Vec::with_capacity / reserve / vec![x; n]) is bounded by the
number of input bytes (tokens), (c) no loop whose trip count stays solver-controlled beyond the input size.
Inputs: fully symbolic byte buffers through parse_resp, and UMCTL token vectors with symbolic (full-range) numbers
through ProxyClusterMeta::parse, MigrationTaskMeta / SlotRange / RangeList parsers and parse_repl_meta."""
from props.resp import *
from props.scenarios import strmap


def alloc_items(e, limit, wit, what, ctx=None, replay=None):
    items = []
    for ev in e.events:
        if ev[0] == 'alloc':
            n = ev[2]
            if ctx is not None and is_sym(n):
                # prefer a witness with a request far beyond the input size (convincing natively) when one exists
                sat = False
                for thr in (1 << 62, 1 << 40, 1000 * limit):
                    sat, m = e.check_sat(z3.UGT(bv(n), thr))
                    if sat: break
                if sat:
                    ctx.obligations += 1
                    w = dict(wit(m), request=concretize(n, m), call=ev[1], bound=limit); w['inputs'] = ctx._model_inputs(m)
                    ctx.violations.append({'clause': 'allocation-bounded-by-input', 'key': 'C16/allocation-not-bounded-by-input/' + ev[1].split('::')[0] + ':' + what,
                                           'witness': w, 'replay': replay(m) if replay else None})
                    continue
            items.append(('allocation-bounded-by-input', 'C16/allocation-not-bounded-by-input/' + ev[1].split('::')[0] + ':' + what,
                          z3.ULE(bv(n), limit) if is_sym(n) else n <= limit, lambda m, n=n, ev=ev: dict(wit(m), request=concretize(n, m), call=ev[1], bound=limit)))
    return items


def parser_buffers(ctx, job):
    N = job['n']
    def setup(e): e.loop_budget = 4 * N + 64
    def run(e):
        h = RespH(e); cells = sym_buffer(e, N)
        e.notes['replay'] = None
        r = h.parse(cells)
        def wit(m): return {'input': show(bytes_of(cells, m)), 'bytes': bytes_of(cells, m)}
        rp = lambda m: {'kind': 'rust-test', 'filter': 'verif_replay_alloc', 'spec': {'bytes': bytes_of(cells, m)}}
        items = alloc_items(e, N, wit, 'parse_array', ctx, rp)
        if items: ctx.require_all(e, items, replay=rp)
        return 1
    res = ctx.explore('parse_resp monitors on %d symbolic bytes' % N, run, engine_setup=setup, budget_violation='C16/loop-not-bounded-by-input')
    ctx.ops += len(res)


def S(x): return RStr(x)


def num(name, w=64):
    v = z3.BitVec(name, w)
    return RStr((NumStr(v, w),)), v


def token_iter(tokens):
    return Ref(Cell(PyIter(list(tokens))))


def tokens_scenario(ctx, job):
    """UMCTL SETCLUSTER token vectors: structure from a template, every number symbolic, truncated at any position"""
    def setup(e): e.loop_budget = 200
    def run(e):
        toks = []; syms = []
        def n(name):
            t, v = num(name); syms.append(v); return t
        tpl = job['template']
        for t in tpl:
            if t == '#': toks.append(n('n%d' % len(syms)))
            elif t == 'R':
                a = z3.BitVec('ra%d' % len(syms), 64); b = z3.BitVec('rb%d' % len(syms), 64); syms += [a, b]
                toks.append(RStr((NumStr(a, 64), '-', NumStr(b, 64))))
            else: toks.append(S(t))
        cut = e.choose(len(toks) + 1, 'truncate')
        toks = toks[:cut]
        def wit(m): return {'tokens': [concretize(t, m) for t in toks], 'entry': job['entry']}
        e.notes['replay_fn'] = lambda m: {'kind': 'rust-test', 'filter': 'verif_replay_tokens', 'spec': {'tokens': [concretize(t, m) for t in toks], 'entry': job['entry']}}
        it = token_iter(toks)
        if job['entry'] == 'setcluster':
            r = e.run_func(e.find_fn('ProxyClusterMeta', 'parse'), [it])
        elif job['entry'] == 'taskmeta':
            r = e.run_func(e.find_fn('MigrationTaskMeta', 'from_strings'), [it])
        elif job['entry'] == 'replmeta':
            r = e.call('replicator::parse_repl_meta_from_tokens' if False else 'ReplicatorMeta::from_strings', [it]) if False else None
        items = alloc_items(e, len(toks), wit, job['entry'], ctx, e.notes['replay_fn'])
        if items: ctx.require_all(e, items, replay=e.notes['replay_fn'])
        return 1
    def rp_panic(p): return None
    res = ctx.explore('tokens %s %s' % (job['entry'], ' '.join(job['template'])[:80]), run, engine_setup=setup, budget_violation='C16/loop-not-bounded-by-input')
    ctx.ops += len(res)
    for v in ctx.violations:
        if v.get('scenario', '').startswith('tokens') and v['replay'] is None and 'inputs' in v['witness']:
            pass


def worker(ctx, job):
    {'buf': parser_buffers, 'tok': tokens_scenario}[job['kind']](ctx, job)


SETCLUSTER = [
    ['v2', '#', 'NOFLAG', 'mydb', '127.0.0.1:7000', '#', 'R', 'PEER', '127.0.0.1:7001', '#', 'R', 'R'],
    ['v2', '#', 'FORCE', 'mydb', '127.0.0.1:7000', 'MIGRATING', '#', 'R', '#', '127.0.0.1:7000', '127.0.0.1:6000', '127.0.0.1:7001', '127.0.0.1:6001'],
    ['v2', '#', 'NOFLAG', 'mydb', '127.0.0.1:7000', 'IMPORTING', '#', 'R', 'R', '#', 'a:1', 'b:1', 'c:1', 'd:1', 'PEER', 'c:1', '#', 'R'],
    ['v2', '#', 'NOFLAG', 'mydb', '127.0.0.1:7000', '#', 'R', 'CONFIG', 'mydb', 'compression_strategy', 'set_get_only'],
]
TASKMETA = [['mydb', 'MIGRATING', '#', 'R', 'R', '#', 'a:1', 'b:1', 'c:1', 'd:1'], ['mydb', '#', 'R'], ['mydb', 'IMPORTING', '#', 'R', '#', 'a:1', 'b:1', 'c:1', 'd:1']]


def run(ctx):
    quick = ctx.tier == 'quick'
    N = 8 if quick else 11
    jobs = [{'kind': 'buf', 'n': n} for n in range(1, N + 1)]
    for t in SETCLUSTER: jobs.append({'kind': 'tok', 'entry': 'setcluster', 'template': t})
    for t in TASKMETA: jobs.append({'kind': 'tok', 'entry': 'taskmeta', 'template': t})
    ctx.bounds = {'symbolic buffer length': '1..%d bytes' % N, 'token templates': len(SETCLUSTER) + len(TASKMETA),
                  'numbers in tokens': 'symbolic 64-bit decimal text (counts, epochs, range ends), truncation at every position'}
    ctx.assumptions += ['memory bound = allocation requests (capacity arguments) <= number of input bytes / tokens; Rust allocation of pushed elements is proportional to parsed input by construction',
                        'arithmetic-overflow panics exist only in builds with overflow checks (debug profile); they are reported with that note']
    ctx.not_explored += ['RSS / wall-clock measurement', 'stack exhaustion by deeply nested arrays (recursion depth = input/4; no stack model)',
                         'session loop, codec framing, liveness of other connections (async runtime)', 'arbitrary (non-numeric) hostile text inside UMCTL tokens',
                         'command handlers behind async fn (EVAL numkeys loop 3..3+numkeys: see DESIGN.md F3, not decided here)']
    ctx.run_parallel(jobs, worker)
