"""C16 - no client input can crash, abort or wedge a proxy (decided in part).
Monitors on the symbolic execution of the real parsers: (a) no feasible panic path (assert / expect / unwrap /
overflow / index / slice), (b) every allocation request (Vec::with_capacity / reserve / vec![x; n]) is bounded by the
number of input bytes (tokens), (c) no loop whose trip count stays solver-controlled beyond the input size.
Inputs: fully symbolic byte buffers through parse_resp, and UMCTL token vectors with symbolic (full-range) numbers
through ProxyClusterMeta::parse, MigrationTaskMeta / SlotRange / RangeList parsers and parse_repl_meta."""
from props.resp import *
from props.scenarios import strmap


def alloc_items(e, limit, wit, what, ctx=None, replay=None):
    items = []
    for ev in e.events:
        if ev[0] == 'alloc':
            n = ev[2]
            if ctx is not None and is_sym(n):
                # prefer a witness with a request far beyond the input size (convincing natively) when one exists
                sat = False
                for thr in (1 << 62, 1 << 40, 1000 * limit):
                    sat, m = e.check_sat(z3.UGT(bv(n), thr))
                    if sat: break
                if sat:
                    ctx.obligations += 1
                    w = dict(wit(m), request=concretize(n, m), call=ev[1], bound=limit); w['inputs'] = ctx._model_inputs(m)
                    ctx.violations.append({'clause': 'allocation-bounded-by-input', 'key': 'C16/allocation-not-bounded-by-input/' + ev[1].split('::')[0] + ':' + what,
                                           'witness': w, 'replay': replay(m) if replay else None})
                    continue
            items.append(('allocation-bounded-by-input', 'C16/allocation-not-bounded-by-input/' + ev[1].split('::')[0] + ':' + what,
                          z3.ULE(bv(n), limit) if is_sym(n) else n <= limit, lambda m, n=n, ev=ev: dict(wit(m), request=concretize(n, m), call=ev[1], bound=limit)))
    return items


def parser_buffers(ctx, job):
    N = job['n']
    def setup(e): e.loop_budget = 4 * N + 64
    def run(e):
        h = RespH(e); cells = sym_buffer(e, N)
        e.notes['replay'] = None
        r = h.parse(cells)
        def wit(m): return {'input': show(bytes_of(cells, m)), 'bytes': bytes_of(cells, m)}
        rp = lambda m: {'kind': 'rust-test', 'filter': 'verif_replay_alloc', 'spec': {'bytes': bytes_of(cells, m)}}
        items = alloc_items(e, N, wit, 'parse_array', ctx, rp)
        if items: ctx.require_all(e, items, replay=rp)
        return 1
    res = ctx.explore('parse_resp monitors on %d symbolic bytes' % N, run, engine_setup=setup, budget_violation='C16/loop-not-bounded-by-input')
    ctx.ops += len(res)


def S(x): return RStr(x)


def num(name, w=64):
    v = z3.BitVec(name, w)
    return RStr((NumStr(v, w),)), v


def token_iter(tokens):
    return Ref(Cell(PyIter(list(tokens))))


def tokens_scenario(ctx, job):
    """UMCTL SETCLUSTER token vectors: structure from a template, every number symbolic, truncated at any position"""
    def setup(e): e.loop_budget = 200
    def run(e):
        toks = []; syms = []
        def n(name):
            t, v = num(name); syms.append(v); return t
        tpl = job['template']
        for t in tpl:
            if t == '#': toks.append(n('n%d' % len(syms)))
            elif t == 'R':
                a = z3.BitVec('ra%d' % len(syms), 64); b = z3.BitVec('rb%d' % len(syms), 64); syms += [a, b]
                toks.append(RStr((NumStr(a, 64), '-', NumStr(b, 64))))
            else: toks.append(S(t))
        cut = e.choose(len(toks) + 1, 'truncate')
        toks = toks[:cut]
        def wit(m): return {'tokens': [concretize(t, m) for t in toks], 'entry': job['entry']}
        e.notes['replay_fn'] = lambda m: {'kind': 'rust-test', 'filter': 'verif_replay_tokens', 'spec': {'tokens': [concretize(t, m) for t in toks], 'entry': job['entry']}}
        it = token_iter(toks)
        if job['entry'] == 'setcluster':
            r = e.run_func(e.find_fn('ProxyClusterMeta', 'parse'), [it])
        elif job['entry'] == 'taskmeta':
            r = e.run_func(e.find_fn('MigrationTaskMeta', 'from_strings'), [it])
        elif job['entry'] == 'replmeta':
            r = e.call('replicator::parse_repl_meta_from_tokens' if False else 'ReplicatorMeta::from_strings', [it]) if False else None
        items = alloc_items(e, len(toks), wit, job['entry'], ctx, e.notes['replay_fn'])
        if items: ctx.require_all(e, items, replay=e.notes['replay_fn'])
        return 1
    def rp_panic(p): return None
    res = ctx.explore('tokens %s %s' % (job['entry'], ' '.join(job['template'])[:80]), run, engine_setup=setup, budget_violation='C16/loop-not-bounded-by-input')
    ctx.ops += len(res)
    for v in ctx.violations:
        if v.get('scenario', '').startswith('tokens') and v['replay'] is None and 'inputs' in v['witness']:
            pass


# ---------------------------------------------------------------- command layer (real ForwardHandler::handle_cmd_ctx)
def numtext(name):
    """a command element holding the canonical decimal text of a full-range symbolic u64"""
    v = z3.BitVec(name, 64)
    return RVec([], text=RStr((NumStr(v, 64),))), v


class AnyRedis:
    """backend stand-in for the sweep: answers every command (keys may be symbolic)"""
    def __init__(self): self.log = []
    def execute(self, e, elems):
        from props.executor import simple, integer, as_bytes
        self.log.append(elems)
        name = (as_bytes(elems[0]) or b'').upper()
        if name in (b'DEL', b'EXISTS', b'SETNX', b'MSETNX'): return integer(e, 1)
        return simple(e, b'OK')


def handler_request(ctx, job):
    """one request through the real handle_cmd_ctx (async handlers polled to completion): no panic, every loop bounded
    by the request, and the request is answered"""
    from props import executor as X
    def setup(e): e.loop_budget = 64; e.sleep_budget = 64
    def run(e):
        h, mgr, redis = X.make_handler(e, 'Disabled', AnyRedis(), active_redirection=job.get('active', False))
        elems = []; syms = {}
        for i, t in enumerate(job['req']):
            if t == '#':
                el, v = numtext('n%d' % i); syms['n%d' % i] = v
                elems.append(el)
            elif isinstance(t, tuple) and t[0] == 'sym':
                elems.append([z3.BitVec('a%d_%d' % (i, k), 8) for k in range(t[1])])
            else: elems.append(list(t))
        def concrete(m):
            out = []
            for el in elems:
                if isinstance(el, RVec): out.append(list(str(concretize(un(el.text).s[0].v, m)).encode()))
                else: out.append([concretize(b, m) for b in el])
            return out
        e.notes['replay_fn'] = lambda m: {'kind': 'rust-test', 'filter': 'verif_replay_request_bounded', 'spec': {'cmd': concrete(m), 'max_ms': 5000, 'active': bool(job.get('active', False))}}
        ctxv, rcv = X.make_cmd_ctx(e, [el if not isinstance(el, RVec) else [] for el in elems])
        # install the text-backed number elements into the request (bytes = canonical decimal text of a symbolic number)
        if any(isinstance(el, RVec) for el in elems):
            pkt = X.data_packet(e, X.array(e, [X.bulk(e, el) if not isinstance(el, RVec) else
                                                Enum('Resp', e.src.variant_index('Resp', 'Bulk'), [Enum('BulkStr', e.src.variant_index('BulkStr', 'Str'), [el])]) for el in elems]))
            cmd = e.run_func(e.find_fn('Command', 'new'), [Ref(Cell(pkt), 'Box')])
            pair = e.call('command::new_command_pair', [Ref(Cell(cmd))])
            ctxv = e.run_func(e.find_fn('CmdCtx', 'new'), [cmd, pair.f[0].v, 1, False]); rcv = pair.f[1].v
        auth = Struct('Atomic', [True])
        fut = e.run_func(e.find_fn('ForwardHandler', 'handle_cmd_ctx', 'CmdCtxHandler'), [Ref(Cell(h)), ctxv, rcv, Ref(Cell(auth))])
        r = e.block_on(Ref(Cell(fut)))
        rr = X.reply_resp(e, r)
        ctx.require(e, 'request-answered', rr[0] == 'ok' or rr[1] in ('Canceled', 'Dropped', 'InnerError', 'Io', 'BackendError', 'UnexpectedResponse'), key='C16/request-not-answered/' + job['name'])
        return 1
    res = ctx.explore('handler %s' % job['name'], run, engine_setup=setup, budget_violation='C16/loop-not-bounded-by-input', max_paths=4000)
    ctx.ops += len(res)


def command_names():
    import re, os
    from vlib import overlay
    src = open(os.path.join(overlay.CRATE, 'src/proxy/command.rs')).read()
    data = sorted(set(re.findall(r'b"([A-Z]+)" => DataCmdType::', src)))
    return data


def handler_jobs(quick):
    jobs = []
    S2 = ('sym', 2)
    for name in ('EVAL', 'evalsha'):
        jobs.append({'kind': 'handler', 'name': name + ' numkeys=<any u64> 2 keys', 'req': [name.encode(), b'return 1', '#', b'{t}a', b'{t}b']})
        jobs.append({'kind': 'handler', 'name': name + ' numkeys=<any u64> 1 key 1 arg', 'req': [name.encode(), b'return 1', '#', S2, S2]})
        jobs.append({'kind': 'handler', 'name': name + ' numkeys=<any u64> no key', 'req': [name.encode(), b'return 1', '#']})
        jobs.append({'kind': 'handler', 'name': name + ' numkeys=<3 symbolic bytes>', 'req': [name.encode(), b'x', ('sym', 3), b'{t}a', b'{t}b']})
    jobs.append({'kind': 'handler', 'name': 'UMFORWARD <any u64> GET k', 'req': [b'UMFORWARD', '#', b'GET', b'k']})
    jobs.append({'kind': 'handler', 'name': 'UMFORWARD <any u64> EVAL s <any u64> k k', 'req': [b'UMFORWARD', '#', b'EVAL', b's', '#', b'{t}a', b'{t}b']})
    jobs.append({'kind': 'handler', 'name': 'UMFORWARD <any u64>', 'req': [b'UMFORWARD', '#']})
    jobs.append({'kind': 'handler', 'name': 'UMFORWARD <any u64> MGET k k (active redirection)', 'req': [b'UMFORWARD', '#', b'MGET', b'{t}a', b'{u}b'], 'active': True})
    for name in (b'BLPOP', b'BRPOP', b'BZPOPMIN', b'BZPOPMAX'):
        jobs.append({'kind': 'handler', 'name': name.decode() + ' k k <any u64 timeout>', 'req': [name, b'{t}a', b'{t}b', '#']})
    jobs.append({'kind': 'handler', 'name': 'BRPOPLPUSH a b <any u64 timeout>', 'req': [b'BRPOPLPUSH', b'{t}a', b'{t}b', '#']})
    for name in (b'BLPOP', b'BRPOP', b'BZPOPMIN', b'BZPOPMAX', b'BRPOPLPUSH'):
        for active in (False, True):
            # degenerate shapes: only the timeout, one key and the timeout
            jobs.append({'kind': 'handler', 'name': '%s <any u64 timeout> only (active redirection %s)' % (name.decode(), active), 'req': [name, '#'], 'active': active})
            jobs.append({'kind': 'handler', 'name': '%s k <any u64 timeout> (active redirection %s)' % (name.decode(), active), 'req': [name, b'{t}a', '#'], 'active': active})
    names = command_names()
    argcs = (0, 1, 2, 3, 5) if not quick else (0, 1, 2, 4)
    for n in names:
        for argc in argcs:
            if n in ('BLPOP', 'BRPOP', 'BRPOPLPUSH', 'BZPOPMIN', 'BZPOPMAX') and argc >= 2: continue   # need a numeric timeout: templates above
            jobs.append({'kind': 'handler', 'name': '%s with %d symbolic argument(s)' % (n, argc), 'req': [n.encode()] + [S2] * argc})
    for n in (b'PING', b'ECHO', b'SELECT', b'QUIT', b'ASKING', b'HELLO', b'\xff\xfe', b'', b'get'):
        for argc in (0, 2):
            jobs.append({'kind': 'handler', 'name': '%r with %d symbolic argument(s)' % (n, argc), 'req': [n] + [S2] * argc})
    return jobs


def worker(ctx, job):
    {'buf': parser_buffers, 'tok': tokens_scenario, 'handler': handler_request}[job['kind']](ctx, job)


SETCLUSTER = [
    ['v2', '#', 'NOFLAG', 'mydb', '127.0.0.1:7000', '#', 'R', 'PEER', '127.0.0.1:7001', '#', 'R', 'R'],
    ['v2', '#', 'FORCE', 'mydb', '127.0.0.1:7000', 'MIGRATING', '#', 'R', '#', '127.0.0.1:7000', '127.0.0.1:6000', '127.0.0.1:7001', '127.0.0.1:6001'],
    ['v2', '#', 'NOFLAG', 'mydb', '127.0.0.1:7000', 'IMPORTING', '#', 'R', 'R', '#', 'a:1', 'b:1', 'c:1', 'd:1', 'PEER', 'c:1', '#', 'R'],
    ['v2', '#', 'NOFLAG', 'mydb', '127.0.0.1:7000', '#', 'R', 'CONFIG', 'mydb', 'compression_strategy', 'set_get_only'],
]
TASKMETA = [['mydb', 'MIGRATING', '#', 'R', 'R', '#', 'a:1', 'b:1', 'c:1', 'd:1'], ['mydb', '#', 'R'], ['mydb', 'IMPORTING', '#', 'R', '#', 'a:1', 'b:1', 'c:1', 'd:1']]


def run(ctx):
    quick = ctx.tier == 'quick'
    N = 8 if quick else 11
    jobs = [{'kind': 'buf', 'n': n} for n in range(1, N + 1)]
    for t in SETCLUSTER: jobs.append({'kind': 'tok', 'entry': 'setcluster', 'template': t})
    for t in TASKMETA: jobs.append({'kind': 'tok', 'entry': 'taskmeta', 'template': t})
    hj = handler_jobs(quick); jobs += hj
    ctx.bounds = {'symbolic buffer length': '1..%d bytes' % N, 'token templates': len(SETCLUSTER) + len(TASKMETA),
                  'numbers in tokens': 'symbolic 64-bit decimal text (counts, epochs, range ends), truncation at every position',
                  'command layer': '%d requests through the real ForwardHandler::handle_cmd_ctx: every data command name of DataCmdType x 0..5 two-byte symbolic arguments, EVAL/EVALSHA/UMFORWARD/blocking pops with full-range symbolic numbers' % len(hj)}
    ctx.assumptions += ['command layer: MetaManager::send / ensure_keys_imported are stand-ins that answer every command at once through the real DecompressCommitHandler (stub:* in models_used); tokio::time::sleep returns at once',
                        'memory bound = allocation requests (capacity arguments) <= number of input bytes / tokens; Rust allocation of pushed elements is proportional to parsed input by construction',
                        'arithmetic-overflow panics exist only in builds with overflow checks (debug profile); they are reported with that note']
    ctx.not_explored += ['RSS / wall-clock measurement', 'stack exhaustion by deeply nested arrays (recursion depth = input/4; no stack model)',
                         'session loop, codec framing, liveness of other connections (async runtime)', 'arbitrary (non-numeric) hostile text inside UMCTL tokens',
                         'UMCTL / CLUSTER / CONFIG / INFO / COMMAND / AUTH handlers (need the real MetaManager); blocking pops that stay empty (retry once per second by design)',
                         'symbolic sub-command / option text (sub-commands are concrete)']
    ctx.run_parallel(jobs, worker)
