"""Harness library for the broker properties: drives the real MetaStore API through the MIR executor, builds
symbolic balanced pre-states, extracts the served views and evaluates the oracles as z3 formulas."""
import z3
from mirsym.values import *

SLOT_NUM = 16384


class Broker:
    def __init__(self, e):
        self.e = e; self.src = e.src
        self.store = None          # Cell holding the MetaStore struct
        self.cluster = 'c1'

    # ---------------------------------------------------------------- plumbing
    def fld(self, v, struct, name):
        v = un(v)
        return v.f[self.src.field_index(struct, name)]

    def fn(self, ty, meth, trait=None):
        return self.e.find_fn(ty, meth, trait)

    def call(self, meth, *args):
        return self.e.run_func(self.fn('MetaStore', meth), [Ref(self.store)] + list(args))

    def cname(self, s):
        r = self.e.run_func(self.fn('ClusterName', 'try_from', 'TryFrom'), [RStr(s)])
        assert r.variant == 0, r
        return r.f[0].v

    def new_store(self, ordered=False):
        self.store = Cell(self.e.run_func(self.fn('MetaStore', 'new'), [ordered]))
        return self.store

    def config(self):
        return self.e.default_value('ClusterConfig')

    # ---------------------------------------------------------------- operations (real API)
    def add_proxy(self, host, port, index=None, host_arg=True):
        addr = '%s:%d' % (host, port)
        nodes = Struct('[]', [RStr('%s:%d' % (host, port + 1000)), RStr('%s:%d' % (host, port + 2000))])
        return self.call('add_proxy', RStr(addr), nodes, Some(RStr(host)) if host_arg else NONE(),
                         Some(index) if index is not None else NONE())

    def add_proxies(self, layout, start_port=7000):
        """layout: list of free-proxy counts per host -> registers proxies host<i>:<port>"""
        addrs = []
        for h, n in enumerate(layout):
            for k in range(n):
                host = 'h%d' % h; port = start_port + k
                r = self.add_proxy(host, port, index=len(addrs))
                assert r.variant == 0, r
                addrs.append('%s:%d' % (host, port))
        return addrs

    def add_cluster(self, nodes, name=None):
        return self.call('add_cluster', RStr(name or self.cluster), nodes, self.config())

    def op(self, name, *args):
        return self.call(name, *args)

    def S(self, s): return RStr(s)

    # ---------------------------------------------------------------- state access
    def mstore(self): return self.store.v

    def cluster_store(self, name=None):
        clusters = self.fld(self.mstore(), 'MetaStore', 'clusters').v
        for k, c in clusters.items:
            if sval(k) == (name or self.cluster): return c.v
        return None

    def chunks(self, name=None):
        cs = self.cluster_store(name)
        return [c.v for c in self.fld(cs, 'ClusterStore', 'chunks').v.cells]

    def global_epoch_cell(self): return self.fld(self.mstore(), 'MetaStore', 'global_epoch')

    def proxy_addresses(self):
        return [sval(k) for k, _ in self.fld(self.mstore(), 'MetaStore', 'all_proxies').v.items]

    def is_migrating(self, name=None):
        for ch in self.chunks(name):
            for part in self.fld(ch, 'ChunkStore', 'migrating_slots').v.f:
                if part.v.cells: return True
        return False

    # ---------------------------------------------------------------- symbolic balanced pre-state
    def symbolise_epochs(self, tag='e'):
        """global epoch and every cluster epoch become symbolic with cluster.epoch <= global < 2^63"""
        e = self.e
        g = z3.BitVec('%s_global' % tag, 64)
        e.assume(z3.ULT(g, (1 << 63)))
        self.global_epoch_cell().v = g
        clusters = self.fld(self.mstore(), 'MetaStore', 'clusters').v
        out = {'global': g}
        for i, (k, c) in enumerate(clusters.items):
            ce = z3.BitVec('%s_cluster%d' % (tag, i), 64)
            e.assume(z3.ULE(ce, g))
            self.fld(c.v, 'ClusterStore', 'epoch').v = ce
            out[sval(k)] = ce
        return out

    def symbolise_stable(self, owners, name=None, tag='b', fixed_ends=None):
        """Replace the stable slot lists of a non-migrating cluster by symbolic tiles.
        owners: sequence of half indices (chunk*2+part), one per tile, consecutive entries differ; the tiles
        partition 0..SLOT_NUM-1 in order.  Halves that occur own slots, the others get None.  Owning halves must be
        the prefix 0..m-1 and half i owns SLOT_NUM//m + [i < SLOT_NUM % m] slots (the broker's balanced form)."""
        e = self.e
        halves = sorted(set(owners)); m = len(halves)
        assert halves == list(range(m)), 'owning halves must be a prefix'
        assert all(a != b for a, b in zip(owners, owners[1:]))
        avg, rem = SLOT_NUM // m, SLOT_NUM % m
        ends = []
        tiles = []
        start = 0
        for j, h in enumerate(owners):
            if j == len(owners) - 1: end = SLOT_NUM - 1
            elif fixed_ends is not None:
                end = fixed_ends[j]; assert start <= end < SLOT_NUM - 1       # concrete tile boundaries (e.g. one-slot tiles)
            else:
                end = z3.BitVec('%s_end%d' % (tag, j), 64)
                e.assume(z3.ULT(end, SLOT_NUM - 1))
                e.assume(z3.ULE(bv(start), end))
            tiles.append((h, start, end)); ends.append(end)
            start = end + 1
        for h in halves:
            tot = 0
            for (hh, s, en) in tiles:
                if hh == h: tot = tot + (bv(en) - bv(s) + 1)
            if fixed_ends is not None: assert sum(en - s + 1 for (hh, s, en) in tiles if hh == h) == avg + (1 if h < rem else 0), 'concrete tiles must be balanced'
            else: e.assume(tot == avg + (1 if h < rem else 0))
        chs = self.chunks(name)
        for ci, ch in enumerate(chs):
            stable = self.fld(ch, 'ChunkStore', 'stable_slots').v
            for part in range(2):
                h = ci * 2 + part
                mine = [(s, en) for (hh, s, en) in tiles if hh == h]
                if mine:
                    rl = Struct('RangeList', [RVec([Cell(Struct('Range', [s, en])) for s, en in mine])])
                    sr = Struct('SlotRange', [rl, Enum('SlotRangeTag', self.src.variant_index('SlotRangeTag', 'None'))])
                    stable.f[part].v = Some(sr)
                else:
                    stable.f[part].v = NONE()
        return tiles

    def symbolise_roles(self, name=None, tag='r', allow=(0, 1, 2)):
        """role_position of every chunk becomes a nondeterministic choice (forks)"""
        for ci, ch in enumerate(self.chunks(name)):
            k = self.e.choose(len(allow), 'role')
            self.fld(ch, 'ChunkStore', 'role_position').v = Enum('ChunkRolePosition', allow[k])

    # ---------------------------------------------------------------- views
    def view_cluster(self, limit, name=None):
        r = self.call('get_cluster_by_name', RStr(name or self.cluster), limit)
        return r.f[0].v if r.variant == 1 else None

    def view_proxy(self, addr, limit):
        r = self.call('get_proxy_by_address', RStr(addr), limit)
        return r.f[0].v if r.variant == 1 else None

    # decoding of view objects into plain Python records with (possibly symbolic) scalars
    def dec_ranges(self, rl):
        rl = un(rl)
        return [(c.v.f[0].v, c.v.f[1].v) for c in rl.f[0].v.cells]

    def dec_slot_range(self, sr):
        sr = un(sr)
        tag = self.fld(sr, 'SlotRange', 'tag').v
        kind = self.src.enums['SlotRangeTag'][tag.variant]
        meta = None
        if kind != 'None':
            mm = tag.f[0].v
            meta = {n: self.fld(mm, 'MigrationMeta', n).v for n in self.src.structs['MigrationMeta']}
        return {'ranges': self.dec_ranges(self.fld(sr, 'SlotRange', 'range_list').v), 'tag': kind, 'meta': meta, 'obj': sr}

    def dec_node(self, n):
        n = un(n)
        repl = self.fld(n, 'Node', 'repl').v
        role = self.src.enums['Role'][self.fld(repl, 'ReplMeta', 'role').v.variant]
        peers = [(sval(self.fld(p.v, 'ReplPeer', 'node_address').v), sval(self.fld(p.v, 'ReplPeer', 'proxy_address').v))
                 for p in self.fld(repl, 'ReplMeta', 'peers').v.cells]
        return {'address': sval(self.fld(n, 'Node', 'address').v), 'proxy': sval(self.fld(n, 'Node', 'proxy_address').v),
                'slots': [self.dec_slot_range(s.v) for s in self.fld(n, 'Node', 'slots').v.cells], 'role': role, 'peers': peers}

    def dec_cluster(self, c):
        return {'epoch': self.fld(c, 'Cluster', 'epoch').v,
                'nodes': [self.dec_node(n.v) for n in self.fld(c, 'Cluster', 'nodes').v.cells]}

    def dec_proxy(self, p):
        cn = self.fld(p, 'Proxy', 'cluster_name').v
        return {'cluster': sval(cn.f[0].v) if cn.variant == 1 else None,
                'address': sval(self.fld(p, 'Proxy', 'address').v),
                'epoch': self.fld(p, 'Proxy', 'epoch').v,
                'nodes': [self.dec_node(n.v) for n in self.fld(p, 'Proxy', 'nodes').v.cells],
                'peers': [{'proxy': sval(self.fld(q.v, 'PeerProxy', 'proxy_address').v),
                           'slots': [self.dec_slot_range(s.v) for s in self.fld(q.v, 'PeerProxy', 'slots').v.cells]}
                          for q in self.fld(p, 'Proxy', 'peers').v.cells],
                'obj': p}

    def migration_tasks(self, limit=0, name=None):
        """the MigrationTaskMeta values a coordinator would report for the Migrating ranges of the cluster view"""
        c = self.view_cluster(limit, name)
        out = []
        for n in self.fld(c, 'Cluster', 'nodes').v.cells:
            for s in self.fld(n.v, 'Node', 'slots').v.cells:
                tag = self.fld(s.v, 'SlotRange', 'tag').v
                if self.src.enums['SlotRangeTag'][tag.variant] == 'Migrating':
                    out.append(Struct('MigrationTaskMeta', [self.cname(name or self.cluster), clone(s.v)]))
        return out


# ---------------------------------------------------------------- oracle helpers (z3)
def in_ranges(s, ranges):
    return zor(zand([z3.ULE(bv(a), s), z3.ULE(s, bv(b))]) for a, b in ranges)


def count_true(conds):
    tot = z3.BitVecVal(0, 16)
    for c in conds:
        tot = tot + z3.If(zbool(c), z3.BitVecVal(1, 16), z3.BitVecVal(0, 16))
    return tot


def ranges_eq(ra, rb):
    if len(ra) != len(rb): return False
    return zand(zand([bv(a) == bv(c), bv(b) == bv(d)]) for (a, b), (c, d) in zip(ra, rb))


def meta_eq(ma, mb):
    conds = []
    for k in ma:
        x, y = ma[k], mb[k]
        if isinstance(x, RStr) or isinstance(y, RStr): conds.append(veq(x, y))
        else: conds.append(bv(x) == bv(y))
    return zand(conds)


def partition_obligations(owner_lists, s):
    """owner_lists: list of (label, role, [decoded slot ranges]).  Returns list of (clause, formula that must hold)"""
    obl = []
    owning = []
    for label, role, slots in owner_lists:
        for sr in slots:
            if role != 'Master':
                obl.append(('replica-owns-nothing:%s' % label, False)); continue
            if sr['tag'] in ('None', 'Migrating'):
                owning.append(in_ranges(s, sr['ranges']))
            for a, b in sr['ranges']:
                obl.append(('range-wellformed:%s' % label, zand([z3.ULE(bv(a), bv(b)), z3.ULT(bv(b), SLOT_NUM)])))
    obl.append(('slot-owned-exactly-once', count_true(owning) == 1))
    return obl


def twin_obligations(owner_lists):
    """every Migrating range has exactly one Importing twin (same ranges, same meta) sitting on the destination master
    named by the meta, and vice versa"""
    obl = []
    mig = []; imp = []
    for label, role, slots, node_addr, proxy_addr in owner_lists:
        for sr in slots:
            if sr['tag'] == 'Migrating': mig.append((sr, node_addr, proxy_addr, role))
            elif sr['tag'] == 'Importing': imp.append((sr, node_addr, proxy_addr, role))
    for sr, na, pa, role in mig:
        twins = [zand([ranges_eq(sr['ranges'], t['ranges']), meta_eq(sr['meta'], t['meta'])]) for t, _, _, _ in imp]
        obl.append(('migrating-has-one-importing-twin', count_true(twins) == 1))
        if na is not None:
            obl.append(('migrating-sits-on-src-node', zand([veq(sr['meta']['src_node_address'], RStr(na)), veq(sr['meta']['src_proxy_address'], RStr(pa))])))
        for (t, tna, tpa, trole), tw in zip(imp, twins):
            if tna is not None:
                ok = zand([veq(t['meta']['dst_node_address'], RStr(tna)), veq(t['meta']['dst_proxy_address'], RStr(tpa)), trole == 'Master'])
                obl.append(('importing-twin-on-dst-master', z3.Implies(zbool(tw), zbool(ok))))
    for sr, na, pa, role in imp:
        twins = [zand([ranges_eq(sr['ranges'], t['ranges']), meta_eq(sr['meta'], t['meta'])]) for t, _, _, _ in mig]
        obl.append(('importing-has-one-migrating-twin', count_true(twins) == 1))
    return obl


# ---------------------------------------------------------------- C01 oracle over all served views
def witness_state(b, m, extra=None):
    """concrete rendering of the store under a model (for the violation report / native replay)"""
    w = {'store': concretize(b.mstore(), m)}
    if extra: w.update(extra)
    return w


def check_views(b, ctx, e, limits=(0, 1, 2), step='', proxies=None, replay=None):
    """C01: every served cluster description partitions the slots exactly once, with consistent migration twins"""
    if not ctx.fresh_point(e): return True
    res = e.sub_explore(lambda: _check_views(b, ctx, e, limits, step, proxies, replay))
    return all(res)


def _check_views(b, ctx, e, limits, step, proxies, replay):
    s = z3.BitVec('slot', 64)
    inrange = z3.ULT(s, SLOT_NUM)
    ok = True
    items = []
    for limit in limits:
        c = b.view_cluster(limit)
        if c is None: continue
        dc = b.dec_cluster(c)
        def wit(m, what, limit=limit, dc=dc):
            return {'step': step, 'limit': limit, 'view': what, 'slot': m.eval(s, model_completion=True).as_long(),
                    'nodes': [(n['address'], n['role'], [(x['tag'], [(concretize(a, m), concretize(bb, m)) for a, bb in x['ranges']]) for x in n['slots']]) for n in dc['nodes']]}
        lists = [(n['address'], n['role'], n['slots']) for n in dc['nodes']]
        for cl, f in partition_obligations(lists, s):
            items.append(('cluster-view:' + cl, 'C01/cluster-view/%s' % cl.split(':')[0], f, lambda m: wit(m, 'cluster')))
        lists2 = [(n['address'], n['role'], n['slots'], n['address'], n['proxy']) for n in dc['nodes']]
        for cl, f in twin_obligations(lists2):
            items.append(('cluster-view:' + cl, 'C01/cluster-view/%s' % cl, f, lambda m: wit(m, 'cluster')))
        for addr in (proxies if proxies is not None else b.proxy_addresses()):
            p = b.view_proxy(addr, limit)
            if p is None: continue
            dp = b.dec_proxy(p)
            if dp['cluster'] is None: continue
            def witp(m, addr=addr, dp=dp, limit=limit):
                return {'step': step, 'limit': limit, 'view': 'proxy ' + addr, 'slot': m.eval(s, model_completion=True).as_long(),
                        'nodes': [(n['address'], n['role'], [(x['tag'], [(concretize(a, m), concretize(bb, m)) for a, bb in x['ranges']]) for x in n['slots']]) for n in dp['nodes']],
                        'peers': [(q['proxy'], [(x['tag'], [(concretize(a, m), concretize(bb, m)) for a, bb in x['ranges']]) for x in q['slots']]) for q in dp['peers']]}
            lists = [(n['address'], n['role'], n['slots']) for n in dp['nodes']] + [('peer ' + q['proxy'], 'Master', q['slots']) for q in dp['peers']]
            for cl, f in partition_obligations(lists, s):
                items.append(('proxy-view:' + cl, 'C01/proxy-view/%s' % cl.split(':')[0], f, witp))
            lists2 = [(n['address'], n['role'], n['slots'], n['address'], n['proxy']) for n in dp['nodes']] + \
                     [('peer ' + q['proxy'], 'Master', q['slots'], None, q['proxy']) for q in dp['peers']]
            for cl, f in twin_obligations(lists2):
                items.append(('proxy-view:' + cl, 'C01/proxy-view/%s' % cl, f, witp))
    ok &= ctx.require_all(e, items, assuming=[inrange], replay=replay)
    return ok


def perms(n):
    import itertools
    return list(itertools.permutations(range(n)))


# ---------------------------------------------------------------- histories with per-step oracles
class History:
    """Runs operations on a Broker; after each one (at points not already covered by an earlier path with the same
    decision prefix) evaluates the enabled oracles on the views served before and after the operation."""

    def __init__(self, b, ctx, e, limits=(0, 1), oracles=('partition',), proxies=None):
        self.b = b; self.ctx = ctx; self.e = e; self.limits = limits; self.oracles = oracles
        self.ops = 0; self.proxies = proxies; self.log = []

    def snapshot(self):
        """all per-proxy views (every registered address x limits) + global epoch of the current store"""
        b = self.b
        out = {'global': b.global_epoch_cell().v, 'views': {}}
        for addr in b.proxy_addresses():
            for limit in self.limits:
                out['views'][(addr, limit)] = b.view_proxy(addr, limit)
        return out

    def step(self, name, fn, expect=None):
        b, e, ctx = self.b, self.e, self.ctx
        need_pre = 'epoch' in self.oracles or 'unchanged-on-error' in self.oracles
        pre_store = clone(b.store.v) if need_pre else None
        r = fn()
        self.ops += 1
        self.log.append(name)
        if not ctx.fresh_point(e): return r
        rp = (lambda m: b.replay_spec(m, self.oracles, self.limits)) if b.oplog is not None else None
        def checks():
            ok = True
            if 'partition' in self.oracles:
                ok &= _check_views(b, ctx, e, self.limits, name, self.proxies, rp)
            if 'epoch' in self.oracles:
                post = self.snapshot()
                cur = b.store.v; b.store.v = pre_store
                try: pre = self.snapshot()
                finally: b.store.v = cur
                ok &= epoch_oracle(b, ctx, e, pre, post, name, self.log, rp)
            if 'metadata' in self.oracles:
                ok &= metadata_oracle(b, ctx, e, name, self.log, rp)
            return ok
        e.sub_explore(checks)
        return r


def proxy_view_fields_equal_except_epoch(b, p, q):
    names = b.src.structs['Proxy']
    conds = []
    for i, n in enumerate(names):
        if n == 'epoch': continue
        conds.append(veq(p.f[i].v, q.f[i].v))
    return zand(conds)


def epoch_oracle(b, ctx, e, pre, post, step, log, rp=None):
    """C04: global epoch never decreases; per-proxy served epoch never decreases and strictly increases when
    anything else in the served view differs"""
    items = []
    items.append(('global-epoch-monotonic', 'C04/global-epoch-decreased', z3.ULE(bv(pre['global']), bv(post['global'])),
                  lambda m: {'step': step, 'history': list(log), 'before': concretize(pre['global'], m), 'after': concretize(post['global'], m)}))
    ei = b.src.field_index('Proxy', 'epoch')
    for key, pv in pre['views'].items():
        qv = post['views'].get(key)
        if pv is None or qv is None: continue
        ep, eq = pv.f[ei].v, qv.f[ei].v
        same = proxy_view_fields_equal_except_epoch(b, pv, qv)
        def wit(m, key=key, pv=pv, qv=qv):
            return {'step': step, 'history': list(log), 'proxy': key[0], 'limit': key[1],
                    'epoch_before': concretize(ep, m) if False else concretize(pv.f[ei].v, m), 'epoch_after': concretize(qv.f[ei].v, m),
                    'view_before': concretize(pv, m), 'view_after': concretize(qv, m)}
        items.append(('served-epoch-monotonic', 'C04/served-epoch-decreased', z3.ULE(bv(ep), bv(eq)), wit))
        items.append(('view-changed-implies-epoch-increased', 'C04/view-changed-without-newer-epoch',
                      zor([same, z3.ULT(bv(ep), bv(eq))]), wit))
    return ctx.require_all(e, items, replay=rp)


def metadata_oracle(b, ctx, e, step, log, rp=None):
    """C12: the broker's own consistency check passes and membership / free pool are complements"""
    r = b.call('check')
    items = [('check_metadata', 'C12/check-metadata-failed', r.variant == 0, lambda m: {'step': step, 'history': list(log), 'store': concretize(b.mstore(), m)})]
    return ctx.require_all(e, items, replay=rp)


# ---------------------------------------------------------------- native replay support
READ_ONLY = ('get_', 'check')


def to_serde(src, v, m=None):
    """interpreter value -> the serde_json representation the real types (de)serialize with"""
    if isinstance(v, Ref): return to_serde(src, v.cell.v, m)
    if is_sym(v):
        if m is None: raise Unmodelled('symbolic value without model in to_serde')
        r = m.eval(v, model_completion=True)
        return z3.is_true(r) if z3.is_bool(r) else r.as_long()
    if isinstance(v, (bool, int)) or v is None: return v
    if isinstance(v, RStr):
        if isinstance(v.s, str): return v.s
        return ''.join(p if isinstance(p, str) else str(to_serde(src, p.v, m)) for p in v.s)
    if isinstance(v, Enum):
        if v.name == 'Option': return None if v.variant == 0 else to_serde(src, v.f[0].v, m)
        if v.name == 'CompressionStrategy': return ['disabled', 'set_get_only', 'allow_all'][v.variant]
        vn = src.enums[v.name][v.variant]
        if not v.f: return vn
        if len(v.f) == 1: return {vn: to_serde(src, v.f[0].v, m)}
        return {vn: [to_serde(src, c.v, m) for c in v.f]}
    if isinstance(v, Struct):
        if v.name in ('[]', '()'): return [to_serde(src, c.v, m) for c in v.f]
        names = src.structs.get(v.name)
        if names is not None and len(names) == len(v.f):
            return {n: to_serde(src, c.v, m) for n, c in zip(names, v.f)}
        if len(v.f) == 1: return to_serde(src, v.f[0].v, m)
        return [to_serde(src, c.v, m) for c in v.f]
    if isinstance(v, RVec): return [to_serde(src, c.v, m) for c in v.cells]
    if isinstance(v, SliceRef): return [to_serde(src, c.v, m) for c in v.vec.cells]
    if isinstance(v, RMap): return {str(to_serde(src, k, m)): to_serde(src, c.v, m) for k, c in v.items}
    if isinstance(v, RSet): return [to_serde(src, k, m) for k in v.items]
    raise Unmodelled('to_serde of %r' % (v,))


def _broker_call(self, meth, *args):
    if not meth.startswith(READ_ONLY) and getattr(self, 'oplog', None) is not None:
        self.oplog.append((meth, [clone(a) for a in args]))
    return self.e.run_func(self.fn('MetaStore', meth), [Ref(self.store)] + list(args))


def _mark_initial(self):
    """remember the (symbolic) store from which the recorded operation history starts"""
    self.initial = clone(self.store.v); self.oplog = []


def _replay_spec(self, m, oracles, limits):
    return {'kind': 'broker',
            'spec': {'store': to_serde(self.src, self.initial, m), 'cluster': self.cluster, 'limits': list(limits), 'oracles': list(oracles),
                     'ops': [{'op': meth, 'args': [to_serde(self.src, a, m) for a in args]} for meth, args in self.oplog]}}


Broker.call = _broker_call
Broker.mark_initial = _mark_initial
Broker.replay_spec = _replay_spec
Broker.oplog = None


# ---------------------------------------------------------------- C10 oracle: balanced full stable partition
def balanced_items(b, expect_owning_chunks, key_prefix='C10'):
    """obligations: no pending migration; halves 0..2m-1 own avg+[i<rem] slots as compact lists; the others own nothing"""
    items = []
    chs = b.chunks()
    m = expect_owning_chunks * 2
    avg, rem = SLOT_NUM // m, SLOT_NUM % m
    def wit(mo): return {'store': concretize(b.cluster_store(), mo)}
    for ci, ch in enumerate(chs):
        mig = b.fld(ch, 'ChunkStore', 'migrating_slots').v
        stable = b.fld(ch, 'ChunkStore', 'stable_slots').v
        for part in range(2):
            h = ci * 2 + part
            items.append(('no-pending-migration', key_prefix + '/pending-migration-left', len(mig.f[part].v.cells) == 0, wit))
            so = stable.f[part].v
            if h < m:
                if so.variant == 0:
                    items.append(('owning-half-has-slots', key_prefix + '/owning-half-empty', False, wit)); continue
                rs = b.dec_ranges(b.fld(so.f[0].v, 'SlotRange', 'range_list').v)
                tot = 0
                for a, bb in rs: tot = tot + (bv(bb) - bv(a) + 1)
                items.append(('balanced-count', key_prefix + '/unbalanced', bv(tot) == avg + (1 if h < rem else 0), wit))
                for a, bb in rs:
                    items.append(('range-wellformed', key_prefix + '/range-illformed', zand([z3.ULE(bv(a), bv(bb)), z3.ULT(bv(bb), SLOT_NUM)]), wit))
                for (a, bb), (c, d) in zip(rs, rs[1:]):
                    items.append(('ranges-compact', key_prefix + '/not-compact', z3.ULT(bv(bb) + 1, bv(c)), wit))
                tagname = b.src.enums['SlotRangeTag'][b.fld(so.f[0].v, 'SlotRange', 'tag').v.variant]
                items.append(('stable-tag', key_prefix + '/stable-with-tag', tagname == 'None', wit))
            else:
                items.append(('trailing-half-empty', key_prefix + '/trailing-chunk-owns-slots', so.variant == 0, wit))
    return items
