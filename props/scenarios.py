"""Scenario scripts over the real broker API, shared by the broker properties (C01 C04 C06 C10 C12)."""
import itertools, z3
from mirsym.values import *
from props.broker import *


def owner_shapes(halves, max_tiles_per_half, max_len=None):
    """alternating owner sequences over `halves` halves, each half owning 1..max tiles (at most max_len tiles in all)"""
    out = []
    def rec(seq, counts):
        if all(c >= 1 for c in counts): out.append(list(seq))
        if max_len is not None and len(seq) >= max_len: return
        for h in range(halves):
            if seq and seq[-1] == h: continue
            if counts[h] >= max_tiles_per_half: continue
            counts[h] += 1; seq.append(h); rec(seq, counts); seq.pop(); counts[h] -= 1
    rec([], [0] * halves)
    return out


def sample_shapes(halves, extra_max, n, rnd):
    """n distinct owner sequences drawn with rnd: a permutation of the halves with up to extra_max further tiles inserted
    (no two neighbouring tiles of one owner, at most 2 tiles per half); the identity permutation is always first"""
    out = [list(range(halves))]; seen = {tuple(out[0])}
    for _ in range(50 * n):
        if len(out) >= n: break
        seq = list(range(halves)); rnd.shuffle(seq)
        for _k in range(rnd.randint(0, extra_max)):
            h = rnd.randrange(halves); pos = rnd.randint(0, len(seq))
            if seq.count(h) >= 2: continue
            if (pos > 0 and seq[pos - 1] == h) or (pos < len(seq) and seq[pos] == h): continue
            seq.insert(pos, h)
        if tuple(seq) not in seen: seen.add(tuple(seq)); out.append(seq)
    return out


def cluster_proxies(b, name=None):
    return [sval(x.v) for ch in b.chunks(name) for x in b.fld(ch, 'ChunkStore', 'proxy_addresses').v.f]


def strmap(d):
    m = RMap('HashMap')
    for k, v in d.items(): m.items.append((RStr(k), Cell(RStr(v))))
    return m


# ---------------------------------------------------------------- resize + commits (+ failover)
def scale_scenario(ctx, job, oracles, name_prefix=''):
    chunks_from, chunks_to, shape, limits, with_failover = job['from'], job['to'], job['shape'], job['limits'], job['failover']
    def run(e):
        b = Broker(e); b.new_store()
        need = max(chunks_from, chunks_to) * 2 + (1 if with_failover == 'spare' else 0) + job.get('extra_free', 0)
        per_host = (need + 1) // 2
        b.add_proxies([per_host, need - per_host])
        r = b.add_cluster(4 * chunks_from); assert r.variant == 0, r
        b.symbolise_epochs()
        b.symbolise_stable(shape)
        if job.get('roles'): b.symbolise_roles()
        b.mark_initial()
        h = History(b, ctx, e, limits, oracles)
        h.step('initial', lambda: None)
        if chunks_to > chunks_from:
            r = h.step('auto_add_nodes', lambda: b.op('auto_add_nodes', RStr('c1'), 4 * (chunks_to - chunks_from)))
            assert r.variant == 0, r
            b.mark_initial()    # native replay starts after allocation (std HashMap order is random natively)
            r = h.step('migrate_slots', lambda: b.op('migrate_slots', RStr('c1')))
            assert r.variant == 0, r
        else:
            r = h.step('migrate_slots_to_scale_down', lambda: b.op('migrate_slots_to_scale_down', RStr('c1'), 4 * chunks_to))
            assert r.variant == 0, r
        tasks = b.migration_tasks()
        nperm = perms(len(tasks)) if len(tasks) <= 3 else [tuple(range(len(tasks))), tuple(reversed(range(len(tasks))))]
        order = nperm[e.choose(len(nperm), 'commit-order')]
        fail_at = None
        if with_failover:
            fail_at = e.choose(len(tasks) + 1, 'failover-point')
            addrs = cluster_proxies(b)
            victim = addrs[e.choose(len(addrs), 'victim')]
        reissued = False
        for k, ti in enumerate(order):
            if fail_at == k:
                h.step('replace_failed_proxy(%s)' % victim, lambda: b.op('replace_failed_proxy', RStr(victim), limits[-1]))
                reissued = True
            if reissued:
                tasks2 = b.migration_tasks()      # a coordinator reads the re-issued tasks again
                if not tasks2: break
                t = tasks2[0]
            else: t = tasks[ti]
            r = h.step('commit_migration#%d' % k, lambda: b.op('commit_migration', t, bool(job.get('clear'))))
            if ctx.fresh_point(e): ctx.require(e, 'commit-accepted', r.variant == 0, key='%s/commit-rejected' % ctx.pid)
            if job.get('recommit'):
                r2 = h.step('recommit#%d' % k, lambda: b.op('commit_migration', clone(t), False))
                if ctx.fresh_point(e): ctx.require(e, 'second-commit-refused', r2.variant == 1, key='%s/second-commit-accepted' % ctx.pid)
        if with_failover and fail_at == len(order):
            h.step('replace_failed_proxy(%s)' % victim, lambda: b.op('replace_failed_proxy', RStr(victim), 0))
        if job.get('final'): job['final'](b, h, e)
        return h.ops
    name = '%sscale %d->%d shape=%s failover=%s' % (name_prefix, chunks_from, chunks_to, shape, with_failover)
    res = ctx.explore(name, run, time_limit=job.get('time_limit') or (None if ctx.tier == 'quick' else 300), soft=True)
    ctx.ops += sum(p.value or 0 for p in res if p.kind == 'ok')
    ctx.sample({'scenario': name, 'paths': len(res), 'path_condition_of_first': [str(c)[:160] for c in res[0].pc[:6]] if res else []})


def scale_jobs(ctx, quick_pairs=((1, 2), (2, 1)), thorough_pairs=((1, 2), (2, 1), (2, 3), (3, 2), (1, 3), (3, 1), (2, 4)), limits_q=(0, 1), limits_t=(0, 1, 2)):
    import random
    quick = ctx.tier == 'quick'
    rnd = random.Random(ctx.seed)
    jobs = []
    limits = limits_q if quick else limits_t
    for (a, bb) in (quick_pairs if quick else thorough_pairs):
        halves = 2 * a
        maxt = 2 if (quick or a > 1) else 3
        extra = 1 if quick else 2
        if halves >= 6:
            # enumerating every owner sequence is out of reach from 3 chunks on (10 halves: > 10! sequences): draw them directly
            shapes = sample_shapes(halves, extra, 40, rnd)
        else:
            shapes = owner_shapes(halves, maxt, halves + extra if a >= 2 else None)
        base = list(range(halves))
        cap = 6 if quick else 12
        if len(shapes) > cap:
            rest = [s for s in shapes if s != base]
            shapes = [base] + rnd.sample(rest, cap - 1)
        for k, sh in enumerate(shapes):
            jobs.append({'from': a, 'to': bb, 'shape': sh, 'limits': limits, 'failover': None, 'recommit': True})
            if not quick or k < 2:
                jobs.append({'from': a, 'to': bb, 'shape': sh, 'limits': limits, 'failover': 'nospare'})
            if not quick and k < 4:
                jobs.append({'from': a, 'to': bb, 'shape': sh, 'limits': limits, 'failover': 'spare', 'clear': True})
    return jobs


# ---------------------------------------------------------------- administrative operations
def admin_menu(b, e):
    """(name, thunk) list of single administrative operations on the standard admin layout"""
    members = cluster_proxies(b, 'c1')
    others = cluster_proxies(b, 'c2') if b.cluster_store('c2') is not None else []
    allp = b.proxy_addresses()
    free = [a for a in allp if a not in members and a not in others]
    S = RStr
    def nodes(host, port): return Struct('[]', [S('%s:%d' % (host, port + 1000)), S('%s:%d' % (host, port + 2000))])
    menu = [
        ('add_proxy(new)', lambda: b.call('add_proxy', S('h9:7000'), nodes('h9', 7000), NONE(), NONE())),
        ('add_proxy(existing free)', lambda: b.call('add_proxy', S(free[0]), nodes(free[0].split(':')[0], int(free[0].split(':')[1])), NONE(), NONE())) if free else None,
        ('add_proxy(existing member)', lambda: b.call('add_proxy', S(members[0]), nodes(members[0].split(':')[0], int(members[0].split(':')[1])), NONE(), NONE())),
        ('remove_proxy(free)', lambda: b.call('remove_proxy', S(free[0]))) if free else None,
        ('remove_proxy(member)', lambda: b.call('remove_proxy', S(members[0]))),
        ('add_failure(free)', lambda: b.call('add_failure', S(free[0]), S('r1'))) if free else None,
        ('add_failure(member)', lambda: b.call('add_failure', S(members[1]), S('r1'))),
        ('replace_failed_proxy(member0)', lambda: b.call('replace_failed_proxy', S(members[0]), 1)),
        ('replace_failed_proxy(member1)', lambda: b.call('replace_failed_proxy', S(members[1]), 0)),
        ('replace_failed_proxy(free)', lambda: b.call('replace_failed_proxy', S(free[0]), 0)) if free else None,
        ('balance_masters', lambda: b.call('balance_masters', S('c1'))),
        ('change_config', lambda: b.call('change_config', S('c1'), strmap({'compression_strategy': 'set_get_only'}))),
        ('change_config(noop value)', lambda: b.call('change_config', S('c1'), strmap({'compression_strategy': 'disabled'}))),
        ('change_config(valid key then rejected key)', lambda: b.call('change_config', S('c1'), strmap({'migration_scan_interval': '3000', 'migration_scan_count': '0'}))),
        ('change_config(rejected key then valid key)', lambda: b.call('change_config', S('c1'), strmap({'migration_scan_count': '0', 'compression_strategy': 'allow_all'}))),
        ('change_config(unknown key)', lambda: b.call('change_config', S('c1'), strmap({'compression_strategy': 'set_get_only', 'no_such_field': '1'}))),
        ('auto_add_nodes', lambda: b.call('auto_add_nodes', S('c1'), 4)),
        ('auto_scale_up_nodes', lambda: b.call('auto_scale_up_nodes', S('c1'), 8)),
        ('auto_delete_free_nodes', lambda: b.call('auto_delete_free_nodes', S('c1'))),
        ('migrate_slots', lambda: b.call('migrate_slots', S('c1'))),
        ('auto_scale_out_node_number', lambda: b.call('auto_scale_out_node_number', S('c1'), 8)),
        ('auto_change_node_number(8)', lambda: b.call('auto_change_node_number', S('c1'), 8)),
        ('remove_cluster(c2)', lambda: b.call('remove_cluster', S('c2'))) if others else None,
        ('remove_cluster(c1)', lambda: b.call('remove_cluster', S('c1'))),
        ('add_cluster(c3)', lambda: b.call('add_cluster', S('c3'), 4, b.config())),
        ('force_bump_all_epoch', lambda: b.call('force_bump_all_epoch', z3.BitVec('force_epoch', 64))),
        ('recover_epoch', lambda: (e.assume(z3.ULT(z3.BitVec('recover_epoch', 64), (1 << 63))), b.call('recover_epoch', z3.BitVec('recover_epoch', 64)))[1]),
        ('commit_migration(bogus)', lambda: b.call('commit_migration', Struct('MigrationTaskMeta', [b.cname('c1'), Struct('SlotRange', [Struct('RangeList', [RVec([Cell(Struct('Range', [0, 10]))])]), Enum('SlotRangeTag', 0, [Struct('MigrationMeta', [z3.BitVec('bogus_epoch', 64), S('a'), S('b'), S('c'), S('d')])])])]), False)),
    ]
    return [m for m in menu if m is not None]


def admin_scenario(ctx, job, oracles):
    limits = job['limits']
    def run(e):
        b = Broker(e); b.new_store()
        b.add_proxies(job.get('layout', [3, 3]))
        r = b.add_cluster(4 * job.get('chunks', 1), 'c1'); assert r.variant == 0, r
        if job.get('second'):
            r = b.add_cluster(4, 'c2'); assert r.variant == 0, r
        b.cluster = 'c1'
        b.symbolise_epochs()
        b.symbolise_stable(job.get('shape', list(range(2 * job.get('chunks', 1)))))
        if job.get('roles'): b.symbolise_roles()
        b.mark_initial()
        h = History(b, ctx, e, limits, oracles)
        h.step('initial', lambda: None)
        names = []
        for depth in range(job['depth']):
            menu = admin_menu(b, e)
            if depth == 0 and job.get('first') is not None:
                menu = [m for m in menu if m[0] in job['first']]
            k = e.choose(len(menu), 'op')
            nm, th = menu[k]
            names.append(nm)
            h.step(nm, th)
            if b.cluster_store('c1') is None: break
        return h.ops
    name = 'admin depth=%d second=%s first=%s chunks=%d roles=%s' % (job['depth'], job.get('second'), job.get('first'), job.get('chunks', 1), job.get('roles'))
    res = ctx.explore(name, run, time_limit=job.get('time_limit'))
    ctx.ops += sum(p.value or 0 for p in res if p.kind == 'ok')
    ctx.sample({'scenario': name, 'paths': len(res)})
