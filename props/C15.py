"""C15 - RESP encoding and incremental decoding are lossless.
(i) the real parse_resp on fully symbolic buffers: index ranges inside the consumed prefix and strict framing
(CR before every terminating LF, CRLF after every bulk payload); (ii) encode -> decode round trip and size hint for
symbolic values of enumerated shapes; (iii) every strict prefix of an encoding is NotEnoughData and a following packet
is left untouched (the decoder is stateless between calls, so this gives split invariance)."""
from props.resp import *


def select(cells, i):
    """symbolic read cells[i] (i a 64-bit expression or int)"""
    if not is_sym(i): return cells[i].v if 0 <= i < len(cells) else None
    r = z3.BitVecVal(0, 8)
    for k in range(len(cells) - 1, -1, -1): r = z3.If(i == k, bv(cells[k].v, 8), r)
    return r


def symbolic_buffers(ctx, job):
    N = job['n']
    def run(e):
        h = RespH(e); cells = sym_buffer(e, N)
        pos = {id(c): i for i, c in enumerate(cells)}
        r = h.parse(cells)
        def wit(m): return {'input': show(bytes_of(cells, m)), 'bytes': bytes_of(cells, m), 'result': repr(concretize(r, m))[:300]}
        def rp(m): return {'kind': 'rust-test', 'filter': 'verif_replay_resp', 'spec': {'mode': 'parse', 'bytes': bytes_of(cells, m)}}
        if r.variant == 1:
            return 1
        resp = r.f[0].v.f[0].v; consumed = r.f[0].v.f[1].v
        t = h.tree(resp)
        items = [('consumed-within-input', 'C15/consumed-beyond-input', z3.ULE(bv(consumed), N), wit),
                 ('consumed-positive', 'C15/consumed-nothing', z3.UGT(bv(consumed), 0), wit)]
        for kind, leaf in h.leaves(t):
            _, s, en = leaf
            items.append(('index-inside-consumed', 'C15/index-outside-consumed-prefix', zand([z3.ULE(bv(s), bv(en)), z3.ULE(bv(en), bv(consumed))]), wit))
            if kind == 'Bulk':
                a, b = select(cells, bv(en)), select(cells, bv(en) + 1)
                items.append(('bulk-payload-followed-by-CRLF', 'C15/strictness/bulk-payload-not-followed-by-CRLF', zand([z3.ULE(bv(en) + 2, bv(consumed)), a == CR, b == LF]), wit))
        # every LF that terminated a line (found by the parser's memchr) is preceded by CR
        for ev in e.events:
            if ev[0] == 'memchr-hit' and id(ev[1]) in pos:
                i = pos[id(ev[1])]
                items.append(('line-terminator-preceded-by-CR', 'C15/strictness/line-terminated-by-bare-LF', (i >= 1) and (bv(cells[i - 1].v, 8) == CR) if i >= 1 else False, wit))
        ctx.require_all(e, items, replay=rp)
        return 1
    res = ctx.explore('parse_resp on %d symbolic bytes' % N, run)
    ctx.ops += len(res)
    ok = [p for p in res if p.kind == 'ok']
    if ok: ctx.sample({'scenario': 'symbolic buffer n=%d' % N, 'paths': len(res), 'example_path_condition': [str(c)[:100] for c in ok[len(ok) // 2].pc[:8]]})


def round_trip(ctx, job):
    shape = job['shape']
    def run(e):
        h = RespH(e)
        v = h.mk(shape)
        orig = clone(v)
        buf, r = h.encode(v)
        n = len(buf.cells)
        def wit(m): return {'shape': repr(shape), 'value': repr(concretize(orig, m))[:300], 'encoding': show(bytes_of(buf.cells, m))}
        def rp(m): return {'kind': 'rust-test', 'filter': 'verif_replay_resp', 'spec': {'mode': 'roundtrip', 'bytes': bytes_of(buf.cells, m)}}
        items = [('encode-ok', 'C15/encode-failed', r.variant == 0 and veq(r.f[0].v, n) is True, wit)]
        hint = h.size_hint(Ref(Cell(orig)).cell.v)
        items.append(('size-hint-equals-encoded-length', 'C15/size-hint-wrong', hint.variant == 1 and veq(hint.f[0].v, n), wit))
        # decode the encoding followed by a symbolic tail
        tail = sym_buffer(e, job.get('tail', 2), 't') if job.get('tail', 2) else []
        data = [Cell(c.v) for c in buf.cells] + tail
        bm = RVec(list(data), 'Bytes')
        pr = e.run_func(h.parse_indexed, [Ref(Cell(bm))])
        if pr.variant == 1:
            items.append(('decode-of-own-encoding-ok', 'C15/own-encoding-rejected', False, lambda m: dict(wit(m), error=h.err_kind(pr))))
            ctx.require_all(e, items, replay=rp); return 1
        ir = pr.f[0].v
        back = e.run_func(e.find_fn('IndexedResp', 'to_resp_vec'), [Ref(Cell(ir))])
        items.append(('round-trip-value-equal', 'C15/round-trip-value-differs', veq(back, orig), lambda m: dict(wit(m), decoded=repr(concretize(back, m))[:300])))
        items.append(('consumes-exactly-its-bytes', 'C15/consumed-wrong-length', len(bm.cells) == len(tail) and all(x is y for x, y in zip(bm.cells, tail)), wit))
        kept = deref_vec(e.src and un(ir).f[e.src.field_index('IndexedResp', 'data')].v).cells
        items.append(('forwards-bytes-unmodified', 'C15/packet-bytes-modified', len(kept) == n and zand(veq(x.v, y.v) for x, y in zip(kept, buf.cells)), wit))
        ctx.require_all(e, items, replay=rp)
        # strict prefixes: NotEnoughData and nothing consumed
        pitems = []
        for cut in range(0, n):
            pre = RVec([Cell(c.v) for c in buf.cells[:cut]], 'Bytes')
            before = list(pre.cells)
            r2 = e.run_func(h.parse_indexed, [Ref(Cell(pre))])
            ok2 = r2.variant == 1 and h.err_kind(r2) == 'NotEnoughData' and pre.cells == before
            pitems.append(('prefix-is-not-enough-data', 'C15/prefix-not-reported-incomplete', ok2,
                           lambda m, cut=cut, r2=r2: dict(wit(m), cut=cut, result=repr(concretize(r2, m))[:200])))
        ctx.require_all(e, pitems, replay=lambda m: {'kind': 'rust-test', 'filter': 'verif_replay_resp', 'spec': {'mode': 'prefixes', 'bytes': bytes_of(buf.cells, m)}})
        return 2 + n
    res = ctx.explore('round trip %r tail=%s' % (shape, job.get('tail')), run)
    ctx.ops += sum(p.value or 0 for p in res if p.kind == 'ok')


def pipeline(ctx, job):
    def run(e):
        h = RespH(e)
        vs = [h.mk(s, 'p%d_' % i) for i, s in enumerate(job['shapes'])]
        origs = [clone(v) for v in vs]
        stream = []
        for v in vs:
            buf, r = h.encode(v); stream += [Cell(c.v) for c in buf.cells]
        bm = RVec(list(stream), 'Bytes')
        items = []
        for i, o in enumerate(origs):
            pr = e.run_func(h.parse_indexed, [Ref(Cell(bm))])
            ok = pr.variant == 0
            items.append(('pipeline-packet-decodes', 'C15/pipeline-packet-rejected', ok, None))
            if not ok: break
            back = e.run_func(e.find_fn('IndexedResp', 'to_resp_vec'), [Ref(Cell(pr.f[0].v))])
            items.append(('pipeline-packet-equal', 'C15/pipeline-packet-differs', veq(back, o), None))
        items.append(('pipeline-fully-consumed', 'C15/pipeline-leftover', len(bm.cells) == 0, None))
        ctx.require_all(e, items)
        return len(origs)
    res = ctx.explore('pipeline %r' % (job['shapes'],), run)
    ctx.ops += sum(p.value or 0 for p in res if p.kind == 'ok')


def decoder_split(ctx, job):
    """the stateful OptionalMultiPacketDecoder: a Multi(k) reply stream delivered in two reads split at every position
    yields the same packets as one read, and nothing is lost or left over"""
    def setup(e): e.generic_env.update({'D': 'Resp', 'E': 'Vec', 'W': 'Vec'})
    def run(e):
        h = RespH(e)
        vs = [h.mk(s, 'd%d_' % i) for i, s in enumerate(job['shapes'])]
        origs = [clone(v) for v in vs]
        stream = []
        for v in vs:
            buf, r = h.encode(v); stream += [Cell(c.v) for c in buf.cells]
        k = len(vs)
        pair = e.run_func(e.find_fn('OptionalMultiHintState', 'new_pair'), [])
        dec = e.run_func(e.find_fn('OptionalMultiPacketDecoder', 'new'), [pair.f[1].v])
        hint = Enum('OptionalMulti', 1, [RVec([Cell(mk_unit()) for _ in range(k)])]) if job['multi'] else Enum('OptionalMulti', 0, [mk_unit()])
        ok = e.run_func(e.find_fn('OptionalMultiHintState', 'produce'), [Ref(pair.f[0]), hint])
        assert ok is True, ok
        cut = e.choose(len(stream) + 1, 'split')
        bm = RVec([Cell(c.v) for c in stream[:cut]], 'Bytes')
        decfn = e.find_fn('OptionalMultiPacketDecoder', 'decode', 'PacketDecoder')
        dcell = Cell(dec)
        r1 = e.run_func(decfn, [Ref(dcell), Ref(Cell(bm))])
        items = []
        def wit(m): return {'shapes': repr(job['shapes']), 'split_at': cut, 'stream': show(bytes_of(stream, m)), 'first_read': repr(concretize(r1, m))[:200]}
        res = None
        if cut < len(stream):
            items.append(('incomplete-read-yields-nothing', 'C15/decoder-yielded-before-complete', r1.variant == 0 and r1.f[0].v.variant == 0, wit))
            bm.cells.extend(Cell(c.v) for c in stream[cut:])
            r2 = e.run_func(decfn, [Ref(dcell), Ref(Cell(bm))])
            res = r2
        else: res = r1
        good = res.variant == 0 and res.f[0].v.variant == 1
        items.append(('complete-stream-yields-packets', 'C15/decoder-lost-packets-after-split', good, lambda m: dict(wit(m), second_read=repr(concretize(res, m))[:200])))
        if good:
            om = res.f[0].v.f[0].v
            got = [c.v for c in deref_vec(om.f[0].v).cells] if job['multi'] else [om.f[0].v]
            items.append(('same-packets-as-one-piece', 'C15/decoder-packets-differ-after-split', len(got) == len(origs) and zand(veq(a, b) for a, b in zip(got, origs)), wit))
            items.append(('nothing-left-over', 'C15/decoder-leftover-bytes', len(bm.cells) == 0, wit))
        ctx.require_all(e, items)
        return 2
    res = ctx.explore('decoder split %r multi=%s' % (job['shapes'], job['multi']), run, engine_setup=setup)
    ctx.ops += sum(p.value or 0 for p in res if p.kind == 'ok')


def worker(ctx, job):
    {'buf': symbolic_buffers, 'rt': round_trip, 'pipe': pipeline, 'dec': decoder_split}[job['kind']](ctx, job)


def run(ctx):
    quick = ctx.tier == 'quick'
    N = 8 if quick else 11
    jobs = [{'kind': 'buf', 'n': n} for n in range(1, N + 1)]
    shp = shapes(1 if quick else 2, 2 if quick else 3, 2 if quick else 3)
    for s in shp:
        jobs.append({'kind': 'rt', 'shape': s, 'tail': 2})
        jobs.append({'kind': 'rt', 'shape': s, 'tail': 0})
    jobs.append({'kind': 'dec', 'multi': True, 'shapes': [('Simple', 2), ('Bulk', 1), ('Integer', 1)]})
    jobs.append({'kind': 'dec', 'multi': True, 'shapes': [('Bulk', None), ('Arr', [('Bulk', 1)])]})
    jobs.append({'kind': 'dec', 'multi': False, 'shapes': [('Arr', [('Bulk', 2), ('Simple', 0)])]})
    jobs.append({'kind': 'pipe', 'shapes': [('Arr', [('Bulk', 1), ('Bulk', 0)]), ('Simple', 1), ('Bulk', None)]})
    jobs.append({'kind': 'pipe', 'shapes': [('Bulk', 2), ('Arr', None), ('Integer', 1)]})
    ctx.bounds = {'symbolic buffer length': '1..%d bytes (all byte values)' % N, 'value shapes': len(shp), 'nesting depth': 2 if quick else 3,
                  'payload bytes': 'symbolic (bulk payloads binary incl. CR/LF; line payloads without CR/LF)', 'tail after packet': '2 symbolic bytes'}
    ctx.assumptions += ['memchr, btoi and BytesMut::split_to/freeze are models (memchr: first match; btoi: [+-]?digit+ with overflow error)',
                        'non-canonical length digits (leading zeros, explicit +) are accepted by btoi and not raised: the statement does not fix the integer grammar']
    ctx.not_explored += ['frames longer than the bound', 'tokio_util framing around RespCodec', 'more than two reads per packet group for the stateful multi-packet decoder']
    ctx.run_parallel(jobs, worker)
