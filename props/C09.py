"""C09 - key-to-slot routing at a proxy is exact.
K (Kani, real std / crc16 crate): get_hash_tag vs the Redis Cluster tag rule for all short byte strings; generate_slot
vs the bit-serial CRC16/XMODEM definition.  M: generate_slot on longer symbolic keys vs a closed-form reference;
the real SlotMap / ClusterBackendMap::send (mock senders for the crate's own traits) on edge-case range layouts with a
symbolic slot; CommandInfo key position (EVAL/EVALSHA) with symbolic key bytes."""
from props.routing import *
from props.resp import RespH, sym_buffer, bytes_of, show
from mirsym.models.misc import crc16_xmodem


def ref_slot(cells):
    """closed-form reference: CRC16/XMODEM (bit-serial definition) of the Redis hash tag, mod 16384"""
    n = len(cells); b = [bv(c.v, 8) for c in cells]
    whole = crc16_xmodem(None, cells)
    res = bv(whole, 16)
    # iterate candidate (open, close) pairs from the last to the first so that the first '{' / first '}' wins
    for i in reversed(range(n)):
        first_open = zand([b[i] == 123] + [b[k] != 123 for k in range(i)])
        inner = bv(whole, 16)
        for j in reversed(range(i + 1, n)):
            first_close = zand([b[j] == 125] + [b[k] != 125 for k in range(i + 1, j)])
            val = bv(whole, 16) if j == i + 1 else bv(crc16_xmodem(None, cells[i + 1:j]), 16)
            inner = z3.If(zbool(first_close), val, inner)
        res = z3.If(zbool(first_open), inner, res)
    return z3.URem(z3.ZeroExt(48, res), z3.BitVecVal(SLOT_NUM, 64))


def slot_of_key(ctx, job):
    N = job['n']
    def run(e):
        cells = sym_buffer(e, N, 'k')
        r = e.call('common::utils::generate_slot', [SliceRef(RVec(list(cells), 'slice'))])
        ctx.require_all(e, [('slot-is-crc16-of-hash-tag', 'C09/slot-of-key-wrong', bv(r) == ref_slot(cells),
                             lambda m: {'key': show(bytes_of(cells, m)), 'slot': concretize(r, m), 'expected': m.eval(ref_slot(cells), model_completion=True).as_long()})],
                        replay=lambda m: {'kind': 'rust-test', 'filter': 'verif_replay_slot', 'spec': {'key': bytes_of(cells, m), 'expected': m.eval(ref_slot(cells), model_completion=True).as_long()}})
        return 1
    res = ctx.explore('generate_slot on %d symbolic bytes' % N, run)
    ctx.ops += len(res)


LAYOUTS = [
    {'local': {'A:6000': [[(0, 100), (300, 300)]]}, 'peer': {'B:7000': [[(101, 299)]], 'C:7000': [[(301, 16000)]]}},
    {'local': {'A:6000': [[(0, 8191)]], 'A:6001': [[(8192, 8192)], [(8194, 9000)]]}, 'peer': {'B:7000': [[(9001, 16383)]]}},
    {'local': {'A:6000': [[(16383, 16383)]]}, 'peer': {'B:7000': [[(0, 0)], [(2, 16382)]]}},
    {'local': {'A:6000': [[(5, 3)], [(10, 20)]]}, 'peer': {'B:7000': [[(21, 20000)]]}},          # reversed range, end beyond SLOT_NUM
    {'local': {}, 'peer': {'B:7000': [[(0, 16383)]]}},
    {'local': {'A:6000': [[(0, 16383)]]}, 'peer': {}},
    {'local': {'A:6000': [[(0, 10)]]}, 'peer': {'B:7000': [[(5, 15)]]}},                            # overlap local/peer: local wins
]


def covers(s, ranges):
    return zor(zand([z3.ULE(bv(a), s), z3.ULE(s, bv(b)), z3.ULT(s, SLOT_NUM)]) for a, b in ranges if a <= b)


def send_decision(ctx, job):
    lay = LAYOUTS[job['layout']]
    def run(e):
        local = node_map(e, {a: [slot_range(e, r) for r in rs] for a, rs in lay['local'].items()})
        peer = node_map(e, {a: [slot_range(e, r) for r in rs] for a, rs in lay['peer'].items()})
        bm, lf, pf = backend_map(e, local, peer, job['active'])
        s = z3.BitVec('slot', 64); e.assume(z3.ULT(s, SLOT_NUM))
        t = MockTask(s if not job.get('nokey') else None)
        r = send(e, bm, t)
        rep = reply_text(e, t)
        lranges = {a: [x for rs_ in rs for x in rs_] for a, rs in lay['local'].items()}
        pranges = {a: [x for rs_ in rs for x in rs_] for a, rs in lay['peer'].items()}
        in_local = zor(covers(s, rs) for rs in lranges.values()); in_peer = zor(covers(s, rs) for rs in pranges.values())
        def wit(m): return {'layout': lay, 'slot': concretize(s, m), 'sent_to': t.sent_to, 'reply': concretize(rep[1], m) if rep else None, 'result': repr(r)[:80], 'active_redirection': job['active']}
        rp = lambda m: {'kind': 'rust-test', 'filter': 'verif_replay_routing', 'spec': {'layout': {k: {a: [x for rs_ in rs for x in rs_] for a, rs in v.items()} for k, v in lay.items()}, 'slot': concretize(s, m), 'active': job['active']}}
        items = []
        errname = e.src.enums['ClusterSendError'][un(r.f[0].v).variant] if r.variant == 1 else None
        if job.get('nokey'):
            items.append(('missing-key-answered', 'C09/missing-key-not-answered', rep is not None and sval(rep[1]) == 'missing key' and t.sent_to is None, wit))
        elif t.sent_to is not None:
            items.append(('executed-locally-only-for-own-slot', 'C09/executed-on-node-not-owning-slot', covers(s, lranges.get(t.sent_to, [])), wit))
            items.append(('no-reply-when-forwarded', 'C09/reply-and-forward', rep is None, wit))
        else:
            items.append(('own-slot-is-executed-locally', 'C09/own-slot-not-executed-locally', znot(in_local), wit))
            if errname == 'ActiveRedirection':
                er = un(r.f[0].v)
                addr = sval(er.f[2].v); eslot = er.f[1].v
                items.append(('redirection-target-covers-slot', 'C09/redirect-to-node-not-covering-slot', zand([job['active'], covers(s, pranges.get(addr, [])), bv(eslot) == s]), wit))
            elif rep is not None and rep[0] == 'Error':
                parts = list(str_parts(rep[1]))
                if parts and isinstance(parts[0], str) and parts[0].startswith('MOVED '):
                    ok_fmt = len(parts) == 3 and parts[0] == 'MOVED ' and isinstance(parts[1], NumStr) and isinstance(parts[2], str) and parts[2].startswith(' ')
                    if not ok_fmt and all(isinstance(p, str) for p in parts):
                        txt = ''.join(parts).split(' ')
                        ok_fmt = len(txt) == 3
                        addr = txt[2] if ok_fmt else None; sl = int(txt[1]) if ok_fmt and txt[1].isdigit() else None
                    else:
                        addr = parts[2][1:] if ok_fmt else None; sl = parts[1].v if ok_fmt else None
                    items.append(('moved-format', 'C09/moved-reply-malformed', ok_fmt and not job['active'], wit))
                    if ok_fmt and sl is not None:
                        items.append(('moved-names-the-slot', 'C09/moved-names-other-slot', bv(sl) == s, wit))
                        items.append(('moved-target-covers-slot', 'C09/moved-to-node-not-covering-slot', covers(s, pranges.get(addr, [])), wit))
                else:
                    items.append(('uncovered-slot-is-an-error', 'C09/covered-slot-reported-uncovered', znot(zor([in_local, in_peer])), wit))
                    items.append(('uncovered-error-text', 'C09/uncovered-error-text', isinstance(parts[0], str) and parts[0].startswith('slot not covered'), wit))
            else:
                items.append(('some-answer', 'C09/no-answer-and-not-forwarded', False, wit))
        ctx.require_all(e, items, replay=rp)
        return 1
    res = ctx.explore('send layout#%d active=%s nokey=%s' % (job['layout'], job['active'], job.get('nokey')), run)
    ctx.ops += len(res)
    ctx.sample({'scenario': 'send layout#%d' % job['layout'], 'paths': len(res)})


def key_position(ctx, job):
    def run(e):
        h = RespH(e)
        name = job['cmd']
        elems = [RVec([Cell(b) for b in name.encode()])] + [RVec([Cell(z3.BitVec('a%d_%d' % (i, k), 8)) for k in range(2)]) for i in range(job['argc'])]
        vi = e.src.variant_index
        arr = [Enum('Resp', vi('Resp', 'Bulk'), [Enum('BulkStr', vi('BulkStr', 'Str'), [x])]) for x in elems]
        resp = Enum('Resp', vi('Resp', 'Arr'), [Enum('Array', vi('Array', 'Arr'), [RVec([Cell(x) for x in arr])])])
        pkt = Enum('RespPacket', vi('RespPacket', 'Data'), [resp])
        cmd = e.run_func(e.find_fn('Command', 'new'), [Ref(Cell(pkt), 'Box')])
        slot = e.run_func(e.find_fn('Command', 'get_slot'), [Ref(Cell(cmd))])
        idx = 3 if name.upper() in ('EVAL', 'EVALSHA') else 1
        items = []
        def wit(m): return {'command': name, 'argc': job['argc'], 'slot': repr(concretize(slot, m))}
        if idx < len(elems):
            exp = ref_slot(elems[idx].cells)
            items.append(('slot-from-key-position', 'C09/slot-from-wrong-element', slot.variant == 1 and (bv(slot.f[0].v) == exp), wit))
        else:
            items.append(('no-key-no-slot', 'C09/slot-without-key', slot.variant == 0, wit))
        ctx.require_all(e, items)
        return 1
    res = ctx.explore('key position %s argc=%d' % (job['cmd'], job['argc']), run)
    ctx.ops += len(res)


def umforward_slot(ctx, job):
    """a command forwarded by a peer proxy (UMFORWARD <times> <command>) is routed by the slot of ITS key once the prefix
    is stripped: the real handler strips it (handle_umforward / extract_inner_cmd) and hands the command to the manager"""
    from props import executor as X
    def run(e):
        h, mgr, redis = X.make_handler(e, 'Disabled', active_redirection=True, commit=False)
        seen = []
        def m_send(e_, selfref, cmd_ctx): seen.append(un(cmd_ctx)); return mk_unit()
        mgr.m_send = m_send
        key = [z3.BitVec('k%d' % i, 8) for i in range(job['klen'])]
        inner = {'GET': [list(b'GET'), key], 'SET': [list(b'set'), key, list(b'v')], 'EVAL': [list(b'EVAL'), list(b'return 1'), list(b'1'), key]}[job['cmd']]
        req = [list(b'UMFORWARD'), list(str(job['times']).encode())] + inner
        ctxv, rcv = X.make_cmd_ctx(e, req)
        auth = Struct('Atomic', [True])
        e.run_func(e.find_fn('ForwardHandler', 'handle_cmd_ctx', 'CmdCtxHandler'), [Ref(Cell(h)), ctxv, rcv, Ref(Cell(auth))])
        def wit(m): return {'request': [show(bytes_of([Cell(b) for b in el], m)) for el in req], 'handed_to_manager': len(seen)}
        items = [('forwarded-command-reaches-routing', 'C09/forwarded-command-not-routed', len(seen) == 1, wit)]
        if len(seen) == 1:
            slot = e.run_func(e.find_fn('CmdCtx', 'get_slot', 'CmdTask'), [Ref(Cell(seen[0]))])
            exp = ref_slot([Cell(b) for b in key])
            items.append(('forwarded-command-routed-by-its-key', 'C09/forwarded-command-routed-by-wrong-slot', slot.variant == 1 and bv(slot.f[0].v) == exp,
                          lambda m: dict(wit(m), slot=repr(concretize(slot, m)), expected=m.eval(exp, model_completion=True).as_long())))
            times = un(seen[0]).f[e.src.structs['CmdCtx'].index('redirection_times')].v
            items.append(('redirection-count-kept', 'C09/redirection-count-lost', times.variant == 1 and times.f[0].v == job['times'], wit))
        ctx.require_all(e, items)
        return 1
    res = ctx.explore('UMFORWARD %d %s key of %d bytes' % (job['times'], job['cmd'], job['klen']), run)
    ctx.ops += len(res)


def worker(ctx, job):
    {'slot': slot_of_key, 'send': send_decision, 'key': key_position, 'umf': umforward_slot}[job['kind']](ctx, job)


def run(ctx):
    quick = ctx.tier == 'quick'
    N = 6 if quick else 10
    jobs = [{'kind': 'slot', 'n': n} for n in range(0, N + 1)]
    for i in range(len(LAYOUTS)):
        jobs.append({'kind': 'send', 'layout': i, 'active': False})
        if not quick or i < 3: jobs.append({'kind': 'send', 'layout': i, 'active': True})
    jobs.append({'kind': 'send', 'layout': 0, 'active': False, 'nokey': True})
    for cmd in ('GET', 'EVAL', 'eval', 'EvalSha', 'SET'):
        for argc in ((0, 1, 3, 4) if not quick else (1, 3, 4)):
            jobs.append({'kind': 'key', 'cmd': cmd, 'argc': argc})
    for cmd in ('GET', 'SET', 'EVAL'):
        for times in (0, 2):
            jobs.append({'kind': 'umf', 'cmd': cmd, 'times': times, 'klen': 2 if quick else 3})
    ctx.bounds = {'symbolic key length (M)': '0..%d bytes' % N, 'range layouts': '%d edge-case layouts with concrete boundaries (single slot, gaps, several ranges per node, reversed, beyond SLOT_NUM, overlap)' % len(LAYOUTS),
                  'slot': 'symbolic over all 16384 values (forked per distinct table entry, not per index)', 'command shapes': 'GET/SET/EVAL/eval/EvalSha with 0..4 two-byte symbolic arguments'}
    ctx.assumptions += ['crc16 crate = bit-serial CRC16/XMODEM (checked by the Kani harness on keys <= 2 bytes; every table entry is exercised by the 1-byte case)',
                        'range boundaries are concrete per layout: SlotMapData::new iterates start..=end and cannot be run with symbolic bounds at the real SLOT_NUM']
    ctx.not_explored += ['multi-key guards of the async handlers are decided under C20 / C16 (command-layer harness)', 'CLUSTER KEYSLOT formatting', 'keys longer than the bound']
    ctx.run_parallel(jobs, worker)
    from vlib import kani
    kani.run(ctx, ['hash_tag_matches_redis_rule_len6', 'slot_is_crc16_xmodem_mod_16384_len2'] + ([] if quick else ['hash_tag_matches_redis_rule_len8']), expect_fail=['hash_tag_vacuity_witness'])
    ctx.bounds['kani'] = 'get_hash_tag for all byte strings of length <= %d; generate_slot vs bit-serial CRC16 for all keys of length <= 2' % (6 if quick else 8)
