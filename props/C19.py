"""C19 - migration preserves key expiry (the conversion of PTTL replies into RESTORE ttl arguments).
The real pttl_to_restore_expire_time (with the byte-level integer parser) runs on fully symbolic reply bytes; the
RESTORE builders of the pull/push path (gen_restore_resp) are run with symbolic key / payload / pttl bytes."""
from props.resp import *


def is_digit(b): return z3.And(z3.UGE(b, 48), z3.ULE(b, 57))


def conv_scenario(ctx, job):
    L = job['n']
    def run(e):
        cells = sym_buffer(e, L, 'p')
        inp = [c.v for c in cells]
        v = RVec([Cell(x) for x in inp])
        out = e.call('scan_migration::pttl_to_restore_expire_time', [v])
        ob = [c.v for c in deref_vec(out).cells]
        def wit(m): return {'pttl_reply': show(bytes_of(cells, m)), 'restore_ttl': show([concretize(x, m) for x in ob])}
        rp = lambda m: {'kind': 'rust-test', 'filter': 'verif_replay_pttl', 'spec': {'pttl': bytes_of(cells, m)}}
        same = (len(ob) == L) and zand(bv(a, 8) == bv(b, 8) for a, b in zip(ob, inp))
        is_zero_out = (len(ob) == 1) and (bv(ob[0], 8) == 48)
        items = []
        # canonical positive reply (digits, no leading zero; <= 10 digits always fits i64): ttl passed on unchanged
        canon_pos = zand([is_digit(b) for b in inp] + [inp[0] != 48]) if L >= 1 else False
        items.append(('remaining-ttl-preserved', 'C19/positive-ttl-not-preserved', z3.Implies(zbool(canon_pos), zbool(same)), wit))
        # -1 (persistent) -> 0 (RESTORE: no expiry)
        if L == 2:
            items.append(('persistent-stays-persistent', 'C19/persistent-key-gets-expiry', z3.Implies(z3.And(inp[0] == 45, inp[1] == 49), zbool(is_zero_out)), wit))
        # a reply of 0 (key with less than 1 ms to live) must not be restored as persistent
        if L == 1:
            pos_out = len(ob) >= 1 and zand([is_digit(bv(b, 8)) for b in ob] + [zor([bv(b, 8) != 48 for b in ob])])
            items.append(('volatile-key-never-persistent', 'C19/zero-pttl-restored-as-persistent', z3.Implies(inp[0] == 48, zbool(pos_out)), wit))
        # canonical negative replies (-1 persistent, -2 missing, ...) -> 0; malformed replies are unspecified
        if L >= 2:
            canon_neg = zand([inp[0] == 45, inp[1] != 48] + [is_digit(b) for b in inp[1:]])
            items.append(('negative-reply-maps-to-no-expiry', 'C19/negative-reply-not-mapped-to-no-expiry', z3.Implies(zbool(canon_neg), zbool(is_zero_out)), wit))
        # a volatile key (canonical positive) never becomes persistent
        items.append(('volatile-key-never-persistent', 'C19/positive-ttl-restored-as-persistent', z3.Implies(zbool(canon_pos), znot(is_zero_out)), wit))
        ctx.require_all(e, items, replay=rp)
        return 1
    res = ctx.explore('pttl conversion on %d symbolic bytes' % L, run)
    ctx.ops += len(res)
    ctx.sample({'scenario': 'pttl %d bytes' % L, 'paths': len(res)})


def callsite_scenario(ctx, job):
    def run(e):
        key = RVec([Cell(z3.BitVec('k%d' % i, 8)) for i in range(job['key'])])
        data = RVec([Cell(z3.BitVec('d%d' % i, 8)) for i in range(job['data'])])
        pttl = RVec([Cell(z3.BitVec('p%d' % i, 8)) for i in range(job['pttl'])])
        pt2 = clone(pttl); k2 = clone(key); d2 = clone(data)
        expect = e.call('scan_migration::pttl_to_restore_expire_time', [pt2])
        resp = e.run_func(e.find_fn('MgrCmdStateRestoreForward', 'gen_restore_resp'), [SliceRef(key), data, pttl])
        h = RespH(e)
        t = h.tree(resp)
        ok_shape = t[0] == 'Arr' and t[1] is not None and len(t[1]) == 4 and all(x[0] == 'Bulk' and x[1] is not None for x in t[1])
        items = [('restore-command-shape', 'C19/restore-command-malformed', ok_shape, None)]
        if ok_shape:
            args = [x[1][1] for x in t[1]]
            name = bytes(args[0]) if all(isinstance(b, int) for b in args[0]) else b''
            items.append(('command-is-RESTORE', 'C19/restore-command-malformed', name == b'RESTORE', None))
            eqv = lambda xs, ys: (len(xs) == len(ys)) and zand(bv(a, 8) == bv(b, 8) for a, b in zip(xs, ys))
            items.append(('key-untouched', 'C19/restore-key-altered', eqv(args[1], [c.v for c in k2.cells]), None))
            items.append(('ttl-is-converted-pttl', 'C19/restore-ttl-not-the-converted-pttl', eqv(args[2], [c.v for c in deref_vec(expect).cells]), None))
            items.append(('payload-untouched', 'C19/restore-payload-altered', eqv(args[3], [c.v for c in d2.cells]), None))
        ctx.require_all(e, items)
        return 1
    res = ctx.explore('gen_restore_resp key=%d data=%d pttl=%d' % (job['key'], job['data'], job['pttl']), run)
    ctx.ops += len(res)


def worker(ctx, job):
    {'conv': conv_scenario, 'site': callsite_scenario, 'paths': lambda c, j: transfer_paths(c, j)}[job['kind']](ctx, job)


def transfer_paths(ctx, job):
    """expiry through the real transfer paths: (pull) the destination-side pipeline of C03 with a volatile source key whose
    ttl is a symbolic number and which may expire between the pipelined DUMP and PTTL; (scan) the source-side
    scan_and_migrate_keys: whatever reaches the destination as RESTORE carries a ttl that keeps the key volatile"""
    from props import C03
    from props import executor as X
    def setup(e): e.loop_budget = 100000
    def run(e):
        ttl = z3.BitVec('ttl', 64); e.assume(zand([z3.UGE(ttl, 1), z3.ULT(ttl, 1 << 62)]))
        ttl_txt = RVec([], text=RStr((NumStr(ttl, 64),)))
        restores = []
        class R(C03.Redis):
            wants_vecs = True
            def execute(self, e_, elems, restore_fault=None):
                name = X.as_bytes(elems[0]).upper(); k = X.as_bytes(elems[1]) if len(elems) > 1 else None
                if name == b'PTTL' and k in self.db and self.db[k][1] == 'sym':
                    self.log.append((name, k))
                    return Enum('Resp', e_.src.variant_index('Resp', 'Integer'), [ttl_txt])
                if name == b'RESTORE':
                    restores.append((self.name, self.vecs[2]))      # the ttl argument as sent
                    self.log.append((name, k))
                    if k in self.db: return X.error(e_, b'BUSYKEY Target key name already exists.')
                    self.db[k] = (list(elems[3]), 'restored'); return X.simple(e_, b'OK')
                return C03.Redis.execute(self, e_, elems, restore_fault)
        if job['path'] == 'pull':
            w = C03.World(e, {})
            w.src = R('src'); w.dst = R('dst')
            w.src.db[C03.K] = ([7, 7], 'sym')
            expired = [False]
            def between(which, name):
                # the key may expire on the source between two pipelined commands
                if which == 'src' and name == b'DUMP' and job.get('expire') and e.choose(2, 'expires-now') == 1:
                    w.src.db.pop(C03.K, None); expired[0] = True
            w.between_pipelined = between
            rcv, r = w.client([list(b'GET'), list(C03.K)])
            for _ in range(12):
                w.pump()
                if w.qdst.q: w.step_backend('dst')
                elif w.qsrc.q: w.step_backend('src')
                else: break
            w.pump()
        else:
            src, dst = R('src'), R('dst')
            src.db[b'ka'] = ([7], 'sym')
            srcc = C03.ScanClient(src, [b'ka'], lambda rem: 1); dstc = C03.ScanClient(dst, [], None)
            rl = Struct('RangeList', [RVec([Cell(Struct('Range', [0, 16383]))])])
            sra = e.run_func(e.find_fn('SlotRangeArray', 'new'), [rl])
            mutex = Struct('SlotMutex', [RVec([Cell(Struct('Atomic', [False])) for _ in range(16384)])])
            df = [f for f in e.mir.all_funcs if f.name.endswith('::default') and f.ret.endswith('MigrationStats')][0]
            e.generic_env.update({'F': 'DstFactory', 'T': 'CmdCtx', 'C': 'ScanClient'})
            fut = e.run_func(e.find_fn('ScanMigrationTask', 'scan_and_migrate_keys'), [Ref(Cell(sra)), 0, NONE(), Ref(Cell(srcc)), RStr('dst:6379'), Ref(Cell(C03.DstFactory(dstc)), 'Arc'), 1, Ref(Cell(mutex)), Ref(Cell(e.run_func(df, [])))])
            e.block_on(Ref(Cell(fut)))
        items = []
        for where, arg in restores:
            dv = deref_vec(arg)
            def wit(m, dv=dv): return {'path': job['path'], 'source_ttl_ms': concretize(ttl, m), 'restore_ttl_argument': concretize(dv.text, m) if dv.text is not None else bytes(concretize(c.v, m) for c in dv.cells).decode('latin1')}
            if dv.text is not None:
                parts = norm_parts(str_parts(dv.text))
                ok = isinstance(parts, tuple) and len(parts) == 1 and isinstance(parts[0], NumStr) and zand([z3.UGE(bv(parts[0].v), 1), z3.ULE(bv(parts[0].v), ttl)])
                if isinstance(parts, str): ok = parts.isdigit() and int(parts) >= 1
            else:
                bs = X.as_bytes([c.v for c in dv.cells])
                ok = bs is not None and bs.isdigit() and int(bs) >= 1
            items.append(('volatile-key-stays-volatile', 'C19/volatile-key-restored-as-persistent/' + job['path'], ok, wit))
        items.append(('transfer-ran', 'C19/transfer-path-did-not-run', len(restores) >= (0 if job.get('expire') else 1), lambda m: {'path': job['path']}))
        ctx.require_all(e, items)
        return 1
    res = ctx.explore('expiry through the %s path (expire between DUMP and PTTL: %s)' % (job['path'], job.get('expire')), run, engine_setup=setup)
    ctx.ops += len(res)


def run(ctx):
    quick = ctx.tier == 'quick'
    L = 10 if quick else 18
    jobs = [{'kind': 'conv', 'n': n} for n in range(0, L + 1)]
    jobs += [{'kind': 'site', 'key': 2, 'data': 2, 'pttl': p} for p in (1, 2, 3)]
    jobs += [{'kind': 'paths', 'path': 'pull'}, {'kind': 'paths', 'path': 'pull', 'expire': True}, {'kind': 'paths', 'path': 'scan'}]
    ctx.bounds = {'pttl reply length': '0..%d bytes, every byte value' % L, 'call site': 'gen_restore_resp with 2-byte symbolic key/payload and 1..3 symbolic pttl bytes'}
    ctx.assumptions += ['RESTORE reads ttl 0 as "no expiry" (Redis documentation)', 'btoi is a model (validated against the real crate by the Kani harness kani/migration__scan_migration.rs)',
                        'for a PTTL reply of 0 any positive ttl is accepted (no positive ttl <= 0 exists)']
    ctx.not_explored += ['interleavings of the three transfer paths (C03, not applicable)', 'replies longer than the bound (up to 2^63-1 needs 19 digits)']
    ctx.run_parallel(jobs, worker)
    from vlib import kani
    kani.run(ctx, ['pttl_matches_reference_len4'] if quick else ['pttl_matches_reference_len4', 'pttl_matches_reference_len5'], expect_fail=['pttl_vacuity_witness'])
    ctx.bounds['kani'] = 'pttl_need_to_be_no_expire with the real btoi crate vs a reference decimal grammar, all byte strings of length <= %d' % (4 if quick else 5)
