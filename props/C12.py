"""C12 - proxy resources are accounted consistently and chunks span two hosts.
Host layouts are enumerated as shapes; the requested sizes are solver variables (so every feasible branch of the
allocator's arithmetic is taken), std HashMap iteration order is a nondeterministic rotation per map; after every
operation: no panic, the broker's own check passes, membership and free pool are complements, new chunks span two
hosts, refused requests leave the store unchanged, and the replacement host rule holds."""
import itertools
from props.scenarios import *


def hosts_of(b):
    allp = b.fld(b.mstore(), 'MetaStore', 'all_proxies').v
    return {sval(k): (sval(b.fld(c.v, 'ProxyResource', 'host').v), b.fld(c.v, 'ProxyResource', 'cluster').v.variant == 1) for k, c in allp.items}


def unhealthy(b):
    st = b.mstore()
    failed = [sval(k) for k in b.fld(st, 'MetaStore', 'failed_proxies').v.items]
    reported = [sval(k) for k, _ in b.fld(st, 'MetaStore', 'failures').v.items]
    return set(failed) | set(reported)


def structural_items(b, name, new_from_chunk=0, prefix='C12'):
    """each proxy in <= 1 cluster / chunk position, membership = complement of free pool, chunks on two hosts
    (the two-host rule is the allocation algorithm's; ordered-proxy mode disables that algorithm by design)"""
    items = []
    ordered = bool(b.fld(b.mstore(), 'MetaStore', 'enable_ordered_proxy').v)
    info = hosts_of(b)
    seen = {}
    clusters = b.fld(b.mstore(), 'MetaStore', 'clusters').v
    for k, c in clusters.items:
        cn = sval(k)
        for ci, ch in enumerate(b.fld(c.v, 'ClusterStore', 'chunks').v.cells):
            addrs = [sval(x.v) for x in b.fld(ch.v, 'ChunkStore', 'proxy_addresses').v.f]
            hs = [sval(x.v) for x in b.fld(ch.v, 'ChunkStore', 'hosts').v.f]
            for pos, a in enumerate(addrs):
                items.append(('proxy-in-one-position', prefix + '/proxy-in-two-positions', a not in seen, lambda m, a=a: {'proxy': a}))
                seen[a] = (cn, ci, pos)
                items.append(('member-is-registered', prefix + '/member-not-registered', a in info, None))
                if a in info:
                    items.append(('host-mirrors-resource', prefix + '/host-mismatch', info[a][0] == hs[pos], None))
            if cn == name and ci >= new_from_chunk and not ordered:
                items.append(('chunk-spans-two-hosts', prefix + '/chunk-on-one-host', hs[0] != hs[1], lambda m, hs=hs, addrs=addrs: {'hosts': hs, 'proxies': addrs}))
    for a, (h, member) in info.items():
        items.append(('membership-complement', prefix + '/membership-mismatch', member == (a in seen), lambda m, a=a: {'proxy': a}))
    return items


def alloc_scenario(ctx, job):
    def setup(e):
        e.map_rotation = job.get('rotate', True); e.map_rotation_max = job.get('rot_max', 3)
    def run(e):
        b = Broker(e); b.new_store(job.get('ordered', False))
        b.add_proxies(job['layout'])
        if job.get('pre_cluster'):
            r = b.add_cluster(4, 'c0'); assert r.variant == 0, r
        # optionally tag one free proxy as failed / reported
        tagged = None
        if job.get('tag'):
            free = [a for a, (h, mem) in hosts_of(b).items() if not mem]
            k = e.choose(len(free) + 1, 'tagged')
            if k < len(free):
                tagged = free[k]
                if job['tag'] == 'reported': b.call('add_failure', RStr(tagged), RStr('r1'))
                else: b.call('replace_failed_proxy', RStr(tagged), 0)
        b.mark_initial()
        ops = 0
        for step, (op, cname) in enumerate(job['ops']):
            num = z3.BitVec('num%d' % step, 64)
            e.assume(z3.ULE(num, job.get('max_num', 12)))
            pre = clone(b.mstore())
            nchunks_before = len(b.chunks(cname)) if b.cluster_store(cname) is not None else 0
            if op == 'add_cluster': r = b.call('add_cluster', RStr(cname), num, b.config())
            elif op == 'auto_add_nodes': r = b.call('auto_add_nodes', RStr(cname), num)
            elif op == 'remove_cluster': r = b.call('remove_cluster', RStr(cname))
            ops += 1
            def rp(m): return dict(b.replay_spec(m, ('metadata', 'hosts', 'unchanged-on-error'), (0,)), retries=6)
            items = []
            wit = lambda m: {'op': op, 'num': concretize(num, m), 'layout': job['layout'], 'tagged': tagged, 'result': repr(r)[:120]}
            chk = b.call('check')
            items.append(('check_metadata', 'C12/check-metadata-failed', chk.variant == 0, wit))
            if r.variant == 0:
                items += structural_items(b, cname, nchunks_before)
                if op != 'remove_cluster':
                    # exactly num/4 new chunks, none of them failed / reported
                    items.append(('allocated-count', 'C12/wrong-number-of-chunks', bv(len(b.chunks(cname)) - nchunks_before) * 4 == num, wit))
                    bad = unhealthy(b)
                    for ch in b.chunks(cname)[nchunks_before:]:
                        for x in b.fld(ch, 'ChunkStore', 'proxy_addresses').v.f:
                            items.append(('never-allocate-unhealthy', 'C12/allocated-failed-or-reported-proxy', sval(x.v) not in bad, wit))
            else:
                cur = b.mstore()
                same = zand([veq(b.fld(pre, 'MetaStore', n).v, b.fld(cur, 'MetaStore', n).v) for n in ('clusters', 'all_proxies', 'failed_proxies', 'failures')])
                items.append(('refused-leaves-store-unchanged', 'C12/refused-request-changed-store', same, wit))
                items += structural_items(b, cname, 10 ** 6)
            ctx.require_all(e, items, replay=rp)
        return ops
    name = 'alloc layout=%s pre=%s tag=%s ops=%s ordered=%s' % (job['layout'], job.get('pre_cluster'), job.get('tag'), [o for o, _ in job['ops']], job.get('ordered', False))
    res = ctx.explore(name, run, engine_setup=setup, time_limit=job.get('time_limit'))
    ctx.ops += sum(p.value or 0 for p in res if p.kind == 'ok')
    ctx.sample({'scenario': name, 'paths': len(res)})


def replace_scenario(ctx, job):
    def setup(e):
        e.map_rotation = True; e.map_rotation_max = job.get('rot_max', 3)
    def run(e):
        b = Broker(e); b.new_store()
        b.add_proxies(job['layout'])
        r = b.add_cluster(4 * job.get('chunks', 1), 'c1')
        if r.variant != 0: return 0        # this layout cannot host the cluster (refusal is checked by the alloc scenarios): nothing to replace
        b.mark_initial()
        members = cluster_proxies(b)
        victim = members[e.choose(len(members), 'victim')]
        info = hosts_of(b); bad = unhealthy(b)
        # partner of the victim
        partner = None
        for ch in b.chunks():
            addrs = [sval(x.v) for x in b.fld(ch, 'ChunkStore', 'proxy_addresses').v.f]
            if victim in addrs: partner = addrs[1 - addrs.index(victim)]
        partner_host = info[partner][0]
        candidates = [a for a, (h, mem) in info.items() if not mem and a not in bad and h != partner_host]
        b_chunks_pre = [clone(ch) for ch in b.chunks()]
        r = b.call('replace_failed_proxy', RStr(victim), 0)
        def rp(m): return dict(b.replay_spec(m, ('metadata', 'replacement'), (0,)), retries=4)
        wit = lambda m: {'layout': job['layout'], 'victim': victim, 'partner': partner, 'partner_host': partner_host, 'free_healthy_on_other_hosts': candidates, 'result': repr(r)[:160]}
        items = [('check_metadata', 'C12/check-metadata-failed', b.call('check').variant == 0, wit)]
        items += structural_items(b, 'c1', 10 ** 6)
        if candidates:
            ok = r.variant == 0 and r.f[0].v.variant == 1
            failed_host = info[victim][0]
            cand_hosts = set(info[a][0] for a in candidates)
            # class of the situation (part of the violation key, so that known findings stay specific)
            if cand_hosts == {failed_host}: cls = 'candidates-only-on-failed-proxys-own-host'
            else:
                links = {}
                for ch in b_chunks_pre:
                    hs = [sval(x.v) for x in b.fld(ch, 'ChunkStore', 'hosts').v.f]
                    for x, y in ((hs[0], hs[1]), (hs[1], hs[0])): links[(x, y)] = links.get((x, y), 0) + 1
                third = [h for h in cand_hosts if h != failed_host]
                lp = links.get((failed_host, partner_host), 0)
                cls = 'third-host-less-linked-than-partner' if any(links.get((failed_host, h), 0) < lp for h in third) else 'third-host-link-count-not-below-partner'
            items.append(('replacement-found', 'C12/no-replacement-although-free-proxy-on-other-host/' + cls, ok, wit))
            if ok:
                newaddr = sval(b.fld(r.f[0].v.f[0].v, 'Proxy', 'address').v)
                items.append(('replacement-on-other-host-than-partner', 'C12/replacement-on-partner-host/' + cls, info[newaddr][0] != partner_host, lambda m: dict(wit(m), replacement=newaddr, replacement_host=info[newaddr][0])))
                items.append(('replacement-healthy', 'C12/replacement-unhealthy', newaddr not in bad and not info[newaddr][1], wit))
        ctx.require_all(e, items, replay=rp)
        # afterwards the failed proxy is removed from the registry: allowed only if it is no longer part of a chunk
        still_member = victim in cluster_proxies(b)
        r2 = b.call('remove_proxy', RStr(victim))
        wit2 = lambda m: dict(wit(m), still_member_after_failover=still_member, remove_proxy_result=repr(r2)[:80])
        items2 = []
        if still_member:
            items2.append(('member-proxy-cannot-be-removed', 'C12/failed-member-removed-while-in-chunk', r2.variant == 1, wit2))
        items2.append(('check_metadata-after-remove', 'C12/check-metadata-failed/after-remove-proxy', b.call('check').variant == 0, wit2))
        def rp2(m):
            sp = dict(b.replay_spec(m, ('metadata',), (0,)), retries=2)
            if still_member and sp['spec']['ops']:
                sp['spec']['ops'][-1]['expect'] = 'Err'; sp['spec']['ops'][-1]['violation_key'] = 'C12/failed-member-removed-while-in-chunk'
            return sp
        ctx.require_all(e, items2, replay=rp2)
        return 1
    name = 'replace layout=%s chunks=%d' % (job['layout'], job.get('chunks', 1))
    res = ctx.explore(name, run, engine_setup=setup)
    ctx.ops += sum(p.value or 0 for p in res if p.kind == 'ok')
    ctx.sample({'scenario': name, 'paths': len(res)})


def worker(ctx, job):
    if job['kind'] == 'alloc': alloc_scenario(ctx, job)
    else: replace_scenario(ctx, job)


def layouts(max_hosts, max_per_host, min_total=2):
    out = []
    for h in range(1, max_hosts + 1):
        for combo in itertools.combinations_with_replacement(range(1, max_per_host + 1), h):
            if sum(combo) >= min_total: out.append(list(reversed(combo)))
    return out


def run(ctx):
    quick = ctx.tier == 'quick'
    jobs = []
    L = layouts(3, 3) if quick else layouts(4, 4)
    for lay in L:
        jobs.append({'kind': 'alloc', 'layout': lay, 'ops': [('add_cluster', 'c1'), ('auto_add_nodes', 'c1')], 'max_num': 12 if quick else 16})
        if sum(lay) >= 6 and (not quick or lay in ([3, 2, 1], [2, 2, 2], [3, 3])):
            jobs.append({'kind': 'alloc', 'layout': lay, 'pre_cluster': True, 'rotate': not quick, 'rot_max': 2,
                         'ops': [('add_cluster', 'c1'), ('remove_cluster', 'c1'), ('add_cluster', 'c2')], 'max_num': 8})
        if sum(lay) >= 4 and (not quick or lay in ([2, 2], [3, 2, 1], [2, 1, 1])):
            for tag in ('reported', 'failed'):
                jobs.append({'kind': 'alloc', 'layout': lay, 'tag': tag, 'ops': [('add_cluster', 'c1')], 'max_num': 8})
    for lay in ([[2, 2], [3, 3], [4, 2]] if quick else [[2, 2], [3, 3], [4, 2], [4, 4], [5, 3]]):
        jobs.append({'kind': 'alloc', 'layout': lay, 'ordered': True, 'rotate': False, 'ops': [('add_cluster', 'c1'), ('auto_add_nodes', 'c1')], 'max_num': 8})
    R = [[2, 1], [2, 2], [3, 1], [1, 1, 1], [2, 1, 1], [2, 2, 1], [3, 1, 1], [3, 2, 1]] if quick else [l for l in layouts(4, 4, 3) if len(l) >= 2]
    for lay in R:
        if sum(lay) >= 3 and len(lay) >= 2: jobs.append({'kind': 'replace', 'layout': lay, 'chunks': 1})
        if sum(lay) >= 5 and len(lay) >= 2 and not quick: jobs.append({'kind': 'replace', 'layout': lay, 'chunks': 2})
    ctx.bounds = {'hosts': '<= %d' % (3 if quick else 4), 'free proxies per host': '<= %d' % (3 if quick else 4), 'requested nodes': 'symbolic 0..%d' % (12 if quick else 16),
                  'jobs': len(jobs), 'map iteration order': 'cyclic rotations of insertion order for maps with <= 3 entries'}
    ctx.assumptions += ['HashMap iteration orders other than cyclic rotations of insertion order are not explored']
    ctx.not_explored += ['optimality of link balancing in docs/chunk_allocation.txt (only the hard requirements are asserted)', 'more hosts / proxies than the bound']
    ctx.run_parallel(jobs, worker)
