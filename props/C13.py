"""C13 - broker state loss is recoverable by epoch recovery (the served-epoch part).
MetaStore::restore(snapshot) and the real MemoryStorage::recover_epoch (the `+ 1` lives in this async wrapper, which is
polled from its MIR) are run with symbolic global/cluster epochs in both stores and a symbolic largest proxy epoch L:
afterwards every served view (members through the cluster epoch, free proxies through the global epoch) must carry an
epoch > L."""
from props.scenarios import *


def build(e, b, second, shape, tag):
    b.new_store(); b.add_proxies([3, 3])
    r = b.add_cluster(4, 'c1'); assert r.variant == 0
    if second:
        r = b.add_cluster(4, 'c2'); assert r.variant == 0
    b.cluster = 'c1'
    ep = b.symbolise_epochs(tag)
    b.symbolise_stable(shape, tag=tag + 'b')
    return ep


def scenario(ctx, job):
    def run(e):
        snap = Broker(e); eps = build(e, snap, job['second'], job['shape'], 's')
        if job.get('mid_migration'):
            snap.call('auto_add_nodes', RStr('c1'), 4); snap.call('migrate_slots', RStr('c1'))
        cur = Broker(e)
        if job['current'] == 'fresh': cur.new_store()
        else: build(e, cur, False, [0, 1], 'c')
        L = z3.BitVec('largest_proxy_epoch', 64)
        # restore
        g_cur = cur.global_epoch_cell().v; g_snap = snap.global_epoch_cell().v
        snapshot = clone(snap.mstore())
        if job.get('bad_version'): cur.fld(cur.mstore(), 'MetaStore', 'version').v = RStr('other-version')
        before = clone(cur.mstore())
        r = cur.call('restore', snapshot)
        items = []
        if job.get('bad_version'):
            items.append(('restore-refuses-other-version', 'C13/restore-accepted-other-version', r.variant == 1 and veq(before, cur.mstore()), None))
            ctx.require_all(e, items); return 1
        smaller = z3.UGT(bv(g_cur), bv(g_snap))
        if r.variant == 1:
            items.append(('restore-refuses-only-smaller-epoch', 'C13/restore-refused-newer-snapshot', smaller, None))
            items.append(('refused-restore-changes-nothing', 'C13/refused-restore-changed-store', veq(before, cur.mstore()), None))
            ctx.require_all(e, items); return 1
        items.append(('restore-accepts-only-not-smaller', 'C13/restore-accepted-smaller-epoch', znot(smaller), None))
        items.append(('restore-installs-snapshot', 'C13/restore-did-not-install', veq(snap.mstore(), cur.mstore()), None))
        # epoch recovery through the real MemoryStorage wrapper
        storage = Struct('MemoryStorage', [Ref(Cell(Struct('Lock', [cur.mstore()])), 'Arc')])
        cur.store = storage.f[0].v.cell.v.f[0]
        g_before = cur.global_epoch_cell().v
        c1_before = cur.fld(cur.cluster_store('c1'), 'ClusterStore', 'epoch').v
        cur.mark_initial()          # the restored store: the native replay of the served-epoch clauses starts from it
        e.notes['replay'] = {'kind': 'rust-test', 'filter': 'verif_replay_recover_epoch', 'spec': {'largest_proxy_epoch': (1 << 64) - 1, 'global_epoch': 0}}
        fut = e.run_func(e.find_fn('MemoryStorage', 'recover_epoch', 'MetaStorage'), [Ref(Cell(storage)), L])
        res = e.block_on(fut)
        assert res.variant == 0
        def wit(m): return {'largest_proxy_epoch': concretize(L, m), 'global_before': concretize(g_before, m), 'global_after': concretize(cur.global_epoch_cell().v, m)}
        items.append(('global-epoch-grows', 'C13/global-epoch-not-increased', z3.UGT(bv(cur.global_epoch_cell().v), bv(g_before)), wit))
        def views():
            its = []
            for addr in cur.proxy_addresses():
                for limit in (0, 1):
                    p = cur.view_proxy(addr, limit)
                    ep = cur.fld(p, 'Proxy', 'epoch').v
                    its.append(('served-epoch-above-every-proxy-epoch', 'C13/served-epoch-not-above-largest-proxy-epoch', z3.UGT(bv(ep), L),
                                lambda m, addr=addr, ep=ep: dict(wit(m), proxy=addr, served_epoch=concretize(ep, m))))
            def rp(m):
                # the restored store itself (it may hold a cluster in the middle of a migration) + MetaStore::recover_epoch
                sp = cur.replay_spec(m, ('recover',), (0, 1))
                sp['spec']['ops'] = [{'op': 'recover_epoch', 'args': [concretize(L, m)]}]
                sp['spec']['largest_proxy_epoch'] = concretize(L, m)
                return sp
            for name in ('c1', 'c2'):
                c = cur.view_cluster(0, name)
                if c is not None:
                    its.append(('cluster-epoch-above-every-proxy-epoch', 'C13/cluster-epoch-not-above-largest-proxy-epoch', z3.UGT(bv(cur.fld(c, 'Cluster', 'epoch').v), L), wit))
            return ctx.require_all(e, items + its, replay=rp)
        e.sub_explore(views)
        return 2
    name = 'recover current=%s second=%s shape=%s mid=%s badver=%s' % (job['current'], job['second'], job['shape'], job.get('mid_migration'), job.get('bad_version'))
    def allow(p):    # L = u64::MAX overflows `exsting_largest_epoch + 1`: reported under its own key below
        return False
    res = ctx.explore(name, run)
    ctx.ops += sum(p.value or 0 for p in res if p.kind == 'ok')
    ctx.sample({'scenario': name, 'paths': len(res)})


# ---------------------------------------------------------------- collecting the proxies' epochs (fetch_max_epoch)
class ReadyFuture(PyObj):
    def __init__(self, v): self.v = v
    def m_poll(self, e, *a): return Enum('Poll', 0, [self.v])


class EpochClient(PyObj):
    def __init__(self, reply): self.reply = reply
    def m_execute_single(self, e, s, cmd): return ReadyFuture(self.reply)
    def m_quit(self, e, s): return ReadyFuture(Ok(mk_unit()))


class EpochFactory(PyObj):
    """RedisClientFactory stand-in: per address one of: answers GETEPOCH with a symbolic epoch, cannot be connected,
    connection breaks, answers something that is not an integer"""
    def __init__(self, outcomes): self.outcomes = outcomes
    def m_create_client(self, e, s, addr):
        kind, val = self.outcomes[sval(addr)]
        vi = e.src.variant_index
        if kind == 'noconn': return ReadyFuture(Err(Enum('RedisClientError', 0, [Opaque('io::Error', 'refused')])))
        if kind == 'ok':
            return ReadyFuture(Ok(EpochClient(Ok(Enum('Resp', vi('Resp', 'Integer'), [RVec([], text=RStr((NumStr(val, 64),)))])))))
        if kind == 'broken': return ReadyFuture(Ok(EpochClient(Err(Enum('RedisClientError', 0, [Opaque('io::Error', 'reset')])))))
        return ReadyFuture(Ok(EpochClient(Ok(Enum('Resp', vi('Resp', 'Error'), [RVec([Cell(b) for b in b'ERR unknown']) ])))))


def fetch_epochs(ctx, job):
    """fetch_max_epoch over n proxies with every combination of outcomes: the result is the maximum over exactly the
    proxies that answered, and exactly the others are reported as failed"""
    import re
    n = job['n']
    def run(e):
        addrs = ['p%d:5299' % i for i in range(n)]
        outcomes = {}
        for i, a in enumerate(addrs):
            k = ['ok', 'noconn', 'broken', 'garbage'][e.choose(4, 'outcome-%d' % i)]
            outcomes[a] = (k, z3.BitVec('epoch%d' % i, 64))
        fac = EpochFactory(outcomes)
        e.fn_stubs = [(re.compile(r'PooledRedisClientFactory.*::new$|pooled::<impl at [^>]*>::new$'), lambda e_, args: fac, 'PooledRedisClientFactory::new')]
        names = [nm for nm in e.mir.funcs if nm.endswith('::new') and 'Pooled' in e.mir.funcs[nm].ret]
        e.fn_stubs = [(re.compile(re.escape(nm) + '$'), (lambda e_, args: fac), 'PooledRedisClientFactory::new') for nm in names]
        fut = e.run_func(e.find_free_fn('epoch::fetch_max_epoch'), [RVec([Cell(RStr(a)) for a in addrs])])
        r = un(e.block_on(Ref(Cell(fut))))
        mx = r.f[e.src.structs['EpochFetchResult'].index('max_epoch')].v
        failed = [sval(c.v) for c in deref_vec(r.f[e.src.structs['EpochFetchResult'].index('failed_addresses')].v).cells]
        oks = [v for a, (k, v) in outcomes.items() if k == 'ok']
        def wit(m): return {'outcomes': {a: (k, concretize(v, m) if k == 'ok' else None) for a, (k, v) in outcomes.items()}, 'max_epoch': concretize(mx, m), 'failed_addresses': failed}
        items = [('failed-proxies-reported', 'C13/unreachable-proxy-not-reported', sorted(failed) == sorted(a for a, (k, v) in outcomes.items() if k != 'ok'), wit)]
        items.append(('max-over-all-answers', 'C13/fetched-epoch-below-a-proxy-epoch', zand([z3.UGE(bv(mx), v) for v in oks]) if oks else (mx == 0 if not is_sym(mx) else bv(mx) == 0), wit))
        items.append(('max-is-an-answer', 'C13/fetched-epoch-is-no-proxy-epoch', zor([bv(mx) == v for v in oks]) if oks else True, wit))
        ctx.require_all(e, items)
        return 1
    res = ctx.explore('fetch_max_epoch over %d proxies' % n, run)
    ctx.ops += len(res)


def service_recovery(ctx, job):
    """the broker service's whole recovery call: addresses from the (restored, possibly stale) store, GETEPOCH from every
    proxy, MemoryStorage::recover_epoch: afterwards every served view is above the epoch of every proxy that answered"""
    import re
    def run(e):
        b = Broker(e); build(e, b, False, [0, 1], 's')
        addrs = b.proxy_addresses()
        # stale failure flag on a free proxy that is in fact alive (the flag comes from the restored snapshot)
        free = [a for a in addrs if a not in cluster_proxies(b)]
        if job.get('stale_flag') and free:
            fp = b.fld(b.mstore(), 'MetaStore', 'failed_proxies').v
            fp.items.append(RStr(free[0]))
        outcomes = {}
        for i, a in enumerate(addrs):
            alive = True if (job.get('stale_flag') and free and a == free[0]) or i >= 2 else (e.choose(2, 'alive-%d' % i) == 0)
            outcomes[a] = ('ok' if alive else 'noconn', z3.BitVec('pe%d' % i, 64))
            if alive: e.assume(z3.ULT(outcomes[a][1], (1 << 63)))
        fac = EpochFactory(outcomes)
        names = [nm for nm in e.mir.funcs if nm.endswith('::new') and 'Pooled' in e.mir.funcs[nm].ret]
        e.fn_stubs = [(re.compile(re.escape(nm) + '$'), (lambda e_, args: fac), 'PooledRedisClientFactory::new') for nm in names]
        storage = Struct('MemoryStorage', [Ref(Cell(Struct('Lock', [b.mstore()])), 'Arc')])
        b.store = storage.f[0].v.cell.v.f[0]
        sf = e.src.structs['MemBrokerService']
        svc = Struct('MemBrokerService', [Ref(Cell(storage), 'Arc') if f == 'storage' else Opaque('svc:' + f) for f in sf])
        fut = e.run_func(e.find_fn('MemBrokerService', 'recover_epoch'), [Ref(Cell(svc))])
        r = un(e.block_on(Ref(Cell(fut))))
        items = []
        def wit(m): return {'proxies': {a: (k, concretize(v, m) if k == 'ok' else None) for a, (k, v) in outcomes.items()}, 'stale_failed_flag_on': free[0] if job.get('stale_flag') and free else None,
                            'global_after': concretize(b.global_epoch_cell().v, m)}
        if r.variant != 0:
            items.append(('recovery-succeeds', 'C13/recovery-call-failed', False, wit)); ctx.require_all(e, items); return 1
        failed = sorted(sval(c.v) for c in deref_vec(r.f[0].v).cells)
        items.append(('unreachable-proxies-reported', 'C13/unreachable-proxy-not-reported', failed == sorted(a for a, (k, v) in outcomes.items() if k != 'ok'), wit))
        def views():
            its = []
            for addr in addrs:
                p = b.view_proxy(addr, 0)
                if p is None: continue
                ep = b.fld(p, 'Proxy', 'epoch').v
                for a2, (k, v) in outcomes.items():
                    if k == 'ok':
                        its.append(('served-epoch-above-every-reachable-proxy', 'C13/served-epoch-not-above-a-reachable-proxy-epoch', z3.UGT(bv(ep), v),
                                    lambda m, addr=addr, ep=ep, a2=a2: dict(wit(m), view_of=addr, served_epoch=concretize(ep, m), not_above=a2)))
            return ctx.require_all(e, items + its)
        e.sub_explore(views)
        return 1
    res = ctx.explore('service recovery stale_flag=%s' % job.get('stale_flag'), run)
    ctx.ops += len(res)


def worker(ctx, job):
    if job.get('kind') == 'service': return service_recovery(ctx, job)
    if job.get('kind') == 'fetch': fetch_epochs(ctx, job)
    else: scenario(ctx, job)


def run(ctx):
    quick = ctx.tier == 'quick'
    jobs = [{'kind': 'fetch', 'n': 2}, {'kind': 'fetch', 'n': 3}, {'kind': 'service'}, {'kind': 'service', 'stale_flag': True}]
    for current in ('fresh', 'older'):
        for second in (False, True):
            jobs.append({'current': current, 'second': second, 'shape': [0, 1]})
            if not quick: jobs.append({'current': current, 'second': second, 'shape': [0, 1, 0], 'mid_migration': True})
    jobs.append({'current': 'fresh', 'second': True, 'shape': [0, 1], 'mid_migration': True})
    jobs.append({'current': 'older', 'second': False, 'shape': [0, 1], 'bad_version': True})
    ctx.bounds = {'jobs': len(jobs), 'symbolic': 'global/cluster epochs of snapshot and current store, largest proxy epoch L (full u64)', 'clusters': '<= 2', 'free proxies': 'yes'}
    ctx.assumptions += ['proxy epochs e_i <= L (L is the maximum fetched)', 'global epoch of both stores < 2^63']
    ctx.not_explored += ['re-convergence of proxies after sync rounds (see C07 for one proxy)', 'the transport under fetch_max_epoch (PooledRedisClientFactory is a stand-in; outcomes per proxy are enumerated)', 'replica-broker replication']
    ctx.bounds['fetch_max_epoch'] = '2-3 proxies, each answering a symbolic epoch / unreachable / connection broken / non-integer reply'
    ctx.run_parallel(jobs, worker)
