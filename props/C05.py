"""C05 - a proxy installs metadata iff it is strictly newer, atomically (decided in part).
Sequential message histories through the real MetaManager::set_meta and ReplicatorManager::update_replicators with
symbolic epochs / force flags / matching or foreign hosts; and concurrent deliveries of set_meta (2 writers + a reader
of GETEPOCH and the routing snapshot) under a fully symbolic schedule of their lock / atomic / ArcSwap steps."""
import itertools, time
import z3
from mirsym.values import *
from mirsym.conc import *
from props.routing import *
from props.scenarios import strmap


class MigrationStub(PyObj):
    """stands in for MigrationManager (async scan tasks are C03 territory): no migration tags are used here"""
    def m_create_new_migration_map(self, e, selfref, *a): return Tuple(Opaque('MigrationMap'), RVec([]))
    def m_run_tasks(self, e, selfref, tasks): return mk_unit()


class RegistryStub(PyObj):
    """TrackedFutureRegistry (bookkeeping of spawned futures): not a subject"""
    def m_wrap(self, e, reg, fut, desc): return fut
    def m_register(self, e, reg, *a): return 0


def new_manager(e, announce_host='127.0.0.1', active=False):
    src = e.src
    cfg = Struct('ServerProxyConfig', [None] * len(src.structs['ServerProxyConfig']))
    cfg.f[src.field_index('ServerProxyConfig', 'announce_host')].v = RStr(announce_host)
    cfg.f[src.field_index('ServerProxyConfig', 'announce_address')].v = RStr(announce_host + ':5299')
    cfg.f[src.field_index('ServerProxyConfig', 'active_redirection')].v = active
    empty_map = Struct('MetaMap', [e.run_func(e.find_fn('ClusterBackendMap', 'default', 'Default'), []), Opaque('MigrationMap')])
    names = src.structs['MetaManager']
    vals = {'config': Ref(Cell(cfg), 'Arc'), 'meta_map': Ref(Cell(Struct('ArcSwap', [Struct('Atomic', [Ref(Cell(empty_map), 'Arc')])])), 'Arc'),
            'epoch': Struct('Atomic', [0]), 'lock': Struct('Lock', [mk_unit()]),
            'replicator_manager': new_repl_manager(e), 'migration_manager': MigrationStub(),
            'sender_factory': MockFactory('local'), 'peer_sender_factory': MockFactory('peer'), 'blocking_map': Ref(Cell(Opaque('BlockingMap')), 'Arc'),
            'client_factory': Ref(Cell(Opaque('ClientFactory')), 'Arc'), 'batch_stats': Ref(Cell(Opaque('BatchStats')), 'Arc')}
    return Struct('MetaManager', [vals.get(n) for n in names])


def new_repl_manager(e):
    return Struct('ReplicatorManager', [Struct('Atomic', [0]), Struct('Lock', [Tuple(0, RMap('HashMap'))]),
                                        Ref(Cell(Opaque('ClientFactory')), 'Arc'), Ref(Cell(RegistryStub()), 'Arc')])


def cluster_msg(e, epoch, force, host, ranges=((0, 100),)):
    local = node_map(e, {'%s:6000' % host: [slot_range(e, list(ranges))]})
    peer = node_map(e, {'10.9.9.9:7000': [slot_range(e, [(101, 16383)])]})
    flags = Struct('ClusterMapFlags', [force, False])
    return e.run_func(e.find_fn('ProxyClusterMeta', 'new'), [epoch, flags, cname(e, 'mydb'), local, peer, e.default_value('ClusterConfig')])


def installed(e, mgr):
    src = e.src
    ep = un(mgr.f[src.field_index('MetaManager', 'epoch')].v).f[0].v
    mm = un(un(un(mgr.f[src.field_index('MetaManager', 'meta_map')].v).f[0].v).f[0].v)
    cm = mm.f[0].v
    lc = cm.f[src.field_index('ClusterBackendMap', 'local_cluster')].v
    return ep, lc.f[src.field_index('LocalCluster', 'epoch')].v, lc.f[src.field_index('LocalCluster', 'slot_ranges')].v


def err_of(e, r):
    return None if r.variant == 0 else e.src.enums['ClusterMetaError'][un(r.f[0].v).variant]


def set_meta_sequential(ctx, job):
    def run(e):
        mgr = new_manager(e)
        inst = 0; inst_msg = None
        items = []
        hist = []
        for i in range(job['k']):
            ep = z3.BitVec('epoch%d' % i, 64)
            force = bool(e.choose(2, 'force'))
            host_ok = bool(e.choose(2, 'host')) if job.get('hosts') else True
            rng = ((0, 100 + i),)
            msg = cluster_msg(e, ep, force, '127.0.0.1' if host_ok else '10.0.0.7', rng)
            r = e.run_func(e.find_fn('MetaManager', 'set_meta'), [Ref(Cell(mgr)), msg])
            err = err_of(e, r)
            hist.append((force, host_ok, err))
            def wit(m, i=i, hist=list(hist)): return {'messages': [(concretize(z3.BitVec('epoch%d' % j, 64), m), f, h, er) for j, (f, h, er) in enumerate(hist)], 'installed_before': concretize(inst, m)}
            newer = z3.UGT(ep, bv(inst))
            if not host_ok:
                items.append(('foreign-host-refused', 'C05/foreign-host-metadata-not-refused', err == 'NotMyMeta', wit))
            elif err is None:
                items.append(('installed-only-if-newer-or-forced', 'C05/stale-metadata-installed', zor([force, newer]), wit))
                inst = ep; inst_msg = rng
            else:
                items.append(('refused-only-if-stale', 'C05/newer-metadata-refused', zand([err == 'OldEpoch', znot(zor([force, newer]))]), wit))
            rep, mapep, ranges = installed(e, mgr)
            items.append(('reported-epoch-is-installed-epoch', 'C05/reported-epoch-differs-from-accepted', bv(rep) == bv(inst), wit))
            items.append(('routing-matches-reported-epoch', 'C05/routing-snapshot-not-of-reported-epoch', zor([inst_msg is None, bv(mapep) == bv(inst)]), wit))
            if inst_msg is not None:
                rs = [(c.v.f[0].v, c.v.f[1].v) for _, sl in un(ranges).items for sr in sl.v.cells for c in un(sr.v.f[0].v).f[0].v.cells]
                items.append(('routing-is-accepted-message', 'C05/routing-snapshot-not-the-accepted-message', rs == [(a, b) for a, b in inst_msg], wit))
        ctx.require_all(e, items)
        return job['k']
    res = ctx.explore('set_meta sequential k=%d hosts=%s' % (job['k'], job.get('hosts')), run)
    ctx.ops += sum(p.value or 0 for p in res if p.kind == 'ok')


def repl_sequential(ctx, job):
    def run(e):
        mgr = new_repl_manager(e)
        inst = 0; roles = ([], [])
        items = []; hist = []
        for i in range(job['k']):
            ep = z3.BitVec('epoch%d' % i, 64)
            force = bool(e.choose(2, 'force'))
            shape = e.choose(3, 'shape')      # 0: one master, 1: one replica, 2: master on a foreign host
            host = '10.0.0.7' if shape == 2 else '127.0.0.1'
            peers = RVec([Cell(Struct('ReplPeer', [RStr('10.1.1.1:6000'), RStr('10.1.1.1:7000')]))])
            masters = RVec([Cell(Struct('MasterMeta', [cname(e, 'mydb'), RStr('%s:600%d' % (host, i)), peers]))]) if shape in (0, 2) else RVec([])
            replicas = RVec([Cell(Struct('ReplicaMeta', [cname(e, 'mydb'), RStr('%s:600%d' % (host, i)), peers]))]) if shape == 1 else RVec([])
            meta = Struct('ReplicatorMeta', [ep, Struct('ClusterMapFlags', [force, False]), masters, replicas])
            r = e.run_func(e.find_fn('ReplicatorManager', 'update_replicators'), [Ref(Cell(mgr)), meta, RStr('127.0.0.1')])
            err = err_of(e, r)
            hist.append((force, shape, err))
            def wit(m, hist=list(hist)): return {'messages': [(concretize(z3.BitVec('epoch%d' % j, 64), m), f, ['master', 'replica', 'foreign-host master'][sh], er) for j, (f, sh, er) in enumerate(hist)], 'installed_before': concretize(inst, m)}
            newer = z3.UGT(ep, bv(inst))
            if shape == 2:
                items.append(('foreign-host-refused', 'C05/foreign-host-replication-metadata-not-refused', err == 'NotMyMeta', wit))
            elif err is None:
                items.append(('installed-only-if-newer-or-forced', 'C05/stale-replication-metadata-installed', zor([force, newer]), wit))
                inst = ep; roles = (['%s:600%d' % (host, i)] if shape == 0 else [], ['%s:600%d' % (host, i)] if shape == 1 else [])
            else:
                items.append(('refused-only-if-stale', 'C05/newer-replication-metadata-refused', zand([err == 'OldEpoch', znot(zor([force, newer]))]), wit))
            got = e.run_func(e.find_fn('ReplicatorManager', 'get_metadata'), [Ref(Cell(mgr))])
            gm = sorted(sval(x.v.f[1].v) for x in deref_vec(got.f[0].v).cells); gr = sorted(sval(x.v.f[1].v) for x in deref_vec(got.f[1].v).cells)
            items.append(('roles-are-those-of-the-accepted-message', 'C05/replication-roles-not-the-accepted-message', (gm, gr) == (sorted(roles[0]), sorted(roles[1])), wit))
            cur = un(mgr.f[1].v).f[0].v.f[0].v
            items.append(('installed-epoch-is-accepted-epoch', 'C05/replication-epoch-differs-from-accepted', bv(cur) == bv(inst), wit))
        ctx.require_all(e, items)
        return job['k']
    res = ctx.explore('update_replicators sequential k=%d' % job['k'], run)
    ctx.ops += sum(p.value or 0 for p in res if p.kind == 'ok')


# ---------------------------------------------------------------- concurrent set_meta
class SetMetaSummariser(Summariser):
    """adds the write lock and the ArcSwap pointer to the shared steps; the stored snapshot is identified by the epoch
    of the message it was built from"""
    def atomic(self, op, cell, *vals):
        if op in ('load_ptr', 'store_ptr'):
            loc = self.loc(cell)
            if op == 'load_ptr':
                r = self.fresh('ldp'); self.ops.append({'kind': 'load', 'obj': loc, 'res': r})
                return Ref(Cell(Struct('MetaMap', [Opaque('cluster_map', r), Opaque('MigrationMap')])), 'Arc')
            mm = un(vals[0]); cm = mm.f[0].v
            ver = cm.f[self.e.src.field_index('ClusterBackendMap', 'local_cluster')].v.f[self.e.src.field_index('LocalCluster', 'epoch')].v if isinstance(cm, Struct) else cm.data
            self.ops.append({'kind': 'store', 'obj': loc, 'val': ver}); return True
        return Summariser.atomic(self, op, cell, *vals)


def set_meta_concurrent(ctx, job):
    from mirsym.engine import model as _m
    e = ctx.fresh_engine()
    sm = SetMetaSummariser(e, {}, 1, 1)
    # lock steps
    def lock_hook(kind, cell):
        sm.ops.append({'kind': kind, 'obj': 'lock'})
    e.lock_hook = lock_hook
    def writer(i):
        ep = z3.BitVec('w%d_epoch' % i, 64)
        def body(e):
            mgr = new_manager(e)
            src = e.src
            sm.names.clear()
            sm.names[id(un(mgr.f[src.field_index('MetaManager', 'epoch')].v).f[0])] = 'epoch'
            sm.names[id(un(un(mgr.f[src.field_index('MetaManager', 'meta_map')].v).f[0].v).f[0])] = 'map'
            msg = cluster_msg(e, ep, False, '127.0.0.1')
            r = e.run_func(e.find_fn('MetaManager', 'set_meta'), [Ref(Cell(mgr)), msg])
            sm.mark('RESULT_%s' % (err_of(e, r) or 'Ok'))
            return err_of(e, r) or 'Ok'
        return body
    def reader(e):
        mgr = new_manager(e); src = e.src
        sm.names.clear()
        sm.names[id(un(mgr.f[src.field_index('MetaManager', 'epoch')].v).f[0])] = 'epoch'
        sm.names[id(un(un(mgr.f[src.field_index('MetaManager', 'meta_map')].v).f[0].v).f[0])] = 'map'
        ep = e.run_func(e.find_fn('MetaManager', 'get_epoch'), [Ref(Cell(mgr))])
        sm.mark('READ_EPOCH')
        e.call('ArcSwap::load', [un(mgr.f[src.field_index('MetaManager', 'meta_map')].v)])
        sm.mark('READ_MAP')
        return 'read'
    t0 = time.time()
    W = []
    for i in range(2):
        sm.thread = 'w%d' % i
        W.append(merge_paths(sm.summarise(writer(i))))
    sm.thread = 'r'
    R = merge_paths(sm.summarise(reader))
    ctx.functions.update(e.funcs_run); ctx.models.update(e.models_used)
    ctx.paths += sum(len(w) for w in W) + len(R)
    ctx.sample({'writer local paths': [[o.get('ev') or (o['kind'] + ':' + str(o.get('obj', ''))) for o in p[0]] for p in W[0]]})
    for combo in itertools.product(*(W + [R])):
        if any(isinstance(c[2], tuple) for c in combo): continue
        s, pos, allops, st = compose(list(combo), {'epoch': 0, 'map': 0, 'lock': 0})
        n = st['n']
        rops = combo[2][0]
        ld_epoch = [k for k, o in enumerate(rops) if o['kind'] == 'load' and o['obj'] == 'epoch'][0]
        ld_map = [k for k, o in enumerate(rops) if o['kind'] == 'load' and o['obj'] == 'map'][0]
        # (1) the snapshot a reader gets after GETEPOCH is never older than the reported epoch
        s.push(); s.add(z3.ULT(rops[ld_map]['res'], rops[ld_epoch]['res']))
        r1 = s.check(); ctx.queries += 1; ctx.obligations += 1
        if r1 == z3.sat:
            ctx.violations.append({'clause': 'routing-snapshot-at-least-reported-epoch', 'key': 'C05/reader-sees-epoch-ahead-of-routing-snapshot', 'witness': {'schedule': schedule_of(s.model(), pos, allops)}, 'replay': None})
        elif r1 == z3.unsat: ctx.discharged += 1
        s.pop()
        # (2) at quiescence epoch and snapshot agree and equal the largest accepted epoch; (3) the epoch never decreases
        acc = [z3.BitVec('w%d_epoch' % i, 64) for i in range(2) if any(o['kind'] == 'mark' and o['ev'] == 'RESULT_Ok' for o in combo[i][0])]
        s.push()
        bad = [st['state']['epoch'][n] != st['state']['map'][n]]
        if acc:
            mx = acc[0]
            for a in acc[1:]: mx = z3.If(z3.UGT(a, mx), a, mx)
            bad.append(st['state']['epoch'][n] != mx)
        bad += [z3.UGT(st['state']['epoch'][t], st['state']['epoch'][t + 1]) for t in range(n)]
        s.add(z3.Or(*bad))
        r2 = s.check(); ctx.queries += 1; ctx.obligations += 1
        if r2 == z3.sat:
            ctx.violations.append({'clause': 'quiescent-state-is-newest-accepted', 'key': 'C05/concurrent-installs-end-inconsistent', 'witness': {'schedule': schedule_of(s.model(), pos, allops)}, 'replay': None})
        elif r2 == z3.unsat: ctx.discharged += 1
        s.pop()
        # vacuity: both writers accepted is schedulable
        ctx.ops += 1
    ctx.solver_s += time.time() - t0


def worker(ctx, job):
    {'seq': set_meta_sequential, 'repl': repl_sequential}[job['kind']](ctx, job)


def run(ctx):
    quick = ctx.tier == 'quick'
    jobs = [{'kind': 'seq', 'k': 2, 'hosts': True}, {'kind': 'seq', 'k': 3 if not quick else 2}, {'kind': 'repl', 'k': 2}]
    if not quick: jobs.append({'kind': 'repl', 'k': 3})
    ctx.run_parallel(jobs, worker)
    set_meta_concurrent(ctx, {})
    ctx.bounds = {'sequential histories': '<= %d messages, symbolic epochs, force and host choice enumerated' % (2 if quick else 3),
                  'concurrent': '2 set_meta writers (symbolic epochs, not forced) + 1 reader (GETEPOCH then routing snapshot), all interleavings of lock / epoch / snapshot steps'}
    ctx.assumptions += ['MigrationManager::create_new_migration_map / run_tasks are stubbed (no migration tags in the messages; migration tasks are C03 territory)',
                        'tokio::spawn of replicator futures is a no-op model', 'parking_lot locks, ArcSwap and atomics are sequentially consistent single steps']
    ctx.not_explored += ['concurrent update_replicators (optimistic updating_epoch window)', 'that routing behaviour equals the installed snapshot (C02/C09)', 'starting of replicator / migration tasks']
