#!/bin/sh
# Std-idiom probe for the MIR executor's model library: 23 self-checking tests over std idioms a refactor may introduce
# (iterator adaptors, Option/Result combinators, Vec/slice/HashMap/BTreeMap/VecDeque/String/integer methods, mem::take,
# closures, labelled breaks, RefCell) are added to a scratch copy of /repo, run natively (must pass) and interpreted
# from their MIR (must pass too; "unmodelled" marks a gap that would turn a refactor using it into exit 2).
# usage: tools/idiom_probe.sh     (scratch copy under /root/scratch, own work dir; nothing registered depends on it)
set -e
S=/root/scratch/idioms_repo; mkdir -p $S
rsync -a --delete /repo/src /repo/Cargo.toml /repo/Cargo.lock /repo/tests /repo/examples /repo/benches $S/ 2>/dev/null || true
cp /verif/tools/idioms/verif_idioms.rs $S/src/common/verif_idioms.rs
printf '#[cfg(test)]\nmod verif_idioms;\n' >> $S/src/common/mod.rs
(cd $S && CARGO_NET_OFFLINE=true cargo test --offline --lib verif_idioms 2>&1 | grep -E "^test result")
export VERIF_REPO=$S VERIF_WORK=/root/.cache/undermoon-verif-idioms
cd /verif
python3-vt -c "from vlib import overlay; overlay.mir_dump()"
python3-vt -m mirsym.conformance $VERIF_WORK/mir/mir.txt $VERIF_WORK/crate 'verif_idioms::tests::' | tail -30
