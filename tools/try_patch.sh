#!/bin/sh
# usage: tools/try_patch.sh <patch.diff> <ID> [<ID>...]   -- applies a seeded change to /repo, runs the quick checks, reverts.
# The evidence files of the checks are saved and restored: committed evidence must come from the unchanged tree.
P="$1"; shift
git -C /repo apply "$P" || { echo "patch does not apply"; exit 3; }
SAVE=$(mktemp -d /root/scratch/evsave.XXXXXX)
for id in "$@"; do
  [ -f /verif/evidence/$id.json ] && cp /verif/evidence/$id.json $SAVE/$id.json
  echo "=== $id on $(basename $(dirname $P))/$(basename $P)"
  (cd /verif && ./check $id --tier ${TIER:-quick} 2>&1 | grep -E "VIOLATION|KNOWN-FINDING|INCONCLUSIVE|obligations" | cut -c1-300)
  [ -f $SAVE/$id.json ] && cp $SAVE/$id.json /verif/evidence/$id.json
done
rm -rf $SAVE
git -C /repo checkout -- .
git -C /repo status --short
