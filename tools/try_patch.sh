#!/bin/sh
# usage: tools/try_patch.sh <patch.diff> <ID> [<ID>...]   -- applies a seeded change to /repo, runs the quick checks, reverts
P="$1"; shift
git -C /repo apply "$P" || { echo "patch does not apply"; exit 3; }
for id in "$@"; do
  echo "=== $id on $(basename $(dirname $P))/$(basename $P)"
  (cd /verif && ./check $id --tier ${TIER:-quick} 2>&1 | grep -E "VIOLATION|KNOWN-FINDING|INCONCLUSIVE|obligations" | cut -c1-300)
done
git -C /repo checkout -- .
git -C /repo status --short
