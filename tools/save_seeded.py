#!/usr/bin/env python3
"""usage: save_seeded.py <worktree>/out/<n> <seeded id> <property> <verify RESULT line> <detected_by text> [base commit]"""
import sys, os, json, shutil, re
src, sid, pid, result, detected = sys.argv[1:6]
base = sys.argv[6] if len(sys.argv) > 6 else ''
d = os.path.join('/verif/seeded', sid); os.makedirs(d, exist_ok=True)
for f in ('patch.diff', 'demo.diff', 'README.md'):
    if os.path.exists(os.path.join(src, f)): shutil.copy(os.path.join(src, f), os.path.join(d, f))
readme = open(os.path.join(d, 'README.md')).read() if os.path.exists(os.path.join(d, 'README.md')) else ''
meta = {'property': pid, 'origin': 'independent sub-agent given only the property text and a scratch worktree', 'base_commit': base,
        'needs_to_manifest': ' '.join(readme.split('\n')[:12])[:1500],
        'confirmed_by_me': {'command': 'tools/verify_mutant.sh %s %s' % (os.path.dirname(os.path.dirname(src)), os.path.basename(src)), 'result': result},
        'detected_by': detected, 'checked_with': 'tools/try_patch.sh seeded/%s/patch.diff %s' % (sid, pid)}
json.dump(meta, open(os.path.join(d, 'meta.json'), 'w'), indent=1)
print('saved', d)
