#!/usr/bin/env python3
"""rewrites the measured cost table in DESIGN.md (between the COST_TABLE markers) from evidence/*.json and tools/thorough_results.log"""
import subprocess, re
t = subprocess.run(['python3', '/verif/tools/cost_table.py', '/verif/tools/thorough_results.log'], stdout=subprocess.PIPE).stdout.decode()
s = open('/verif/DESIGN.md').read()
s = re.sub(r'<!-- COST_TABLE_BEGIN -->.*?<!-- COST_TABLE_END -->', '<!-- COST_TABLE_BEGIN -->\n' + t + '<!-- COST_TABLE_END -->', s, flags=re.S)
open('/verif/DESIGN.md', 'w').write(s)
