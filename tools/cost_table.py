#!/usr/bin/env python3
"""prints the measured cost table (markdown) from evidence/*.json (quick tier) and, if given, a thorough-run log"""
import json, glob, sys, re
th = {}
if len(sys.argv) > 1:
    for l in open(sys.argv[1], errors='replace'):
        m = re.match(r'(C\d+) exit=(\d+) (?:C\d+ thorough: (\d+) obligations, (\d+) discharged, (\d+) paths, (\d+) solver queries \(([\d.]+)s solver\), (\d+) violation key\(s\), ([\d.]+)s)?', l)
        if m: th[m.group(1)] = m.groups()
print('| id | quick: paths | obligations | solver queries | solver s | wall s | thorough: paths | obligations | wall s | exit |')
print('|---|---|---|---|---|---|---|---|---|---|')
for f in sorted(glob.glob('/verif/evidence/C*.json')):
    d = json.load(open(f)); c = d['coverage']; t = th.get(d['property_id'])
    tcols = '| %s | %s | %s | %s |' % (t[4], t[2], t[8], t[1]) if t and t[2] else ('| – | – | – | %s |' % (t[1] if t else '–'))
    print('| %s | %d | %d | %d | %.0f | %.0f %s' % (d['property_id'], c['states'], c['obligations'], c['evaluations'], c['solver_s'], d['wall_s'], tcols))
