#!/bin/sh
# usage: verify_mutant.sh <worktree> <n>     (expects <worktree>/out/<n>/{patch.diff,demo.diff})
# confirms: suite passes with the change; demo fails with the change; demo passes without it
WT="$1"; N="$2"; O="$WT/out/$N"
cd "$WT" || exit 9
git checkout -q -- . ; git clean -qfd src tests 2>/dev/null
git apply "$O/patch.diff" || { echo "RESULT patch-does-not-apply"; exit 1; }
cargo test --offline --workspace -j 5 > "$O/verify_suite.log" 2>&1; SUITE=$?
PASSED=$(grep -E "^test result" "$O/verify_suite.log" | awk '{s+=$4} END {print s}')
git apply "$O/demo.diff" || { echo "RESULT demo-does-not-apply-on-changed-tree"; git checkout -q -- .; exit 1; }
NAMES=$(grep -E "^\+\s*(mod|fn) " "$O/demo.diff" | grep -E "mod " | sed -E 's/.*mod ([a-zA-Z0-9_]+).*/\1/' | head -3 | tr '\n' ' ')
FAILED_WITH=0
for m in $NAMES; do cargo test --offline --workspace -j 5 $m > "$O/verify_demo_with.log" 2>&1 || FAILED_WITH=1; done
git checkout -q -- . ; git clean -qfd src tests 2>/dev/null
git apply "$O/demo.diff"
PASS_WITHOUT=1
for m in $NAMES; do cargo test --offline --workspace -j 5 $m > "$O/verify_demo_without.log" 2>&1 || PASS_WITHOUT=0; done
RAN=$(grep -E "^test result" "$O/verify_demo_without.log" | awk '{s+=$4} END {print s}')
git checkout -q -- . ; git clean -qfd src tests 2>/dev/null
echo "RESULT suite_exit=$SUITE suite_passed=$PASSED demo_mods='$NAMES' demo_fails_with_change=$FAILED_WITH demo_passes_without=$PASS_WITHOUT demo_tests_run_clean=$RAN"
