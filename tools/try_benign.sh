#!/bin/sh
# usage: tools/try_benign.sh <patch.diff> [<ID>...]  -- applies a behaviour-preserving change to /repo, runs the quick
# checks (all registered ones by default) and reverts.  Every check is expected to exit 0 without a VIOLATION line; a
# non-zero exit here is a false alarm (exit 1) or a brittle harness (exit 2) to be corrected in the machinery.
P="$1"; shift
git -C /repo apply "$P" || { echo "patch does not apply"; exit 3; }
IDS="$*"; [ -z "$IDS" ] && IDS=$(python3 -c "import json; print(' '.join(c['property_id'] for c in json.load(open('/verif/MANIFEST.json'))['checks']))")
SAVE=$(mktemp -d /root/scratch/evsave.XXXXXX); cp /verif/evidence/*.json $SAVE/
for id in $IDS; do
  (cd /verif && ./check $id --tier quick > $SAVE/$id.log 2>&1); rc=$?
  echo "$id exit=$rc $(grep -E 'obligations' $SAVE/$id.log | cut -c1-120)"
  [ $rc -ne 0 ] && grep -E "VIOLATION|INCONCLUSIVE|Unmodelled|unmodelled|Error|error" $SAVE/$id.log | head -5 | cut -c1-300
done
cp $SAVE/*.json /verif/evidence/; rm -rf $SAVE
git -C /repo checkout -- .
git -C /repo status --short
