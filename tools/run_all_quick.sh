#!/bin/sh
# run every registered quick check on the current /repo tree; prints one status line per check
cd /verif
git -C /repo diff --quiet || echo "WARNING: /repo has uncommitted changes"
for id in $(python3 -c "import json; print(' '.join(c['property_id'] for c in json.load(open('MANIFEST.json'))['checks']))"); do
  ./check $id --tier quick > /tmp/rq_$id.log 2>&1; rc=$?
  echo "$id exit=$rc $(grep -E 'obligations' /tmp/rq_$id.log | cut -c1-150)"
  grep -E "^VIOLATION|^INCONCLUSIVE" /tmp/rq_$id.log | cut -c1-200
done
