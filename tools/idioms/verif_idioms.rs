// std idioms a refactor may introduce: each test is self-checking on concrete values
#[cfg(test)]
mod tests {
    use std::cmp;
    use std::convert::TryFrom;
    use std::collections::{BTreeMap, BTreeSet, HashMap, HashSet, VecDeque};

    fn v() -> Vec<u64> {
        vec![5, 3, 8, 1, 9, 2]
    }

    #[test]
    fn test_iter_any_all() {
        assert!(v().iter().any(|x| *x == 8));
        assert!(!v().iter().all(|x| *x > 1));
        assert!(v().iter().all(|x| *x > 0));
    }
    #[test]
    fn test_iter_filter_map_collect() {
        let r: Vec<u64> = v().iter().filter_map(|x| if x % 2 == 1 { Some(x * 10) } else { None }).collect();
        assert_eq!(r, vec![50, 30, 10, 90]);
    }
    #[test]
    fn test_iter_position_find() {
        assert_eq!(v().iter().position(|x| *x == 1), Some(3));
        assert_eq!(v().iter().find(|x| **x > 7).cloned(), Some(8));
        assert_eq!(v().iter().rposition(|x| *x > 7), Some(4));
    }
    #[test]
    fn test_iter_sum_count_minmax() {
        assert_eq!(v().iter().sum::<u64>(), 28);
        assert_eq!(v().iter().filter(|x| **x > 2).count(), 4);
        assert_eq!(v().iter().max().cloned(), Some(9));
        assert_eq!(v().iter().min().cloned(), Some(1));
        assert_eq!(v().iter().map(|x| x * 2).max(), Some(18));
    }
    #[test]
    fn test_iter_fold_zip_rev() {
        assert_eq!(v().iter().fold(0u64, |a, x| a * 2 + x), ((((5 * 2 + 3) * 2 + 8) * 2 + 1) * 2 + 9) * 2 + 2);
        let z: Vec<(u64, u64)> = v().iter().cloned().zip(v().iter().rev().cloned()).take(2).collect();
        assert_eq!(z, vec![(5, 2), (3, 9)]);
    }
    #[test]
    fn test_iter_skip_take_while_step() {
        let a: Vec<u64> = v().into_iter().skip(1).take_while(|x| *x != 9).collect();
        assert_eq!(a, vec![3, 8, 1]);
        let b: Vec<u64> = v().into_iter().skip_while(|x| *x != 8).step_by(2).collect();
        assert_eq!(b, vec![8, 9]);
    }
    #[test]
    fn test_iter_flat_map_chain_enumerate() {
        let a: Vec<u64> = vec![vec![1u64, 2], vec![], vec![3]].into_iter().flat_map(|x| x.into_iter()).chain(std::iter::once(7)).collect();
        assert_eq!(a, vec![1, 2, 3, 7]);
        let b: Vec<(usize, u64)> = v().into_iter().enumerate().filter(|(i, _)| i % 3 == 0).collect();
        assert_eq!(b, vec![(0, 5), (3, 1)]);
        let c: Vec<u64> = vec![vec![1u64], vec![4, 5]].into_iter().flatten().collect();
        assert_eq!(c, vec![1, 4, 5]);
    }
    #[test]
    fn test_iter_last_nth_peekable() {
        assert_eq!(v().iter().last().cloned(), Some(2));
        assert_eq!(v().iter().nth(2).cloned(), Some(8));
        let mut it = v().into_iter().peekable();
        assert_eq!(it.peek().cloned(), Some(5));
        assert_eq!(it.next(), Some(5));
        assert_eq!(it.next(), Some(3));
    }
    #[test]
    fn test_iter_min_by_key_max_by() {
        let w = vec![("a", 3u64), ("b", 1), ("c", 7)];
        assert_eq!(w.iter().min_by_key(|x| x.1).map(|x| x.0), Some("b"));
        assert_eq!(w.iter().max_by(|x, y| x.1.cmp(&y.1)).map(|x| x.0), Some("c"));
    }
    #[test]
    fn test_iter_partition_unzip() {
        let (a, b): (Vec<u64>, Vec<u64>) = v().into_iter().partition(|x| *x > 4);
        assert_eq!(a, vec![5, 8, 9]);
        assert_eq!(b, vec![3, 1, 2]);
        let (c, d): (Vec<u64>, Vec<bool>) = v().into_iter().map(|x| (x, x > 4)).unzip();
        assert_eq!(c.len(), 6);
        assert_eq!(d[0], true);
    }
    #[test]
    fn test_vec_retain_dedup_truncate() {
        let mut a = v();
        a.retain(|x| *x != 8);
        assert_eq!(a, vec![5, 3, 1, 9, 2]);
        a.truncate(3);
        assert_eq!(a, vec![5, 3, 1]);
        let mut b = vec![1u64, 1, 2, 2, 2, 1];
        b.dedup();
        assert_eq!(b, vec![1, 2, 1]);
    }
    #[test]
    fn test_vec_sort_variants() {
        let mut a = v();
        a.sort_unstable();
        assert_eq!(a, vec![1, 2, 3, 5, 8, 9]);
        let mut b = v();
        b.sort_by_key(|x| cmp::Reverse(*x));
        assert_eq!(b, vec![9, 8, 5, 3, 2, 1]);
        let mut c = v();
        c.sort_by(|x, y| y.cmp(x));
        assert_eq!(c, b);
        assert_eq!(a.binary_search(&5), Ok(3));
        assert_eq!(a.binary_search(&4), Err(3));
    }
    #[test]
    fn test_vec_drain_splice_extend() {
        let mut a = v();
        let d: Vec<u64> = a.drain(1..3).collect();
        assert_eq!(d, vec![3, 8]);
        assert_eq!(a, vec![5, 1, 9, 2]);
        a.extend_from_slice(&[7, 7]);
        a.extend(vec![4u64].into_iter());
        assert_eq!(a, vec![5, 1, 9, 2, 7, 7, 4]);
        a.insert(1, 6);
        assert_eq!(a.remove(0), 5);
        assert_eq!(a.swap_remove(0), 6);
        assert_eq!(a, vec![4, 1, 9, 2, 7, 7]);
        let t = a.split_off(4);
        assert_eq!(t, vec![7, 7]);
    }
    #[test]
    fn test_slice_ops() {
        let a = v();
        assert_eq!(a.first().cloned(), Some(5));
        assert_eq!(a.last().cloned(), Some(2));
        assert_eq!(a[1..3].to_vec(), vec![3, 8]);
        assert_eq!(a.get(1..3).map(|s| s.len()), Some(2));
        assert_eq!(a.get(7), None);
        assert!(a.contains(&9));
        assert!(a.starts_with(&[5, 3]));
        assert!(a.ends_with(&[2]));
        let (l, r) = a.split_at(2);
        assert_eq!((l.len(), r.len()), (2, 4));
        assert_eq!(a.chunks(4).map(|c| c.len()).collect::<Vec<_>>(), vec![4, 2]);
        assert_eq!(a.windows(2).filter(|w| w[0] < w[1]).count(), 2);
        assert_eq!(a.iter().rev().cloned().collect::<Vec<_>>(), vec![2, 9, 1, 8, 3, 5]);
        assert_eq!(a.concat_check(), 28);
        let mut b = vec![0u64; 5];
        b[1..4].fill(3);
        assert_eq!(b, vec![0, 3, 3, 3, 0]);
        b.swap(0, 1);
        b.reverse();
        assert_eq!(b, vec![0, 3, 3, 0, 3]);
        let (x, y) = a.split_first().map(|(h, t)| (*h, t.len())).unwrap();
        assert_eq!((x, y), (5, 5));
    }
    trait ConcatCheck {
        fn concat_check(&self) -> u64;
    }
    impl ConcatCheck for Vec<u64> {
        fn concat_check(&self) -> u64 {
            self.iter().copied().sum()
        }
    }
    #[test]
    fn test_option_combinators() {
        let a: Option<u64> = Some(4);
        let n: Option<u64> = None;
        assert_eq!(a.map_or(0, |x| x + 1), 5);
        assert_eq!(n.map_or(0, |x| x + 1), 0);
        assert_eq!(a.map_or_else(|| 9, |x| x * 2), 8);
        assert_eq!(a.and_then(|x| if x > 3 { Some(x) } else { None }), Some(4));
        assert_eq!(a.filter(|x| *x > 5), None);
        assert_eq!(n.or(Some(1)), Some(1));
        assert_eq!(n.or_else(|| Some(2)), Some(2));
        assert_eq!(n.unwrap_or_default(), 0);
        assert_eq!(a.unwrap_or_else(|| 7), 4);
        assert_eq!(a.ok_or("e"), Ok(4));
        assert_eq!(n.ok_or_else(|| "e"), Err("e"));
        assert_eq!(a.zip(Some(1u8)), Some((4, 1)));
        assert_eq!(a.xor(n), Some(4));
        assert!(a.is_some() && n.is_none());
        let mut t = Some(3u64);
        assert_eq!(t.take(), Some(3));
        assert_eq!(t, None);
        assert_eq!(t.replace(5), None);
        assert_eq!(*t.get_or_insert(6), 5);
        assert_eq!(t.as_ref().map(|x| *x + 1), Some(6));
        if let Some(x) = t.as_mut() {
            *x += 1;
        }
        assert_eq!(t, Some(6));
        assert_eq!(Some(Some(1u8)).flatten(), Some(1));
        assert_eq!(a.iter().count(), 1);
        assert!(matches!(a, Some(x) if x == 4));
    }
    #[test]
    fn test_result_combinators() {
        let a: Result<u64, String> = Ok(4);
        let e: Result<u64, String> = Err("bad".to_string());
        assert_eq!(a.clone().map(|x| x + 1), Ok(5));
        assert_eq!(e.clone().map_err(|s| s.len()), Err(3));
        assert_eq!(a.clone().and_then(|x| if x > 9 { Ok(x) } else { Err("small".to_string()) }), Err("small".to_string()));
        assert_eq!(e.clone().unwrap_or(1), 1);
        assert_eq!(e.clone().unwrap_or_else(|s| s.len() as u64), 3);
        assert_eq!(e.clone().unwrap_or_default(), 0);
        assert_eq!(a.clone().ok(), Some(4));
        assert_eq!(e.clone().err(), Some("bad".to_string()));
        assert_eq!(e.clone().or_else(|_| Ok::<u64, String>(2)), Ok(2));
        assert!(a.is_ok() && e.is_err());
        assert_eq!(a.as_ref().map(|x| *x), Ok(4));
        let r: Result<Vec<u64>, String> = vec![Ok(1), Err("x".to_string()), Ok(3)].into_iter().collect();
        assert_eq!(r, Err("x".to_string()));
        let r2: Result<Vec<u64>, String> = vec![Ok(1), Ok(3)].into_iter().collect();
        assert_eq!(r2, Ok(vec![1, 3]));
        let o: Option<Vec<u64>> = vec![Some(1), None].into_iter().collect();
        assert_eq!(o, None);
        fn q(x: Result<u64, String>) -> Result<u64, String> {
            let y = x?;
            Ok(y + 1)
        }
        assert_eq!(q(a), Ok(5));
        assert_eq!(q(e), Err("bad".to_string()));
        assert_eq!(Some(Ok::<u8, u8>(1)).transpose(), Ok(Some(1)));
    }
    #[test]
    fn test_hashmap_ops() {
        let mut m: HashMap<String, u64> = HashMap::new();
        *m.entry("a".to_string()).or_insert(0) += 2;
        *m.entry("a".to_string()).or_insert(0) += 3;
        m.entry("b".to_string()).or_insert_with(|| 7);
        *m.entry("c".to_string()).or_default() += 1;
        assert_eq!(m.get("a").cloned(), Some(5));
        assert_eq!(m.len(), 3);
        assert!(m.contains_key("b"));
        assert_eq!(m.remove("b"), Some(7));
        for v in m.values_mut() {
            *v += 1;
        }
        assert_eq!(m["a"], 6);
        m.retain(|_, v| *v > 2);
        assert_eq!(m.keys().cloned().collect::<Vec<_>>(), vec!["a".to_string()]);
        if let Some(v) = m.get_mut("a") {
            *v = 1;
        }
        assert_eq!(m.values().sum::<u64>(), 1);
        assert_eq!(m.insert("a".to_string(), 9), Some(1));
        let m2: HashMap<u64, u64> = vec![(1, 2), (3, 4)].into_iter().collect();
        let mut ks: Vec<u64> = m2.iter().map(|(k, v)| k + v).collect();
        ks.sort();
        assert_eq!(ks, vec![3, 7]);
        assert_eq!(m2.get(&3).copied().unwrap_or(0), 4);
        assert!(m2.iter().any(|(k, _)| *k == 1));
        m.clear();
        assert!(m.is_empty());
    }
    #[test]
    fn test_hashset_btree_deque() {
        let mut s: HashSet<u64> = v().into_iter().collect();
        assert!(s.insert(4));
        assert!(!s.insert(4));
        assert!(s.remove(&5));
        assert_eq!(s.len(), 6);
        let t: HashSet<u64> = vec![9, 4, 100].into_iter().collect();
        let mut i: Vec<u64> = s.intersection(&t).cloned().collect();
        i.sort();
        assert_eq!(i, vec![4, 9]);
        assert!(!s.is_subset(&t));
        let mut b: BTreeMap<u64, &str> = BTreeMap::new();
        b.insert(3, "c");
        b.insert(1, "a");
        assert_eq!(b.iter().next().map(|(k, _)| *k), Some(1));
        assert_eq!(b.values().cloned().collect::<Vec<_>>(), vec!["a", "c"]);
        let bs: BTreeSet<u64> = v().into_iter().collect();
        assert_eq!(bs.iter().next().cloned(), Some(1));
        let mut d: VecDeque<u64> = VecDeque::new();
        d.push_back(1);
        d.push_back(2);
        d.push_front(0);
        assert_eq!(d.pop_front(), Some(0));
        assert_eq!(d.back().cloned(), Some(2));
        assert_eq!(d.len(), 2);
        assert_eq!(d.iter().sum::<u64>(), 3);
        assert_eq!(d.pop_back(), Some(2));
    }
    #[test]
    fn test_string_ops() {
        let s = " Hello:World:42 ".to_string();
        let t = s.trim();
        assert!(t.starts_with("Hello") && t.ends_with("42"));
        let parts: Vec<&str> = t.split(':').collect();
        assert_eq!(parts, vec!["Hello", "World", "42"]);
        assert_eq!(parts[2].parse::<u64>().ok(), Some(42));
        assert_eq!(t.splitn(2, ':').nth(1), Some("World:42"));
        assert_eq!(t.rsplitn(2, ':').next(), Some("42"));
        assert_eq!(t.split_once(':'), Some(("Hello", "World:42")));
        assert_eq!(t.find(':'), Some(5));
        assert_eq!(t.to_uppercase(), "HELLO:WORLD:42");
        assert_eq!(t.to_lowercase(), "hello:world:42");
        assert!(t.eq_ignore_ascii_case("HELLO:world:42"));
        assert_eq!(t.replace(":", "-"), "Hello-World-42");
        let mut u = String::with_capacity(8);
        u.push_str("ab");
        u.push('c');
        u += "d";
        assert_eq!(u, "abcd");
        assert_eq!(u.len(), 4);
        assert_eq!(&u[1..3], "bc");
        assert_eq!(u.as_bytes()[0], b'a');
        assert_eq!(u.chars().rev().collect::<String>(), "dcba");
        assert_eq!(format!("{}:{}", "h", 7000), "h:7000");
        assert_eq!(vec!["a", "b"].join(","), "a,b");
        assert_eq!(["x".to_string(), "y".to_string()].concat(), "xy");
        assert!("abc" < "abd");
        assert_eq!("a b  c".split_whitespace().count(), 3);
        assert_eq!("k=v".strip_prefix("k="), Some("v"));
        assert_eq!("k=v".strip_suffix("=v"), Some("k"));
        assert_eq!("12".parse::<usize>().map_err(|_| ()), Ok(12));
        assert!("x1".parse::<u64>().is_err());
        assert_eq!(String::from_utf8(vec![104, 105]).ok(), Some("hi".to_string()));
        assert_eq!(String::from_utf8_lossy(&[104, 105]).to_string(), "hi");
        assert_eq!(std::str::from_utf8(&[104]).ok(), Some("h"));
        assert!("".is_empty());
        assert_eq!("abc".char_indices().map(|(i, _)| i).sum::<usize>(), 3);
        assert_eq!("a,b".contains(','), true);
        assert_eq!("line1\nline2".lines().count(), 2);
    }
    #[test]
    fn test_int_ops() {
        let a: u64 = 10;
        assert_eq!(a.checked_sub(11), None);
        assert_eq!(a.checked_add(1), Some(11));
        assert_eq!(a.saturating_sub(11), 0);
        assert_eq!(u64::MAX.saturating_add(1), u64::MAX);
        assert_eq!(u64::MAX.wrapping_add(2), 1);
        assert_eq!(a.checked_mul(u64::MAX), None);
        assert_eq!(a.checked_div(0), None);
        assert_eq!(a.pow(2), 100);
        assert_eq!(cmp::min(a, 3), 3);
        assert_eq!(cmp::max(a, 3), 10);
        assert_eq!(a.min(3).max(5), 5);
        assert_eq!(a.clamp(0, 4), 4);
        assert_eq!((a as usize) / 3, 3);
        assert_eq!(a % 3, 1);
        assert_eq!(a.overflowing_sub(11), (u64::MAX, true));
        assert_eq!((-3i64).abs(), 3);
        assert_eq!(7u64.leading_zeros(), 61);
        assert_eq!(8u64.trailing_zeros(), 3);
        assert_eq!(a.to_string(), "10");
        assert_eq!(u16::try_from(70000u64).is_err(), true);
        assert_eq!(u8::try_from(200u64).ok(), Some(200u8));
        assert_eq!(usize::from(3u8), 3);
        assert_eq!(i64::from(3u32), 3);
        assert_eq!(a.cmp(&3), cmp::Ordering::Greater);
        assert_eq!(a.partial_cmp(&30), Some(cmp::Ordering::Less));
        assert_eq!((1u64..4).map(|x| x * x).sum::<u64>(), 14);
        assert_eq!((1u64..=4).rev().next(), Some(4));
        assert!((1..4).contains(&3));
        assert_eq!(u64::from_str_radix("ff", 16).ok(), Some(255));
        assert_eq!(a.count_ones(), 2);
        assert_eq!(a.is_power_of_two(), false);
        assert_eq!(a.abs_diff(13), 3);
        assert_eq!(a.div_euclid(3), 3);
        assert_eq!(a.rem_euclid(3), 1);
    }
    #[test]
    fn test_mem_and_misc() {
        let mut a = v();
        let b = std::mem::take(&mut a);
        assert!(a.is_empty());
        assert_eq!(b.len(), 6);
        let mut c = 3u64;
        let old = std::mem::replace(&mut c, 4);
        assert_eq!((old, c), (3, 4));
        let mut d = 1u64;
        std::mem::swap(&mut c, &mut d);
        assert_eq!((c, d), (1, 4));
        let t = (1u64, "x");
        let (p, q) = t;
        assert_eq!((p, q), (1, "x"));
        let arr = [1u64, 2, 3];
        assert_eq!(arr.iter().map(|x| x + 1).collect::<Vec<_>>(), vec![2, 3, 4]);
        assert_eq!(arr.len(), 3);
        let bx = Box::new(5u64);
        assert_eq!(*bx + 1, 6);
        let rc = std::sync::Arc::new(7u64);
        let rc2 = rc.clone();
        assert_eq!(*rc2, 7);
        let cell = std::cell::RefCell::new(1u64);
        *cell.borrow_mut() += 1;
        assert_eq!(*cell.borrow(), 2);
        let cc = std::cell::Cell::new(1u64);
        cc.set(cc.get() + 1);
        assert_eq!(cc.get(), 2);
        let o: Option<&u64> = arr.iter().next();
        assert_eq!(o.copied(), Some(1));
        assert_eq!(Some(&3u64).cloned(), Some(3));
        let dflt: (u64, String, Vec<u8>, Option<u8>, bool) = Default::default();
        assert_eq!(dflt.0, 0);
        assert!(dflt.1.is_empty() && dflt.2.is_empty() && dflt.3.is_none() && !dflt.4);
    }
    #[test]
    fn test_closures_and_loops() {
        let mut acc = vec![];
        let mut push = |x: u64| acc.push(x * 2);
        push(1);
        push(2);
        assert_eq!(acc, vec![2, 4]);
        let mut i = 0;
        let r = loop {
            i += 1;
            if i == 5 {
                break i * 2;
            }
        };
        assert_eq!(r, 10);
        let mut n = 0;
        'outer: for a in 0..4 {
            for b in 0..4 {
                if a * b == 6 {
                    break 'outer;
                }
                n += 1;
            }
        }
        assert_eq!(n, 11);
        let mut w = vec![1u64, 2, 3];
        while let Some(x) = w.pop() {
            if x == 2 {
                break;
            }
        }
        assert_eq!(w, vec![1]);
        let f: Box<dyn Fn(u64) -> u64> = Box::new(move |x| x + r);
        assert_eq!(f(1), 11);
        fn apply<F: FnOnce(u64) -> u64>(f: F) -> u64 {
            f(3)
        }
        assert_eq!(apply(|x| x * x), 9);
        let label = match r {
            0 => "zero",
            1..=9 => "small",
            10 | 11 => "ten",
            _ => "big",
        };
        assert_eq!(label, "ten");
    }
    #[test]
    fn test_bytes_ops() {
        let b = b"SET key value".to_vec();
        let parts: Vec<&[u8]> = b.split(|c| *c == b' ').collect();
        assert_eq!(parts.len(), 3);
        assert_eq!(parts[0], b"SET");
        assert!(parts[0].eq_ignore_ascii_case(b"set"));
        assert_eq!(parts[1].to_ascii_uppercase(), b"KEY".to_vec());
        assert_eq!(b.iter().position(|c| *c == b' '), Some(3));
        assert_eq!(&b[..3], b"SET");
        let mut o = Vec::with_capacity(4);
        o.extend_from_slice(b"ab");
        o.push(b'c');
        o.extend(b"de".iter());
        assert_eq!(o, b"abcde".to_vec());
        assert_eq!(o.iter().rev().take(2).cloned().collect::<Vec<u8>>(), b"ed".to_vec());
        assert!(b'7'.is_ascii_digit());
        assert_eq!((b'7' - b'0') as u64, 7);
        assert_eq!(u32::from_be_bytes([0, 0, 1, 2]), 258);
        assert_eq!(258u16.to_be_bytes(), [1, 2]);
        assert_eq!(b.len(), 13);
        assert!(b.starts_with(b"SET "));
        assert_eq!([b"a".to_vec(), b"b".to_vec()].concat(), b"ab".to_vec());
    }
}
