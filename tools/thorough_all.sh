#!/bin/sh
# run thorough tiers sequentially in an isolated overlay (own work dir, repo snapshot)
export VERIF_REPO=$VP_RUN_REPO VERIF_WORK=${VERIF_WORK:-/root/.cache/undermoon-verif-bg} VERIF_JOBS=${VERIF_JOBS:-6}
for id in "$@"; do
  /usr/bin/time -f "$id wall=%es" ./check $id --tier thorough > thorough_$id.log 2>&1; rc=$?
  echo "$id exit=$rc $(grep -E 'obligations' thorough_$id.log | cut -c1-200)"
  grep -E "^VIOLATION|^INCONCLUSIVE|^KNOWN" thorough_$id.log | cut -c1-300
  tail -1 thorough_$id.log
done
