#!/bin/sh
# Build everything the checks need from files on disk only (offline): overlay copy of /repo, dependency build for the
# MIR-dumping nightly, MIR dump, conformance suite of the MIR executor, dependency build for native replay.
set -e
cd "$(dirname "$0")"
export CARGO_NET_OFFLINE=true
W=/root/.cache/undermoon-verif
python3-vt vlib/overlay.py
python3-vt -m mirsym.conformance $W/mir/mir.txt $W/crate > $W/conformance.log 2>&1 || true
tail -1 $W/conformance.log
# native replay harness (repository toolchain); failure here only disables native replay, it does not fail setup
(cd $W/crate && RUSTFLAGS="--cfg undermoon_verif_replay -Awarnings" cargo +stable test --offline --lib --no-run --target-dir $W/target-replay > $W/replay-build.log 2>&1) || echo "replay build failed (see $W/replay-build.log)"
echo setup done
