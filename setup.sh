#!/bin/sh
# Build everything the checks need from files on disk only (offline): overlay copy of /repo, dependency build for the
# MIR-dumping nightly, MIR dump, conformance suite of the MIR executor.
set -e
cd "$(dirname "$0")"
export CARGO_NET_OFFLINE=true
python3-vt vlib/overlay.py
python3-vt -m mirsym.conformance /root/.cache/undermoon-verif/mir/mir.txt /root/.cache/undermoon-verif/crate > /root/.cache/undermoon-verif/conformance.log 2>&1 || true
tail -1 /root/.cache/undermoon-verif/conformance.log
