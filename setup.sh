#!/bin/sh
# Build everything the checks need from files on disk only (offline): overlay copy of /repo, dependency build for the
# MIR-dumping nightly, MIR dump, conformance suite of the MIR executor, dependency build for native replay.
set -e
cd "$(dirname "$0")"
export CARGO_NET_OFFLINE=true
W=/root/.cache/undermoon-verif
python3-vt vlib/overlay.py
python3-vt -m mirsym.conformance $W/mir/mir.txt $W/crate > $W/conformance.log 2>&1 || true
tail -1 $W/conformance.log
# native replay harness (repository toolchain); failure here only disables native replay, it does not fail setup
(cd $W/crate && RUSTFLAGS="--cfg undermoon_verif_replay -Awarnings" cargo +stable test --offline --lib --no-run --target-dir $W/target-replay > $W/replay-build.log 2>&1) || echo "replay build failed (see $W/replay-build.log)"
# Kani build of the overlay crate (dependencies + one cheap harness) so that the K checks start warm
(cd $W/crate && cargo kani --harness hash_tag_vacuity_witness --target-dir $W/target-kani --output-format terse -Z stubbing -Z unstable-options --harness-timeout 300s > $W/kani-build.log 2>&1) || true
echo setup done
