"""futures / tokio combinators used by the crate's async handlers, as Python-side futures polled by Engine.poll.
A future that is Pending and has no modelled wake-up source makes block_on inconclusive, never a pass."""
from ..engine import model
from ..values import *


class MapFut(PyObj):
    """fut.map(f) / fut.map_ok(f) / fut.map_err(f)"""
    def __init__(self, inner, fn, kind): self.inner = inner; self.fn = fn; self.kind = kind; self.done = False
    def m_poll(self, e, *a):
        r = e.poll(self.inner if isinstance(self.inner, Ref) else Ref(Cell(self.inner)))
        if r.variant == 1: return r
        v = r.f[0].v
        if self.kind == 'map': return Enum('Poll', 0, [e.call_fn_value(self.fn, [v])])
        res = un(v)
        if self.kind == 'map_ok' and res.variant == 0: return Enum('Poll', 0, [Ok(e.call_fn_value(self.fn, [res.f[0].v]))])
        if self.kind == 'map_err' and res.variant == 1: return Enum('Poll', 0, [Err(e.call_fn_value(self.fn, [res.f[0].v]))])
        return Enum('Poll', 0, [v])


class JoinAll(PyObj):
    def __init__(self, futs): self.futs = futs; self.out = [None] * len(futs)
    def m_poll(self, e, *a):
        for i, f in enumerate(self.futs):
            if self.out[i] is not None: continue
            r = e.poll(f if isinstance(f, Ref) else Ref(Cell(f)))
            if r.variant == 0: self.out[i] = Cell(r.f[0].v)
        if any(o is None for o in self.out): return Enum('Poll', 1)
        return Enum('Poll', 0, [RVec([Cell(o.v) for o in self.out])])


@model(r' as (futures::)?(\w+::)*(Try)?FutureExt>::(map|map_ok|map_err)$')
def _(e, c, a):
    kind = strip_generics_last(c)
    return MapFut(a[0], a[1], kind)


def strip_generics_last(c):
    import re
    return re.sub(r'::<.*$', '', c.rstrip()).split('::')[-1] if '>::' in c else c.split('::')[-1]


@model(r'(?:^|::)join_all$')
def _(e, c, a):
    from .iters import into_iter
    return JoinAll([x for x in into_iter(e, a[0])])


@model(r' as (futures::)?(\w+::)*FutureExt>::boxed$|Box(<.*>)?::pin$')
def _(e, c, a): return a[0]


@model(r'^tokio::time::sleep$|tokio::time::sleep::sleep$|^sleep$|tokio::time::delay_for$', front=False)
def _(e, c, a):
    e.events.append(('sleep', a[0]))
    n = e.notes.get('sleeps', 0) + 1; e.notes['sleeps'] = n
    lim = getattr(e, 'sleep_budget', None)
    if lim is not None and n > lim:
        # a retry loop that keeps sleeping without an exit in sight: its duration is not bounded by the request
        raise Budget('loop budget: more than %d timer sleeps while handling one request (retry loop without exit)' % lim)
    return ReadyUnit()


class ReadyUnit(PyObj):
    def m_poll(self, e, *a): return Enum('Poll', 0, [mk_unit()])


# ---------------------------------------------------------------- poll_fn, timers (environment-driven)
class PollFn(PyObj):
    """futures::future::poll_fn(closure)"""
    def __init__(self, clo): self.clo = clo
    def m_poll(self, e, *a):
        return e.call_closure(self.clo if isinstance(self.clo, Ref) else Ref(Cell(self.clo)), [Opaque('Context')])


@model(r'(?:^|::)poll_fn$')
def _(e, c, a): return PollFn(a[0])


def env_choice(e, label, n):
    """an environment event with n possible outcomes: the harness decides (symbolic choice); without a harness hook the
    run is inconclusive"""
    h = getattr(e, 'env_hook', None)
    if h is None: raise Unmodelled('environment event %s without a harness model' % label)
    return h(label, n)


class IntervalObj(PyObj):
    """tokio::time::Interval: whether a tick is due at a poll is an environment event"""
    def __init__(self, period): self.period = period; self.polls = 0
    def m_poll_tick(self, e, *a):
        self.polls += 1
        if env_choice(e, 'tick', 2) == 0:
            ph = getattr(e, 'pending_hook', None)
            if ph: ph('timer')
            return Enum('Poll', 1)
        from .misc import now
        return Enum('Poll', 0, [now(e)])


@model(r'^interval$|tokio::time::interval$|time::interval::interval$|^tokio::time::interval_at$')
def _(e, c, a): return IntervalObj(a[0])


@model(r'Interval::poll_tick$')
def _(e, c, a):
    v = un(a[0])
    while isinstance(v, Struct) and v.name == 'Pin': v = un(v.f[0].v)
    return v.m_poll_tick(e)


# ---------------------------------------------------------------- streams / sinks given by a harness
class MapErrStream(PyObj):
    def __init__(self, inner, fn): self.inner = inner; self.fn = fn
    def m_poll_next(self, e, s, cx):
        r = un(self.inner).mir_call(e, 'Stream', 'poll_next', [self.inner, cx])
        if r.variant == 1: return r
        item = un(r.f[0].v)
        if item.variant == 0: return r
        res = un(item.f[0].v)
        if res.variant == 1: return Enum('Poll', 0, [Some(Err(e.call_fn_value(self.fn, [res.f[0].v])))])
        return r


@model(r' as (futures::)?(\w+::)*TryStreamExt>::map_err$')
def _(e, c, a):
    if isinstance(un(a[0]), PyObj): return MapErrStream(a[0], a[1])
    raise Unmodelled(c)


@model(r' as (tokio_util::)?(\w+::)*Decoder>::framed$')
def _(e, c, a): return Opaque('Framed', a[1])


@model(r' as (futures::)?(\w+::)*StreamExt>::split$')
def _(e, c, a):
    io = getattr(e, 'session_io', None)
    if io is None: raise Unmodelled('split of a framed socket without a harness model')
    return Tuple(io[0], io[1])


def _unpin(v):
    v = un(v)
    while isinstance(v, Struct) and v.name == 'Pin': v = un(v.f[0].v)
    return v


@model(r' as (futures::)?(\w+::)*Stream>::poll_next$| as (futures::)?(\w+::)*StreamExt>::poll_next_unpin$')
def _(e, c, a):
    v = _unpin(a[0])
    if isinstance(v, PyObj): return v.mir_call(e, 'Stream', 'poll_next', [a[0]] + list(a[1:]))
    if isinstance(v, Struct) and v.name == 'MpscReceiver': return mpsc_poll_next(e, v)
    raise Unmodelled('poll_next on %r' % (v,))


@model(r' as (futures::)?(\w+::)*Sink<.*>>::(poll_ready|start_send|poll_flush|poll_close)$| as (futures::)?(\w+::)*Sink>::(poll_ready|start_send|poll_flush|poll_close)$')
def _(e, c, a):
    import re as _re
    v = _unpin(a[0]); meth = _re.sub(r'::<.*$', '', c.rstrip()).split('::')[-1]
    if isinstance(v, PyObj): return v.mir_call(e, 'Sink', meth, [a[0]] + list(a[1:]))
    raise Unmodelled('%s on %r' % (meth, v))


# ---------------------------------------------------------------- futures::channel::mpsc (unbounded)
class MpscQueue:
    def __init__(self): self.items = []; self.closed = False; self.senders = 1


@model(r'mpsc::unbounded$|(?:^|::)unbounded$')
def _(e, c, a):
    q = Opaque('mpsc-queue', MpscQueue())
    return Tuple(Struct('MpscSender', [q]), Struct('MpscReceiver', [q]))


@model(r'UnboundedSender(<.*>)?::unbounded_send$|UnboundedSender(<.*>)?::start_send$')
def _(e, c, a):
    q = un(a[0]).f[0].v.data
    if q.closed: return Err(Struct('TrySendError', [a[1]]))
    q.items.append(a[1]); e.events.append(('mpsc-send', id(q)))
    return Ok(mk_unit())


@model(r'TrySendError(<.*>)?::into_inner$|SendError(<.*>)?::into_inner$')
def _(e, c, a): return un(a[0]).f[0].v


@model(r'UnboundedSender(<.*>)?::(close_channel|disconnect)$|UnboundedReceiver(<.*>)?::close$')
def _(e, c, a):
    un(a[0]).f[0].v.data.closed = True; return mk_unit()


@model(r'UnboundedSender(<.*>)?::is_closed$')
def _(e, c, a): return un(a[0]).f[0].v.data.closed


@model(r'^<(futures::)?(\w+::)*UnboundedSender<.*> as Clone>::clone$')
def _(e, c, a): return Struct('MpscSender', [un(a[0]).f[0].v])


def mpsc_poll_next(e, rx):
    q = rx.f[0].v.data
    if q.items: return Enum('Poll', 0, [Some(q.items.pop(0))])
    if q.closed: return Enum('Poll', 0, [NONE()])
    ph = getattr(e, 'pending_hook', None)
    if ph: ph('mpsc')
    return Enum('Poll', 1)


class NextFut(PyObj):
    """StreamExt::next(&mut stream)"""
    def __init__(self, stream): self.stream = stream
    def m_poll(self, e, *a):
        v = _unpin(self.stream)
        if isinstance(v, Struct) and v.name == 'MpscReceiver': return mpsc_poll_next(e, v)
        if isinstance(v, PyObj): return v.mir_call(e, 'Stream', 'poll_next', [self.stream, Opaque('Context')])
        raise Unmodelled('next() on %r' % (v,))


@model(r' as (futures::)?(\w+::)*StreamExt>::next$')
def _(e, c, a): return NextFut(a[0])


# ---------------------------------------------------------------- explicit self-wake (a Pending poll that re-schedules itself)
@model(r'(?:^|::)Waker::(wake_by_ref|wake)$|(?:^|::)Context(<.*>)?::waker$')
def _(e, c, a):
    if c.rstrip().endswith('waker'): return Ref(Cell(Opaque('Waker')))
    ph = getattr(e, 'pending_hook', None)
    if ph: ph('self-wake')
    return mk_unit()
