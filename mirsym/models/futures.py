"""futures / tokio combinators used by the crate's async handlers, as Python-side futures polled by Engine.poll.
A future that is Pending and has no modelled wake-up source makes block_on inconclusive, never a pass."""
from ..engine import model
from ..values import *


class MapFut(PyObj):
    """fut.map(f) / fut.map_ok(f) / fut.map_err(f)"""
    def __init__(self, inner, fn, kind): self.inner = inner; self.fn = fn; self.kind = kind; self.done = False
    def m_poll(self, e, *a):
        r = e.poll(self.inner if isinstance(self.inner, Ref) else Ref(Cell(self.inner)))
        if r.variant == 1: return r
        v = r.f[0].v
        if self.kind == 'map': return Enum('Poll', 0, [e.call_fn_value(self.fn, [v])])
        res = un(v)
        if self.kind == 'map_ok' and res.variant == 0: return Enum('Poll', 0, [Ok(e.call_fn_value(self.fn, [res.f[0].v]))])
        if self.kind == 'map_err' and res.variant == 1: return Enum('Poll', 0, [Err(e.call_fn_value(self.fn, [res.f[0].v]))])
        return Enum('Poll', 0, [v])


class JoinAll(PyObj):
    def __init__(self, futs): self.futs = futs; self.out = [None] * len(futs)
    def m_poll(self, e, *a):
        for i, f in enumerate(self.futs):
            if self.out[i] is not None: continue
            r = e.poll(f if isinstance(f, Ref) else Ref(Cell(f)))
            if r.variant == 0: self.out[i] = Cell(r.f[0].v)
        if any(o is None for o in self.out): return Enum('Poll', 1)
        return Enum('Poll', 0, [RVec([Cell(o.v) for o in self.out])])


@model(r' as (futures::)?(\w+::)*(Try)?FutureExt>::(map|map_ok|map_err)$')
def _(e, c, a):
    kind = strip_generics_last(c)
    return MapFut(a[0], a[1], kind)


def strip_generics_last(c):
    import re
    return re.sub(r'::<.*$', '', c.rstrip()).split('::')[-1] if '>::' in c else c.split('::')[-1]


@model(r'(?:^|::)join_all$')
def _(e, c, a):
    from .iters import into_iter
    return JoinAll([x for x in into_iter(e, a[0])])


@model(r' as (futures::)?(\w+::)*FutureExt>::boxed$|Box(<.*>)?::pin$')
def _(e, c, a): return a[0]


@model(r'^tokio::time::sleep$|tokio::time::sleep::sleep$|^sleep$|tokio::time::delay_for$', front=False)
def _(e, c, a):
    e.events.append(('sleep', a[0]))
    return ReadyUnit()


class ReadyUnit(PyObj):
    def m_poll(self, e, *a): return Enum('Poll', 0, [mk_unit()])
