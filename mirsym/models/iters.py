"""Models: the iterator protocol.  Every Rust iterator is a PyIter over a Python generator, so adaptor chains
compose and closures passed to them are interpreted from their own MIR."""
import re
import z3
from ..values import *
from ..engine import model, strip_generics
from .core import compare, generic_args, opt
from .containers import map_order, set_order, mfind, sfind

IT = r'as (?:Iterator|DoubleEndedIterator|ExactSizeIterator)>::'


def it_of(v):
    orig = v
    v = un(v)
    if isinstance(v, PyIter): return v
    if isinstance(v, Struct) and v.name in ('Range', 'RangeInclusive', 'RangeFrom') and _ENGINE[0] is not None:
        it = into_iter(_ENGINE[0], v)
        c = orig
        while isinstance(c, Ref) and isinstance(c.cell.v, Ref): c = c.cell.v
        if isinstance(c, Ref): c.cell.v = it          # a range used as a stateful iterator (next(&mut range))
        return it
    if isinstance(v, Struct) and len(v.f) >= 1 and isinstance(un(v.f[0].v), PyIter): return un(v.f[0].v)
    raise Unmodelled('not an iterator: %r' % (v,))


_ENGINE = [None]


def into_iter(e, v, byref=None):
    _ENGINE[0] = e
    """IntoIterator::into_iter on a value"""
    isref = isinstance(v, (Ref, SliceRef)) if byref is None else byref
    u = un(v)
    if isinstance(u, PyIter): return u
    if isinstance(u, SliceRef): return PyIter([Ref(c) for c in list(u.vec.cells)])
    if isinstance(u, RVec) or (isinstance(u, Struct) and u.name == '[]'):
        cells = list(deref_vec(u).cells)
        if isref: return PyIter([Ref(c) for c in cells])
        return PyIter([c.v for c in cells])
    if isinstance(u, RMap):
        if isref: return PyIter([Tuple(Ref(Cell(k)), Ref(c)) for k, c in map_order(e, u)])
        return PyIter([Tuple(k, c.v) for k, c in map_order(e, u)])
    if isinstance(u, RSet):
        if isref: return PyIter([Ref(Cell(k)) for k in set_order(e, u)])
        return PyIter(list(set_order(e, u)))
    if isinstance(u, Enum) and u.name == 'Option':
        if u.variant == 0: return PyIter([])
        return PyIter([Ref(u.f[0]) if isref else u.f[0].v])
    if isinstance(u, Enum) and u.name == 'Result':
        if u.variant == 1: return PyIter([])
        return PyIter([Ref(u.f[0]) if isref else u.f[0].v])
    if isinstance(u, Struct) and u.name in ('Range', 'RangeInclusive'):
        return range_iter(e, u, u.name == 'RangeInclusive')
    if isinstance(u, Struct) and u.name == 'RangeFrom':
        return range_iter(e, Struct('Range', [u.f[0].v, (1 << 64) - 1]), False)
    if isinstance(u, Struct) and u.f and isinstance(un(u.f[0].v), PyIter): return un(u.f[0].v)
    raise Unmodelled('into_iter on %r' % (u,))


def range_iter(e, r, inclusive, ty='usize'):
    lo = r.f[0].v; hi = r.f[1].v
    def g():
        i = lo; n = 0
        while True:
            if not e.branch(e.binop('Le' if inclusive else 'Lt', i, hi, ty)): return
            yield i
            if inclusive and not is_sym(i) and not is_sym(hi) and i == hi: return
            if inclusive and (is_sym(i) or is_sym(hi)) and e.branch(e.binop('Eq', i, hi, ty)): return
            i = e.binop('Add', i, 1, ty); n += 1
            if n > e.loop_budget:
                e.events.append(('unbounded-loop', 'range iteration', n))
                raise Budget('loop budget: range iteration exceeded %d steps (symbolic bound)' % e.loop_budget)
    return PyIter(g())


@model(r'as IntoIterator>::into_iter$|^IntoIterator::into_iter$')
def _(e, c, a):
    cs = c.strip()
    byref = cs.startswith('<&')
    u = un(a[0])
    if isinstance(u, Struct) and u.name in ('Range', 'RangeInclusive'):
        m = re.search(r'Range(?:Inclusive)?<(\w+)>', cs)
        return range_iter(e, u, u.name == 'RangeInclusive', m.group(1) if m else 'usize')
    return into_iter(e, a[0], byref if isinstance(u, (RVec, RMap, RSet)) or (isinstance(u, Struct) and u.name == '[]') else None)


@model(r'slice::<impl \[.*\]>::iter(_mut)?$|(?:^|::)VecDeque::iter(_mut)?$|<\[.*\]>::iter(_mut)?$')
def _(e, c, a):
    vec = deref_vec(a[0])
    def g():
        i = 0
        while i < len(vec.cells):
            yield Ref(vec.cells[i]); i += 1
    it = PyIter(g()); it.back = vec
    return it


@model(r'slice::<impl \[.*\]>::into_iter$|(?:^|::)Vec::into_iter$')
def _(e, c, a): return into_iter(e, a[0])


@model(r'slice::<impl \[.*\]>::chunks(_exact)?$')
def _(e, c, a):
    cells = deref_vec(a[0]).cells; n = a[1]
    if is_sym(n): raise Unmodelled('chunks(symbolic)')
    if n == 0: raise Panic('chunk size must be non-zero')
    out = [SliceRef(RVec(cells[i:i + n], 'slice')) for i in range(0, len(cells), n)]
    if c.rstrip().endswith('exact'): out = [x for x in out if len(x.vec.cells) == n]
    return PyIter(out)


@model(r'slice::<impl \[.*\]>::windows$')
def _(e, c, a):
    cells = deref_vec(a[0]).cells; n = a[1]
    return PyIter([SliceRef(RVec(cells[i:i + n], 'slice')) for i in range(0, len(cells) - n + 1)])


@model(r'slice::<impl \[.*\]>::split$')
def _(e, c, a):
    cells = deref_vec(a[0]).cells
    def g():
        cur = []
        for x in cells:
            if e.branch(e.call_fn_value(a[1], [Ref(x)])):
                yield SliceRef(RVec(cur, 'slice')); cur = []
            else: cur.append(x)
        yield SliceRef(RVec(cur, 'slice'))
    return PyIter(g())


@model(IT + r'next$|^Iterator::next$|Peekable<.*>::next$')
def m_next(e, c, a):
    it = it_of(a[0])
    try: return Some(it.next())
    except StopIteration: return NONE()


@model(IT + r'next_back$')
def _(e, c, a):
    it = it_of(a[0])
    items = list(it)
    if not items: return NONE()
    last = items.pop(); it.gen = iter(items); it.peeked = []
    return Some(last)


@model(IT + r'size_hint$')
def _(e, c, a):
    it = it_of(a[0]); items = list(it); it.gen = iter(items); it.peeked = []
    return Tuple(len(items), Some(len(items)))


@model(IT + r'len$')
def _(e, c, a):
    it = it_of(a[0]); items = list(it); it.gen = iter(items); it.peeked = []
    return len(items)


@model(IT + r'by_ref$')
def _(e, c, a): return a[0]


@model(IT + r'enumerate$')
def _(e, c, a):
    it = it_of(a[0])
    def g():
        i = 0
        for x in it: yield Tuple(i, x); i += 1
    return PyIter(g())


@model(IT + r'filter$')
def _(e, c, a):
    it = it_of(a[0]); f = a[1]
    def g():
        for x in it:
            if e.branch(e.call_fn_value(f, [Ref(Cell(x))])): yield x
    return PyIter(g())


@model(IT + r'map$')
def _(e, c, a):
    it = it_of(a[0]); f = a[1]
    def g():
        for x in it: yield e.call_fn_value(f, [x])
    return PyIter(g())


@model(IT + r'map_while$')
def _(e, c, a):
    it = it_of(a[0]); f = a[1]
    def g():
        for x in it:
            r = opt(e.call_fn_value(f, [x]))
            if r.variant == 0: return
            yield r.f[0].v
    return PyIter(g())


@model(IT + r'filter_map$')
def _(e, c, a):
    it = it_of(a[0]); f = a[1]
    def g():
        for x in it:
            r = opt(e.call_fn_value(f, [x]))
            if r.variant == 1: yield r.f[0].v
    return PyIter(g())


@model(IT + r'flat_map$')
def _(e, c, a):
    it = it_of(a[0]); f = a[1]
    def g():
        for x in it:
            for y in into_iter(e, e.call_fn_value(f, [x])): yield y
    return PyIter(g())


@model(IT + r'flatten$')
def _(e, c, a):
    it = it_of(a[0])
    def g():
        for x in it:
            for y in into_iter(e, x): yield y
    return PyIter(g())


@model(IT + r'inspect$')
def _(e, c, a):
    it = it_of(a[0]); f = a[1]
    def g():
        for x in it:
            e.call_fn_value(f, [Ref(Cell(x))]); yield x
    return PyIter(g())


@model(IT + r'take_while$')
def _(e, c, a):
    it = it_of(a[0]); f = a[1]
    def g():
        for x in it:
            if not e.branch(e.call_fn_value(f, [Ref(Cell(x))])): return
            yield x
    return PyIter(g())


@model(IT + r'skip_while$')
def _(e, c, a):
    it = it_of(a[0]); f = a[1]
    def g():
        skipping = True
        for x in it:
            if skipping and e.branch(e.call_fn_value(f, [Ref(Cell(x))])): continue
            skipping = False; yield x
    return PyIter(g())


@model(IT + r'skip$')
def _(e, c, a):
    it = it_of(a[0]); n = a[1]
    if is_sym(n): raise Unmodelled('skip(symbolic)')
    def g():
        for i, x in enumerate(it):
            if i >= n: yield x
    return PyIter(g())


@model(IT + r'take$')
def _(e, c, a):
    it = it_of(a[0]); n = a[1]
    def g():
        i = 0
        while True:
            if not e.branch(e.binop('Lt', i, n, 'usize')): return
            try: x = it.next()
            except StopIteration: return
            yield x; i += 1
    return PyIter(g())


@model(IT + r'step_by$')
def _(e, c, a):
    it = it_of(a[0]); n = a[1]
    if n == 0: raise Panic('step_by(0)')
    def g():
        for i, x in enumerate(it):
            if i % n == 0: yield x
    return PyIter(g())


@model(IT + r'chain$')
def _(e, c, a):
    it = it_of(a[0]); other = a[1]
    def g():
        for x in it: yield x
        for y in into_iter(e, other): yield y
    return PyIter(g())


@model(IT + r'zip$|^std::zip$')
def _(e, c, a):
    it = into_iter(e, a[0]); jt = into_iter(e, a[1])
    def g():
        while True:
            try: x = it.next()
            except StopIteration: return
            try: y = jt.next()
            except StopIteration: return
            yield Tuple(x, y)
    return PyIter(g())


@model(IT + r'rev$')
def _(e, c, a):
    it = it_of(a[0])
    def g():
        for x in reversed(list(it)): yield x
    return PyIter(g())


@model(IT + r'cloned$|' + IT + r'copied$')
def _(e, c, a):
    it = it_of(a[0])
    return PyIter((e.clone_value(un_ref1(x)) for x in it))


def un_ref1(x):
    return x.cell.v if isinstance(x, Ref) else x


@model(IT + r'peekable$|' + IT + r'fuse$|' + IT + r'into_iter$')
def _(e, c, a): return it_of(a[0])


@model(r'Peekable<.*>::peek(_mut)?$|Peekable::peek(_mut)?$')
def _(e, c, a):
    it = it_of(a[0])
    if not it.peeked:
        try: it.peeked.append(next(it.gen))
        except StopIteration: return NONE()
    return Some(Ref(Cell(it.peeked[0])))


@model(IT + r'count$')
def _(e, c, a): return sum(1 for _ in it_of(a[0]))


@model(IT + r'last$')
def _(e, c, a):
    items = list(it_of(a[0])); return Some(items[-1]) if items else NONE()


@model(IT + r'nth$')
def _(e, c, a):
    it = it_of(a[0]); n = a[1]
    if is_sym(n): raise Unmodelled('nth(symbolic)')
    try:
        for _ in range(n): it.next()
        return Some(it.next())
    except StopIteration: return NONE()


@model(IT + r'sum$')
def _(e, c, a):
    ty = (generic_args(c) or 'usize').strip()
    s = 0
    for x in it_of(a[0]): s = e.checked('Add', s, un(x), ty if ty in ('usize', 'u64', 'u32', 'i64', 'i32', 'u16', 'u8') else 'usize', 'add')
    return s


@model(IT + r'product$')
def _(e, c, a):
    s = 1
    for x in it_of(a[0]): s = e.checked('Mul', s, un(x), 'usize', 'multiply')
    return s


@model(IT + r'any$')
def _(e, c, a):
    for x in it_of(a[0]):
        if e.branch(e.call_fn_value(a[1], [x])): return True
    return False


@model(IT + r'all$')
def _(e, c, a):
    for x in it_of(a[0]):
        if not e.branch(e.call_fn_value(a[1], [x])): return False
    return True


@model(IT + r'find$')
def _(e, c, a):
    for x in it_of(a[0]):
        if e.branch(e.call_fn_value(a[1], [Ref(Cell(x))])): return Some(x)
    return NONE()


@model(IT + r'find_map$')
def _(e, c, a):
    for x in it_of(a[0]):
        r = opt(e.call_fn_value(a[1], [x]))
        if r.variant == 1: return r
    return NONE()


@model(IT + r'position$')
def _(e, c, a):
    for i, x in enumerate(it_of(a[0])):
        if e.branch(e.call_fn_value(a[1], [x])): return Some(i)
    return NONE()


@model(IT + r'rposition$')
def _(e, c, a):
    items = list(it_of(a[0]))
    for i in range(len(items) - 1, -1, -1):
        if e.branch(e.call_fn_value(a[1], [items[i]])): return Some(i)
    return NONE()


@model(IT + r'for_each$')
def _(e, c, a):
    for x in it_of(a[0]): e.call_fn_value(a[1], [x])
    return mk_unit()


@model(IT + r'fold$')
def _(e, c, a):
    acc = a[1]
    for x in it_of(a[0]): acc = e.call_fn_value(a[2], [acc, x])
    return acc


@model(IT + r'try_fold$|' + IT + r'try_for_each$')
def _(e, c, a): raise Unmodelled(c)


@model(IT + r'reduce$')
def _(e, c, a):
    it = it_of(a[0])
    try: acc = it.next()
    except StopIteration: return NONE()
    for x in it: acc = e.call_fn_value(a[1], [acc, x])
    return Some(acc)


@model(IT + r'max$|' + IT + r'min$')
def _(e, c, a):
    xs = list(it_of(a[0]))
    if not xs: return NONE()
    best = xs[0]; ismax = c.rstrip().endswith('max')
    for x in xs[1:]:
        o = compare(e, x, best)
        if ismax:
            if o >= 0: best = x      # max returns the last maximal element
        else:
            if o < 0: best = x       # min returns the first minimal element
    return Some(best)


@model(IT + r'max_by_key$|' + IT + r'min_by_key$')
def _(e, c, a):
    best = None; bk = None; ismax = 'max_by_key' in c
    for x in it_of(a[0]):
        k = e.call_fn_value(a[1], [Ref(Cell(x))])
        if best is None: best, bk = x, k; continue
        o = compare(e, k, bk)
        if (ismax and o >= 0) or (not ismax and o < 0): best, bk = x, k
    return Some(best) if best is not None else NONE()


@model(IT + r'max_by$|' + IT + r'min_by$')
def _(e, c, a):
    best = None; ismax = 'max_by' in c
    for x in it_of(a[0]):
        if best is None: best = x; continue
        o = un(e.call_fn_value(a[1], [Ref(Cell(best)), Ref(Cell(x))])).variant - 1   # cmp(best, x)
        if ismax:
            if o <= 0: best = x
        else:
            if o > 0: best = x
    return Some(best) if best is not None else NONE()


@model(IT + r'unzip$')
def _(e, c, a):
    xs = []; ys = []
    for t in it_of(a[0]):
        xs.append(Cell(t.f[0].v)); ys.append(Cell(t.f[1].v))
    return Tuple(RVec(xs), RVec(ys))


@model(IT + r'partition$')
def _(e, c, a):
    xs = []; ys = []
    for x in it_of(a[0]):
        (xs if e.branch(e.call_fn_value(a[1], [Ref(Cell(x))])) else ys).append(Cell(x))
    return Tuple(RVec(xs), RVec(ys))


def collect_into(e, kind_text, items):
    k = kind_text.strip()
    k = re.sub(r'^(std|alloc|core)::(\w+::)*', '', k)
    if k.startswith('Result<') or k.startswith('Option<'):
        from ..mir import scan_split
        inner = scan_split(k[k.index('<') + 1:-1])[0]
        out = []
        for x in items:
            x = un(x) if not isinstance(x, Enum) else x
            if k.startswith('Result<'):
                if x.variant == 1: return Err(x.f[0].v)
            else:
                if x.variant == 0: return NONE()
            out.append(x.f[0].v)
        r = collect_into(e, inner, out)
        return Ok(r) if k.startswith('Result<') else Some(r)
    items = list(items)
    if k.startswith('HashSet') or k.startswith('BTreeSet'):
        s = RSet('BTreeSet' if k.startswith('BTree') else 'HashSet')
        for x in items:
            if sfind(e, s, x) is None: s.items.append(x)
        return s
    if k.startswith('HashMap') or k.startswith('BTreeMap'):
        mp = RMap('BTreeMap' if k.startswith('BTree') else 'HashMap')
        for x in items:
            kk, v = x.f[0].v, x.f[1].v; i = mfind(e, mp, kk)
            if i is None: mp.items.append((kk, Cell(v)))
            else: mp.items[i][1].v = v
        return mp
    if k.startswith('String'):
        parts = []
        for x in items:
            x = un(x)
            if isinstance(x, RStr): parts.extend(str_parts(x))
            elif isinstance(x, int): parts.append(chr(x))
            else: raise Unmodelled('collect::<String> of %r' % (x,))
        return mkstr(parts)
    if k.startswith('VecDeque'): return RVec([Cell(x) for x in items], 'VecDeque')
    if k.startswith('Vec') or k.startswith('Box<[') or k == '_' or k.startswith('SmallVec') or k.startswith('Arc<['):
        return RVec([Cell(x) for x in items])
    if k.startswith('()'):
        return mk_unit()
    raise Unmodelled('collect into ' + kind_text)


@model(IT + r'collect$')
def _(e, c, a):
    kind = generic_args(c) or 'Vec'
    return collect_into(e, kind, list(it_of(a[0])))


@model(r'as FromIterator<.*>>::from_iter$')
def _(e, c, a):
    m = re.match(r'<(.+) as (?:std::iter::)?FromIterator', c.strip(), flags=re.S)
    return collect_into(e, m.group(1), list(into_iter(e, a[0])))


@model(r'as Extend<.*>>::extend$')
def _(e, c, a):
    tgt = un(a[0]); src = un(a[1])
    if isinstance(src, RVec) and not isinstance(a[1], Ref):
        items = [x.v for x in src.cells]
    else: items = list(into_iter(e, a[1]))
    if isinstance(tgt, RVec):
        tgt.cells.extend(Cell(un_ref1(x) if isinstance(x, Ref) and not isinstance(un(x), (Struct, Enum, RStr, RVec)) else x) for x in items)
    elif isinstance(tgt, RMap):
        for x in items:
            i = mfind(e, tgt, x.f[0].v)
            if i is None: tgt.items.append((x.f[0].v, Cell(x.f[1].v)))
            else: tgt.items[i][1].v = x.f[1].v
    elif isinstance(tgt, RSet):
        for x in items:
            if sfind(e, tgt, x) is None: tgt.items.append(x)
    elif isinstance(tgt, RStr):
        parts = list(str_parts(tgt))
        for x in items:
            x = un(x)
            parts.extend(str_parts(x) if isinstance(x, RStr) else [chr(x)])
        tgt.s = norm_parts(parts)
    else: raise Unmodelled('extend on %r' % (tgt,))
    return mk_unit()


@model(r'^std::repeat$')
def _(e, c, a):
    def g():
        n = 0
        while True:
            yield e.clone_value(a[0]); n += 1
            if n > e.loop_budget: raise Budget('iter::repeat unbounded')
    return PyIter(g())


@model(r'^std::once$')
def _(e, c, a): return PyIter([a[0]])


@model(r'^std::empty$')
def _(e, c, a): return PyIter([])


@model(r'^std::repeat_n$')
def _(e, c, a): return PyIter([e.clone_value(a[0]) for _ in range(a[1])])


# itertools
@model(r'Itertools>::sorted$|Itertools>::sorted_unstable$')
def _(e, c, a):
    items = list(it_of(a[0]))
    import functools
    items.sort(key=functools.cmp_to_key(lambda x, y: compare(e, x, y)))
    return PyIter(items)


@model(r'Itertools>::sorted_by_key$')
def _(e, c, a):
    items = list(it_of(a[0]))
    import functools
    items.sort(key=functools.cmp_to_key(lambda x, y: compare(e, e.call_fn_value(a[1], [Ref(Cell(x))]), e.call_fn_value(a[1], [Ref(Cell(y))]))))
    return PyIter(items)


@model(r'Itertools>::join$')
def _(e, c, a):
    parts = []; sep = str_parts(a[1])
    for i, x in enumerate(it_of(a[0])):
        if i: parts.extend(sep)
        parts.extend(str_parts(e.display(x)))
    return mkstr(parts)


@model(r'Itertools>::collect_vec$')
def _(e, c, a): return RVec([Cell(x) for x in it_of(a[0])])


@model(r'Itertools>::unique$')
def _(e, c, a):
    out = []
    for x in it_of(a[0]):
        if not any(e.branch(veq(x, y)) for y in out): out.append(x)
    return PyIter(out)


@model(r'Itertools>::dedup$')
def _(e, c, a):
    # consecutive equal elements collapse into the first of the run
    out = []
    for x in it_of(a[0]):
        if not (out and e.branch(veq(out[-1], x))): out.append(x)
    return PyIter(out)


@model(r'Itertools>::dedup_by$')
def _(e, c, a):
    out = []
    for x in it_of(a[0]):
        if not (out and e.branch(e.call_fn_value(a[1], [Ref(Cell(out[-1])), Ref(Cell(x))]))): out.append(x)
    return PyIter(out)


@model(r'Itertools>::chunks$')
def _(e, c, a):
    items = list(it_of(a[0])); n = a[1]
    if n == 0: raise Panic('chunks(0)')
    return Struct('IntoChunks', [PyIter([PyIter(items[i:i + n]) for i in range(0, len(items), n)])])


@model(r'Itertools>::group_by$|Itertools>::chunk_by$')
def _(e, c, a):
    groups = []
    for x in it_of(a[0]):
        k = e.call_fn_value(a[1], [Ref(Cell(x))])
        if groups and e.branch(veq(groups[-1][0], k)): groups[-1][1].append(x)
        else: groups.append((k, [x]))
    return Struct('GroupBy', [PyIter([Tuple(k, PyIter(xs)) for k, xs in groups])])


@model(r'RangeInclusive(<.*>)?::new$')
def _(e, c, a): return Struct('RangeInclusive', [a[0], a[1]])


@model(r'RangeInclusive(<.*>)?::(start|end)$')
def _(e, c, a):
    r = un(a[0]); return Ref(r.f[0] if c.rstrip().endswith('start') else r.f[1])


@model(r'Range(Inclusive)?(<.*>)?::contains$|<Range(Inclusive)?<.*> as RangeBounds<.*>>::contains$')
def _(e, c, a):
    r = un(a[0]); x = un(a[1])
    hi = e.binop('Le' if r.name == 'RangeInclusive' else 'Lt', x, r.f[1].v, 'usize')
    return zand([e.binop('Ge', x, r.f[0].v, 'usize'), hi])


# ---------------------------------------------------------------- itertools::Itertools::tuples (groups of the tuple's arity; an incomplete tail is dropped)
@model(r' as (itertools::)?Itertools>::tuples$')
def _(e, c, a):
    from ..mir import scan_split
    m = re.search(r'tuples::<\((.*)\)>\s*$', c.strip(), flags=re.S)
    n = len([x for x in scan_split(m.group(1)) if x.strip()]) if m else 2
    it = it_of(a[0])
    def g():
        while True:
            grp = []
            for _ in range(n):
                try: grp.append(it.next())
                except StopIteration: return
            yield Struct('()', grp)
    return PyIter(g())
