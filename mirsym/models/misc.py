"""Models: logging, time, integer helpers, memchr, crc16, Bytes/BytesMut, arrayvec, chrono."""
import re
import z3
from ..values import *
from ..engine import model, strip_generics
from ..mir import INT_W
from .core import generic_args, compare

# ---------------------------------------------------------------- logging (never a subject)
@model(r'^log::|log::max_level$|^max_level$|__private_api|<(log::)?Level as PartialOrd<(log::)?LevelFilter>>|Level as PartialEq<(log::)?LevelFilter>|env_logger::|^loc$|log::__private_api::loc|PartialOrd<(log::)?Level(Filter)?>|STATIC_MAX_LEVEL', front=True)
def m_log(e, c, a):
    if 'PartialOrd<' in c or 'PartialEq<' in c: return False      # "level <= max_level" is false: logging off
    if c.rstrip().endswith('max_level'): return Enum('LevelFilter', 0)
    return mk_unit()


@model(r'backtrace::Backtrace::new$|^Backtrace::new$')
def _(e, c, a): return Opaque('backtrace')


# ---------------------------------------------------------------- integer helpers
def _ity(c):
    m = re.search(r'<impl (\w+)>', c)
    return m.group(1) if m else 'usize'


@model(r'num::<impl \w+>::(checked_add|checked_sub|checked_mul)$')
def _(e, c, a):
    ty = _ity(c); op = {'add': 'Add', 'sub': 'Sub', 'mul': 'Mul'}[c.rstrip().split('_')[-1]]
    r = e.binop(op + 'WithOverflow', a[0], a[1], ty)
    if e.branch(r.f[1].v): return NONE()
    return Some(r.f[0].v)


@model(r'num::<impl \w+>::(checked_div|checked_rem)$')
def _(e, c, a):
    ty = _ity(c)
    if e.branch(e.binop('Eq', a[1], 0, ty)): return NONE()
    return Some(e.binop('Div' if 'div' in c else 'Rem', a[0], a[1], ty))


@model(r'num::<impl \w+>::(wrapping_add|wrapping_sub|wrapping_mul)$')
def _(e, c, a):
    ty = _ity(c); op = {'add': 'Add', 'sub': 'Sub', 'mul': 'Mul'}[c.rstrip().split('_')[-1]]
    return e.binop(op, a[0], a[1], ty)


@model(r'num::<impl \w+>::(saturating_add|saturating_sub|saturating_mul)$')
def _(e, c, a):
    ty = _ity(c); w = INT_W[ty]; signed = ty[0] == 'i'
    op = {'add': 'Add', 'sub': 'Sub', 'mul': 'Mul'}[c.rstrip().split('_')[-1]]
    r = e.binop(op + 'WithOverflow', a[0], a[1], ty)
    if not e.branch(r.f[1].v): return r.f[0].v
    if signed: raise Unmodelled('signed saturating op overflow')
    return 0 if op == 'Sub' else (1 << w) - 1


@model(r'num::<impl \w+>::(overflowing_add|overflowing_sub|overflowing_mul)$')
def _(e, c, a):
    ty = _ity(c); op = {'add': 'Add', 'sub': 'Sub', 'mul': 'Mul'}[c.rstrip().split('_')[-1]]
    return e.binop(op + 'WithOverflow', a[0], a[1], ty)


@model(r'num::<impl \w+>::pow$')
def _(e, c, a):
    if is_sym(a[0]) or is_sym(a[1]): raise Unmodelled('symbolic pow')
    r = a[0] ** a[1]
    if r >= (1 << INT_W[_ity(c)]): raise Panic('attempt to multiply with overflow (pow)')
    return r


@model(r'num::<impl \w+>::(abs|is_power_of_two|leading_zeros|trailing_zeros|count_ones)$')
def _(e, c, a):
    k = c.rstrip().split('::')[-1]; x = a[0]
    if is_sym(x):
        if k == 'abs': return z3.If(x < 0, -x, x)
        raise Unmodelled(k + ' symbolic')
    w = INT_W[_ity(c)]
    return {'abs': abs(x), 'is_power_of_two': x > 0 and x & (x - 1) == 0, 'leading_zeros': w - x.bit_length(),
            'trailing_zeros': (x & -x).bit_length() - 1 if x else w, 'count_ones': bin(x).count('1')}[k]


@model(r'num::<impl \w+>::(min_value|max_value)$')
def _(e, c, a):
    ty = _ity(c); w = INT_W[ty]; s = ty[0] == 'i'
    if 'max' in c: return (1 << (w - 1)) - 1 if s else (1 << w) - 1
    return -(1 << (w - 1)) if s else 0


@model(r'num::<impl \w+>::(to_be_bytes|to_le_bytes|to_ne_bytes|from_be_bytes|from_le_bytes|from_ne_bytes)$')
def _(e, c, a):
    ty = _ity(c); w = INT_W[ty]; n = w // 8
    k = c.rstrip().split('::')[-1]
    little = 'be' not in k                    # native endianness of the target (x86-64) is little
    if k.startswith('to_'):
        x = a[0]
        if is_sym(x): bs = [z3.Extract(8 * i + 7, 8 * i, bv(x, w)) for i in range(n)]
        else: bs = [(int(x) >> (8 * i)) & 0xff for i in range(n)]
        if not little: bs = bs[::-1]
        return Struct('[]', bs)
    cells = deref_vec(a[0]).cells if not (isinstance(un(a[0]), Struct) and un(a[0]).name == '[]') else un(a[0]).f
    bs = [c_.v for c_ in cells]
    if not little: bs = bs[::-1]
    if any(is_sym(b) for b in bs):
        r = z3.Concat(*[bv(b, 8) for b in reversed(bs)]) if len(bs) > 1 else bv(bs[0], 8)
        return r
    r = sum(int(b) << (8 * i) for i, b in enumerate(bs))
    if ty[0] == 'i' and r >= 1 << (w - 1): r -= 1 << w
    return r


@model(r'num::<impl \w+>::(swap_bytes|to_be|to_le)$')
def _(e, c, a): raise Unmodelled(c)


@model(r'num::<impl \w+>::(div_ceil|next_multiple_of|rem_euclid|div_euclid|abs_diff)$')
def _(e, c, a):
    k = c.rstrip().split('::')[-1]; x, y = a[0], a[1]
    if is_sym(x) or is_sym(y): raise Unmodelled(k + ' symbolic')
    if k == 'abs_diff': return abs(x - y)
    if y == 0: raise Panic('division by zero')
    return {'div_ceil': -(-x // y), 'next_multiple_of': -(-x // y) * y, 'rem_euclid': x % y, 'div_euclid': x // y}[k]


def normalize_callee(c):
    from ..engine import normalize
    return normalize(strip_generics(c))


_INT_TY = r'(?:u8|u16|u32|u64|u128|usize|i8|i16|i32|i64|i128|isize)'


@model(r'^<&?(' + _INT_TY + r') as (Add|Sub|Mul|Div|Rem)(<.*>)?>::(add|sub|mul|div|rem)$')
def _(e, c, a):
    m = re.search(r'<&?(\w+) as (\w+)', normalize_callee(c)); ty = m.group(1); op = m.group(2)
    x, y = un(a[0]), un(a[1])
    if ty not in INT_W:
        raise Unmodelled('operator on ' + ty)
    if op in ('Div', 'Rem'): return e.binop(op, x, y, ty)
    return e.checked(op, x, y, ty, {'Add': 'add', 'Sub': 'subtract', 'Mul': 'multiply'}[op])


@model(r'^<(' + _INT_TY + r') as (AddAssign|SubAssign|MulAssign)(<.*>)?>::\w+$')
def _(e, c, a):
    m = re.match(r'<(\w+) as (\w+)Assign', c.strip()); ty = m.group(1); op = m.group(2)
    cell = a[0].cell
    cell.v = e.checked(op, cell.v, un(a[1]), ty, op.lower()); return mk_unit()


@model(r'<(\w+) as (std::iter::)?Sum(<.*>)?>::sum$')
def _(e, c, a):
    from .iters import it_of
    m = re.match(r'<(\w+) as', c.strip()); s = 0
    for x in it_of(a[0]): s = e.checked('Add', s, un(x), m.group(1), 'add')
    return s


# ---------------------------------------------------------------- memchr / crc16 / hashing
@model(r'^memchr::memchr$|^memchr$|memchr::memchr::memchr$')
def _(e, c, a):
    needle = a[0]; cells = deref_vec(a[1]).cells
    for i, x in enumerate(cells):
        if e.branch(e.binop('Eq', x.v, needle, 'u8')):
            e.events.append(('memchr-hit', x)); return Some(i)
    return NONE()


@model(r'^memchr::memrchr$|^memrchr$')
def _(e, c, a):
    needle = a[0]; cells = deref_vec(a[1]).cells
    for i in range(len(cells) - 1, -1, -1):
        if e.branch(e.binop('Eq', cells[i].v, needle, 'u8')): return Some(i)
    return NONE()


def crc16_xmodem(e, cells):
    """bit-serial CRC16/XMODEM (poly 0x1021, init 0): the definition, not the crate's table (Kani checks the table)"""
    if all(not is_sym(x.v) for x in cells):
        crc = 0
        for x in cells:
            crc ^= x.v << 8
            for _ in range(8):
                crc = ((crc << 1) ^ 0x1021) & 0xffff if crc & 0x8000 else (crc << 1) & 0xffff
        return crc
    crc = z3.BitVecVal(0, 16)
    for x in cells:
        crc = crc ^ (z3.ZeroExt(8, bv(x.v, 8)) << 8)
        for _ in range(8):
            crc = z3.If(z3.Extract(15, 15, crc) == 1, (crc << 1) ^ 0x1021, crc << 1)
    return z3.simplify(crc)


def crc16_arc(e, cells):
    """bit-serial CRC16/ARC (reflected poly 0xA001, init 0) - used for lock slots only"""
    if all(not is_sym(x.v) for x in cells):
        crc = 0
        for x in cells:
            crc ^= x.v
            for _ in range(8):
                crc = (crc >> 1) ^ 0xA001 if crc & 1 else crc >> 1
        return crc
    crc = z3.BitVecVal(0, 16)
    for x in cells:
        crc = crc ^ z3.ZeroExt(8, bv(x.v, 8))
        for _ in range(8):
            crc = z3.If(z3.Extract(0, 0, crc) == 1, z3.LShR(crc, 1) ^ 0xA001, z3.LShR(crc, 1))
    return z3.simplify(crc)


@model(r'(?:crc16::)?State(<.*>)?::calculate$')
def _(e, c, a):
    if 'XMODEM' in c: return crc16_xmodem(e, deref_vec(a[0]).cells)
    if '<ARC>' in c or '::ARC' in c: return crc16_arc(e, deref_vec(a[0]).cells)
    raise Unmodelled('crc16 variant ' + c)


_CRC64_TAB = None


def crc64_jones(crc, data):
    """CRC-64/Jones (poly 0xad93d23594c935a9, reflected), the variant of the crc64 crate / Redis"""
    global _CRC64_TAB
    if _CRC64_TAB is None:
        poly = 0x95AC9329AC4BC9B5
        tab = []
        for i in range(256):
            c = i
            for _ in range(8): c = (c >> 1) ^ poly if c & 1 else c >> 1
            tab.append(c)
        _CRC64_TAB = tab
    for b in data: crc = _CRC64_TAB[(crc ^ b) & 0xff] ^ (crc >> 8)
    return crc


@model(r'^crc64::crc64$|^crc64$')
def _(e, c, a):
    cells = deref_vec(a[1]).cells
    if is_sym(a[0]) or any(is_sym(x.v) for x in cells): raise Unmodelled('crc64 of symbolic data')
    return crc64_jones(a[0], bytes(x.v for x in cells))


# ---------------------------------------------------------------- bytes crate
@model(r'BytesMut::new$|Bytes::new$')
def _(e, c, a): return RVec([], 'Bytes')


@model(r'BytesMut::freeze$|Bytes::from$|<(bytes::)?Bytes as From<.*>>::from$|<(bytes::)?BytesMut as From<.*>>::from$|Bytes::copy_from_slice$|Bytes::from_static$|BytesMut::from$')
def _(e, c, a):
    v = un(a[0])
    if isinstance(v, RStr): return RVec([Cell(b) for b in sval(v).encode()], 'Bytes')
    if 'copy_from_slice' in c or isinstance(a[0], (Ref, SliceRef)): return RVec([Cell(x.v) for x in deref_vec(v).cells], 'Bytes')
    return deref_vec(v)


@model(r'BytesMut::split_to$|Bytes::split_to$')
def _(e, c, a):
    v = deref_vec(a[0]); n = a[1]
    if is_sym(n): n = e.concretize_index(n, len(v.cells) + 1)
    if n > len(v.cells): raise Panic('split_to out of bounds: %d > %d' % (n, len(v.cells)))
    head = v.cells[:n]; del v.cells[:n]
    return RVec(head, 'Bytes')


@model(r'BytesMut::split_off$|Bytes::split_off$')
def _(e, c, a):
    v = deref_vec(a[0]); n = a[1]
    if n > len(v.cells): raise Panic('split_off out of bounds')
    tail = v.cells[n:]; del v.cells[n:]
    return RVec(tail, 'Bytes')


@model(r'BytesMut::split$')
def _(e, c, a):
    v = deref_vec(a[0]); head = v.cells[:]; del v.cells[:]
    return RVec(head, 'Bytes')


@model(r'<(bytes::)?Bytes(Mut)? as (bytes::)?Buf>::advance$|BytesMut::advance$|Bytes::advance$')
def _(e, c, a):
    v = deref_vec(a[0]); n = a[1]
    if is_sym(n): n = e.concretize_index(n, len(v.cells) + 1)
    if n > len(v.cells): raise Panic('advance out of bounds')
    del v.cells[:n]; return mk_unit()


@model(r'Bytes::slice$|Bytes::slice_ref$')
def _(e, c, a):
    from .containers import range_bounds_sym
    v = deref_vec(a[0]); lo, hi = range_bounds_sym(e, un(a[1]), len(v.cells))
    if lo is None: raise Panic('Bytes::slice out of bounds')
    return RVec(v.cells[lo:hi], 'Bytes')


@model(r'<(bytes::)?Bytes(Mut)? as (bytes::)?BufMut>::put_u8$|BytesMut::put_u8$|<Vec<u8> as (bytes::)?BufMut>::put_u8$')
def _(e, c, a): deref_vec(a[0]).cells.append(Cell(a[1])); return mk_unit()


@model(r'<(bytes::)?Bytes(Mut)? as (bytes::)?Buf>::remaining$')
def _(e, c, a): return len(deref_vec(a[0]).cells)


# ---------------------------------------------------------------- arrayvec
@model(r'ArrayString::<.*>::from$|ArrayString::from$|ArrayString<.*>::from$')
def _(e, c, a):
    s = sval(a[0]); m = re.search(r'\[u8; (\d+)\]', c); cap = int(m.group(1)) if m else 31
    return Ok(RStr(s)) if len(s.encode()) <= cap else Err(Struct('CapacityError', [a[0]]))


@model(r'ArrayString::<.*>::new$|ArrayString::new$')
def _(e, c, a): return RStr('')


@model(r'ArrayString::<.*>::(as_str|deref)$|ArrayString::as_str$|<(arrayvec::)?ArrayString<.*> as Deref>::deref$')
def _(e, c, a): return un(a[0])


@model(r'ArrayString::<.*>::is_empty$|ArrayString::is_empty$')
def _(e, c, a): return sval(a[0]) == ''


@model(r'ArrayString::<.*>::len$|ArrayString::len$')
def _(e, c, a): return len(sval(a[0]).encode())


@model(r'ArrayString::<.*>::(try_push_str|push_str)$')
def _(e, c, a):
    s = un(a[0]); m = re.search(r'\[u8; (\d+)\]', c); cap = int(m.group(1)) if m else 31
    t = sval(s) + sval(a[1])
    if len(t.encode()) > cap:
        if 'try_' in c: return Err(Struct('CapacityError', [a[1]]))
        raise Panic('ArrayString capacity')
    s.s = t
    return Ok(mk_unit()) if 'try_' in c else mk_unit()


# ---------------------------------------------------------------- time (chrono / std): a symbolic non-decreasing clock
# Instants and durations are (whole seconds, milliseconds 0..999) pairs so that no multiplication or division
# reaches the solver.
def s64(x):
    if is_sym(x): return x if x.size() == 64 else z3.SignExt(64 - x.size(), x)
    return x


def now(e):
    k = e.notes.get('clock_n', 0); e.notes['clock_n'] = k + 1
    sec = z3.BitVec('clock_s%d' % k, 64); ms = z3.BitVec('clock_ms%d' % k, 64)
    e.assume(z3.ULT(sec, 1 << 40)); e.assume(z3.ULT(ms, 1000))
    prev = e.notes.get('clock_prev')
    if prev is not None:
        ps, pm = prev
        e.assume(z3.Or(z3.ULT(ps, sec), z3.And(ps == sec, z3.ULE(pm, ms))))
    e.notes['clock_prev'] = (sec, ms)
    e.notes.setdefault('clock_vars', []).append((sec, ms))
    return Struct('Instant', [sec, ms])


def t_sub(e, x, y, name):
    xs, xm, ys, ym = x.f[0].v, x.f[1].v, y.f[0].v, y.f[1].v
    if not any(is_sym(v) for v in (xs, xm, ys, ym)):
        tot = (xs * 1000 + xm) - (ys * 1000 + ym)
        return Struct(name, [tot // 1000, tot % 1000])
    borrow = e.binop('Lt', xm, ym, 'i64')
    sec = zite(borrow, bv(xs) - bv(ys) - 1, bv(xs) - bv(ys))
    ms = zite(borrow, bv(xm) - bv(ym) + 1000, bv(xm) - bv(ym))
    return Struct(name, [sec, ms])


def t_add(e, x, y, name):
    xs, xm, ys, ym = x.f[0].v, x.f[1].v, y.f[0].v, y.f[1].v
    if not any(is_sym(v) for v in (xs, xm, ys, ym)):
        tot = (xs * 1000 + xm) + (ys * 1000 + ym)
        return Struct(name, [tot // 1000, tot % 1000])
    m = bv(xm) + bv(ym)
    carry = z3.UGE(m, 1000)
    return Struct(name, [zite(carry, bv(xs) + bv(ys) + 1, bv(xs) + bv(ys)), zite(carry, m - 1000, m)])


def t_lt(e, x, y, strict=True):
    xs, xm, ys, ym = x.f[0].v, x.f[1].v, y.f[0].v, y.f[1].v
    lt = e.binop('Lt', xs, ys, 'i64'); eq = e.binop('Eq', xs, ys, 'i64')
    low = e.binop('Lt' if strict else 'Le', xm, ym, 'i64')
    return zor([lt, zand([eq, low])])


@model(r'chrono::Utc::now$|^Utc::now$|offset::utc::Utc::now$|Instant::now$|SystemTime::now$|coarsetime::Instant::(now|recent)$')
def _(e, c, a): return now(e)


@model(r'chrono::Duration::(seconds|milliseconds)$|^Duration::(seconds|milliseconds|from_secs|from_millis|from_micros|from_nanos|new)$|time::Duration::(from_secs|from_millis|from_micros|from_nanos|new)$|TimeDelta::(seconds|milliseconds|try_seconds)$')
def _(e, c, a):
    k = strip_generics(c).rstrip().split('::')[-1]
    x = a[0]
    if k in ('seconds', 'from_secs', 'try_seconds'): d = Struct('Duration', [s64(x), 0])
    elif k in ('milliseconds', 'from_millis'):
        if is_sym(x): raise Unmodelled('Duration from symbolic milliseconds')
        d = Struct('Duration', [x // 1000, x % 1000])
    elif k == 'new' and not is_sym(a[0]) and not is_sym(a[1]): d = Struct('Duration', [a[0], a[1] // 1000000])
    else: return Struct('Duration', [Opaque('duration', (k,)), 0])
    return Some(d) if k.startswith('try_') else d


@model(r'<(chrono::)?DateTime<.*> as Sub(<.*>)?>::sub$|<(std::time::)?Instant as Sub(<.*>)?>::sub$|DateTime<.*>::signed_duration_since$|Instant::duration_since$|Instant::elapsed$')
def _(e, c, a):
    x = un(a[0]); y = un(a[1]) if len(a) > 1 else None
    if strip_generics(c).rstrip().endswith('elapsed'): return t_sub(e, now(e), x, 'Duration')
    return t_sub(e, x, y, 'Instant' if y.name == 'Duration' else 'Duration')


@model(r'<(chrono::)?DateTime<.*> as Add<.*>>::add$|<(std::time::)?Instant as Add<.*>>::add$')
def _(e, c, a): return t_add(e, un(a[0]), un(a[1]), 'Instant')


@model(r'<(chrono::)?(Duration|TimeDelta) as PartialOrd>::(lt|le|gt|ge)$|<(chrono::)?DateTime<.*> as PartialOrd(<.*>)?>::(lt|le|gt|ge)$|<(std::time::)?(Duration|Instant) as PartialOrd>::(lt|le|gt|ge)$')
def _(e, c, a):
    op = c.rstrip()[-2:]; x, y = un(a[0]), un(a[1])
    if op == 'lt': return t_lt(e, x, y, True)
    if op == 'le': return t_lt(e, x, y, False)
    if op == 'gt': return t_lt(e, y, x, True)
    return t_lt(e, y, x, False)


@model(r'(Duration|TimeDelta)::(num_seconds|as_secs)$')
def _(e, c, a): return un(a[0]).f[0].v


@model(r'DateTime<.*>::timestamp$|DateTime::timestamp$')
def _(e, c, a): return un(a[0]).f[0].v


@model(r'NaiveDateTime::from_timestamp(_opt)?$')
def _(e, c, a):
    if not (isinstance(a[1], int) and a[1] == 0): raise Unmodelled('from_timestamp with nanoseconds')
    r = Struct('Instant', [s64(a[0]), 0]); return Some(r) if c.rstrip().endswith('_opt') else r


@model(r'DateTime(<.*>)?::from_utc$|DateTime(<.*>)?::from_naive_utc_and_offset$|NaiveDateTime::and_utc$')
def _(e, c, a): return a[0]


@model(r'<(bool|&bool) as Not>::not$')
def _(e, c, a): return znot(un(a[0]))


@model(r'chrono::Duration::max_value$|TimeDelta::max_value$|Duration::MAX$')
def _(e, c, a): return Struct('Duration', [(1 << 62), 0])


@model(r'^std::sleep$|^std::yield_now$')
def _(e, c, a): return mk_unit()


# ---------------------------------------------------------------- test harness plumbing (conformance suite)
@model(r'assert_test_result')
def _(e, c, a): return Ok(mk_unit())


# ---------------------------------------------------------------- locks (sequential semantics: uncontended)
@model(r'(RwLock|Mutex)(<.*>)?::new$|lock_api::(RwLock|Mutex)(<.*>)?::new$')
def _(e, c, a): return Struct('Lock', [a[0]])


@model(r'(RwLock|Mutex)(<.*>)?::(read|write|lock|try_lock|try_read|try_write|upgradable_read)$')
def _(e, c, a):
    lk = un(a[0])
    g = Ref(lk.f[0], 'guard')
    h = getattr(e, 'lock_hook', None)
    if h: h('lock', lk.f[0])
    k = strip_generics(c).rstrip().split('::')[-1]
    if 'parking_lot' in c or 'lock_api' in c:
        return Some(g) if k.startswith('try_') else g
    return Ok(g)      # std locks return LockResult


@model(r'(RwLock|Mutex)(<.*>)?::(into_inner|get_mut)$')
def _(e, c, a):
    lk = un(a[0]); return lk.f[0].v if 'into_inner' in c else Ref(lk.f[0])


@model(r'<.*(Future|Pin<.*>) as Future>::poll$|<.*as IntoFuture>::into_future$| as (futures::)?(\w+::)*Future>::poll$')
def _(e, c, a):
    if 'into_future' in c: return a[0]
    return e.poll(a[0])


# ---------------------------------------------------------------- atomics (sequential semantics; the concurrent mode intercepts these)
ATOMIC = r'(?:^|::)Atomic(?:<.*>)?(?:U64|Usize|U32|I64|Bool|U8|I32|Isize)?(?:<.*>)?::'


def _atomic_hook(e, op, cell, *vals):
    h = getattr(e, 'atomic_hook', None)
    return h(op, cell, *vals) if h else None


@model(ATOMIC + r'new$|<(std::sync::atomic::)?Atomic\w* as Default>::default$')
def _(e, c, a): return Struct('Atomic', [a[0] if a else 0])


@model(ATOMIC + r'load$')
def _(e, c, a):
    cell = un(a[0]).f[0]
    r = _atomic_hook(e, 'load', cell)
    return cell.v if r is None else r


@model(ATOMIC + r'store$')
def _(e, c, a):
    cell = un(a[0]).f[0]
    if _atomic_hook(e, 'store', cell, a[1]) is None: cell.v = a[1]
    return mk_unit()


@model(ATOMIC + r'swap$')
def _(e, c, a):
    cell = un(a[0]).f[0]
    r = _atomic_hook(e, 'swap', cell, a[1])
    if r is not None: return r
    old = cell.v; cell.v = a[1]; return old


@model(ATOMIC + r'fetch_(add|sub|and|or|max|min)$')
def _(e, c, a):
    cell = un(a[0]).f[0]; k = re.search(r'fetch_(\w+)$', strip_generics(c).strip()).group(1)
    r = _atomic_hook(e, 'fetch_' + k, cell, a[1])
    if r is not None: return r
    old = cell.v
    ty = 'u64'
    if k == 'add': cell.v = e.binop('Add', old, a[1], ty)
    elif k == 'sub': cell.v = e.binop('Sub', old, a[1], ty)
    elif k == 'and': cell.v = e.binop('BitAnd', old, a[1], ty)
    elif k == 'or': cell.v = e.binop('BitOr', old, a[1], ty)
    elif k == 'max': cell.v = zite(e.binop('Ge', old, a[1], ty), old, a[1])
    else: cell.v = zite(e.binop('Le', old, a[1], ty), old, a[1])
    return old


@model(ATOMIC + r'compare_exchange(_weak)?$|' + ATOMIC + r'compare_and_swap$')
def _(e, c, a):
    cell = un(a[0]).f[0]
    r = _atomic_hook(e, 'cas', cell, a[1], a[2])
    if r is not None: return r
    old = cell.v
    if e.branch(veq(old, a[1])):
        cell.v = a[2]
        return Ok(old) if 'compare_exchange' in c else old
    return Err(old) if 'compare_exchange' in c else old


@model(ATOMIC + r'(get_mut|into_inner)$')
def _(e, c, a):
    at = un(a[0]); return Ref(at.f[0]) if 'get_mut' in c else at.f[0].v


@model(r'^std::fence$|^std::compiler_fence$|^std::spin_loop$')
def _(e, c, a): return mk_unit()


# ---------------------------------------------------------------- arrayvec::ArrayVec
@model(r'ArrayVec(<.*>)?::new$')
def _(e, c, a): return RVec([], 'ArrayVec')


@model(r'ArrayVec(<.*>)?::(try_push|push)$')
def _(e, c, a):
    v = deref_vec(a[0]); m = re.search(r'; (\d+)\]', c); cap = int(m.group(1)) if m else 64
    if len(v.cells) >= cap:
        if 'try_push' in c: return Err(Struct('CapacityError', [a[1]]))
        raise Panic('ArrayVec capacity')
    v.cells.append(Cell(a[1]))
    return Ok(mk_unit()) if 'try_push' in c else mk_unit()


@model(r'ArrayVec(<.*>)?::(as_slice|as_ref|deref|as_mut_slice)$|<(arrayvec::)?ArrayVec<.*> as Deref(Mut)?>::deref(_mut)?$')
def _(e, c, a): return SliceRef(deref_vec(a[0]))


@model(r'ArrayVec(<.*>)?::len$')
def _(e, c, a): return len(deref_vec(a[0]).cells)


@model(r'ArrayVec(<.*>)?::(is_full|is_empty|capacity|clear)$')
def _(e, c, a):
    v = deref_vec(a[0]); m = re.search(r'; (\d+)\]', c); cap = int(m.group(1)) if m else 64
    k = strip_generics(c).strip().split('::')[-1]
    if k == 'clear': del v.cells[:]; return mk_unit()
    return {'is_full': len(v.cells) >= cap, 'is_empty': not v.cells, 'capacity': cap}[k]


@model(r'ArrayString(<.*>)?::try_push$|ArrayString(<.*>)?::push$')
def _(e, c, a):
    s_ = un(a[0]); m = re.search(r'; (\d+)\]', c); cap = int(m.group(1)) if m else 31
    t = sval(s_) + chr(a[1])
    if len(t.encode()) > cap:
        if 'try_push' in c: return Err(Struct('CapacityError', [a[1]]))
        raise Panic('ArrayString capacity')
    s_.s = t
    return Ok(mk_unit()) if 'try_push' in c else mk_unit()


@model(r'^std::size_of$|^std::size_of_val$|^std::align_of$')
def _(e, c, a):
    ty = (generic_args(c) or '').strip()
    if ty.endswith('ClusterName'): return 32
    if ty in INT_W: return max(1, INT_W[ty] // 8)
    raise Unmodelled('size_of::<%s>' % ty)


@model(r'<.* as (io::)?Write>::(write|write_all)$|<Vec<u8> as Write>::(write|write_all)$')
def _(e, c, a):
    tgt = un(a[0])
    from .containers import slice_cells
    data = slice_cells(a[1])
    if isinstance(tgt, PyObj): return tgt.mir_call(e, 'Write', 'write', a)
    if isinstance(tgt, Struct) and tgt.name not in ('[]',):
        k = strip_generics(c).strip().split('::')[-1]
        fs = e.by_impl.get((tgt.name, 'Write', k))
        if fs: return e.run_func(fs[0], a)
        if k == 'write_all':
            fs = e.by_impl.get((tgt.name, 'Write', 'write'))
            if fs: e.run_func(fs[0], a); return Ok(mk_unit())
    deref_vec(tgt).cells.extend(Cell(x.v) for x in data)
    return Ok(len(data)) if strip_generics(c).strip().endswith('::write') else Ok(mk_unit())


@model(r'<.* as (io::)?Write>::flush$')
def _(e, c, a): return Ok(mk_unit())


# ---------------------------------------------------------------- arc_swap / tokio plumbing
@model(r'ArcSwap(Any)?(<.*>)?::(new|from_pointee|from)$|ArcSwapOption(<.*>)?::(new|empty|from_pointee)$')
def _(e, c, a):
    v = a[0] if a else NONE()
    if 'from_pointee' in c: v = Ref(Cell(v), 'Arc')
    return Struct('ArcSwap', [Struct('Atomic', [v])])


@model(r'ArcSwap(Any)?(<.*>)?::(load|load_full)$|ArcSwapOption(<.*>)?::(load|load_full)$')
def _(e, c, a):
    at = un(a[0]).f[0].v
    cell = at.f[0]
    h = getattr(e, 'atomic_hook', None)
    r = h('load_ptr', cell) if h else None
    return cell.v if r is None else r


@model(r'ArcSwap(Any)?(<.*>)?::(store|swap)$|ArcSwapOption(<.*>)?::(store|swap)$')
def _(e, c, a):
    at = un(a[0]).f[0].v
    cell = at.f[0]
    h = getattr(e, 'atomic_hook', None)
    old = cell.v
    if not (h and h('store_ptr', cell, a[1]) is not None): cell.v = a[1]
    return old if strip_generics(c).strip().endswith('swap') else mk_unit()


@model(r'<(arc_swap::)?Guard<.*> as Deref>::deref$')
def _(e, c, a):
    v = a[0]
    while isinstance(v, Ref) and isinstance(v.cell.v, Ref): v = v.cell.v
    return v


@model(r'^tokio::spawn$|tokio::task::spawn$|^tokio::task::spawn_blocking$')
def _(e, c, a):
    e.events.append(('spawn', a[0])); return Opaque('JoinHandle')


@model(r'EMPTY_CLUSTER_NAME as Deref>::deref$', front=True)
def _(e, c, a):
    # lazy_static! { static ref EMPTY_CLUSTER_NAME: ClusterName = ClusterName::empty(); }
    return Ref(Cell(e.run_func(e.find_fn('ClusterName', 'empty'), [])))


# ---------------------------------------------------------------- futures oneshot channel
@model(r'oneshot::channel$')
def _(e, c, a):
    ch = Cell(None)
    return Tuple(Struct('OneshotSender', [Ref(ch, 'Arc')]), Struct('OneshotReceiver', [Ref(ch, 'Arc')]))


@model(r'oneshot::Sender(<.*>)?::send$')
def _(e, c, a):
    snd = un(a[0]); ch = snd.f[0].v.cell
    ch.v = a[1]; e.events.append(('oneshot-send', snd, a[1]))
    return Ok(mk_unit())


@model(r'oneshot::Sender(<.*>)?::(is_canceled|poll_canceled)$')
def _(e, c, a): return False


# ---------------------------------------------------------------- zstd (C library behind FFI): an injective pair
# encode_all(x) = MAGIC ++ x  (a frame starting with the zstd magic number), decode_all(MAGIC ++ x) = x and every byte
# string that does not start with the magic number is rejected.  This is one concrete instance of the contract
# "decode(encode(x)) = x, decode of a non-image fails"; the real library's own round trip is trusted (C20 assumptions).
ZSTD_MAGIC = [0x28, 0xB5, 0x2F, 0xFD]


@model(r'zstd::(stream::)?(functions::)?encode_all$|^encode_all$')
def _(e, c, a):
    src = deref_vec(a[0])
    e.events.append(('zstd-encode', len(src.cells)))
    return Ok(RVec([Cell(b) for b in ZSTD_MAGIC] + [Cell(x.v) for x in src.cells]))


@model(r'zstd::(stream::)?(functions::)?decode_all$|^decode_all$')
def _(e, c, a):
    src = deref_vec(a[0])
    e.events.append(('zstd-decode', len(src.cells)))
    if len(src.cells) < 4: return Err(Opaque('io::Error', 'zstd: not a frame'))
    ok = zand([veq(src.cells[i].v, ZSTD_MAGIC[i]) for i in range(4)])
    if e.branch(ok) if is_sym(ok) else ok:
        return Ok(RVec([Cell(x.v) for x in src.cells[4:]]))
    return Err(Opaque('io::Error', 'zstd: not a frame'))


@model(r'zstd::bulk::(functions::)?decompress$')
def _(e, c, a):
    # one-shot decompression into a buffer of `capacity` bytes: fails when the decompressed size exceeds the capacity.
    # Compression ratios are outside the injective-pair model (a frame of n bytes may decode to far more than any fixed
    # multiple of n), so whether the value fits is an environment choice; a counterexample that takes it is replayed
    # natively with a large, highly compressible value in place of the witness value.
    src = deref_vec(a[0])
    e.events.append(('zstd-decode', len(src.cells)))
    if len(src.cells) < 4: return Err(Opaque('io::Error', 'zstd: not a frame'))
    ok = zand([veq(src.cells[i].v, ZSTD_MAGIC[i]) for i in range(4)])
    if not (e.branch(ok) if is_sym(ok) else ok): return Err(Opaque('io::Error', 'zstd: not a frame'))
    # a capacity of at least Redis' largest possible value (proto-max-bulk-len, 512 MiB) always suffices
    cap = un(a[1])
    if not (isinstance(cap, int) and cap >= (512 << 20)) and e.choose(2, 'zstd: decompressed size exceeds the capacity') == 1:
        e.events.append(('zstd-capacity-exceeded', a[1]))
        return Err(Opaque('io::Error', 'zstd: destination buffer is too small'))
    return Ok(RVec([Cell(x.v) for x in src.cells[4:]]))


@model(r'zstd::bulk::(functions::)?compress$')
def _(e, c, a):
    src = deref_vec(a[0])
    e.events.append(('zstd-encode', len(src.cells)))
    return Ok(RVec([Cell(b) for b in ZSTD_MAGIC] + [Cell(x.v) for x in src.cells]))


# ---------------------------------------------------------------- task::Poll combinators
@model(r'^Poll::map$|task::Poll::map$')
def _(e, c, a):
    p = un(a[0])
    if p.variant == 1: return Enum('Poll', 1)
    return Enum('Poll', 0, [e.call_fn_value(a[1], [p.f[0].v])])


@model(r'^Poll::(is_ready|is_pending)$')
def _(e, c, a):
    p = un(a[0]); return (p.variant == 0) == c.rstrip().endswith('is_ready')


@model(r'Duration::subsec_(nanos|micros|millis)$')
def _(e, c, a):
    d = un(a[0]); ms = d.f[1].v
    k = c.rstrip().split('_')[-1]
    mul = {'nanos': 1000000, 'micros': 1000, 'millis': 1}[k]
    if not is_sym(ms): return ms * mul
    # sub-millisecond part is not tracked: any value consistent with the millisecond count
    n = e.notes.get('subsec_n', 0); e.notes['subsec_n'] = n + 1
    lo = z3.BitVec('subsec%d' % n, 32)
    e.assume(z3.ULT(lo, mul))
    return z3.Extract(31, 0, bv(ms, 64)) * mul + lo


@model(r'Duration::as_(nanos|micros|millis)$')
def _(e, c, a):
    d = un(a[0]); s_, ms = d.f[0].v, d.f[1].v
    k = c.rstrip().split('_')[-1]
    mul = {'nanos': 1000000000, 'micros': 1000000, 'millis': 1000}[k]
    if not is_sym(s_) and not is_sym(ms): return s_ * mul + ms * (mul // 1000)
    return z3.ZeroExt(64, bv(s_, 64)) * mul + z3.ZeroExt(64, bv(ms, 64)) * (mul // 1000)


# ---------------------------------------------------------------- std::io::Error (opaque value with a kind)
@model(r'(?:^|::)Error::kind$')
def _(e, c, a): return Opaque('io::ErrorKind', 'Other')


@model(r'^<(io::)?Error as From<(io::)?ErrorKind>>::from$|^(io::)?Error::(new|other)$')
def _(e, c, a): return Opaque('io::Error', 'from-kind')


@model(r'SystemTime::duration_since$')
def _(e, c, a):
    x = un(a[0]); return Ok(Struct('Duration', [x.f[0].v, x.f[1].v]))


@model(r'crossbeam_channel::Receiver(<.*>)?::(len|is_empty)$')
def _(e, c, a):
    ch = un(a[0]).f[0].v
    q = e.notes.setdefault('chanq', {}).setdefault(ch.name, [])
    return len(q) if c.rstrip().endswith('len') else not q
