from . import core, containers, iters, strings, misc  # noqa: F401  (each module registers its models)
from . import futures
