"""Models: panics, Option/Result, Try, Clone/PartialEq/Default/From/Into, mem, cmp, Fn traits, Box/Arc/Rc."""
import re
import z3
from ..values import *
from ..engine import model, strip_generics


def generic_args(callee, idx=None):
    """text of the trailing ::<...> generic list of a callee (None if it has none)"""
    c = callee.strip()
    if not c.endswith('>'): return None
    depth = 0
    for i in range(len(c) - 1, -1, -1):
        ch = c[i]
        if ch == '>' and (i == 0 or c[i - 1] not in '-='): depth += 1
        elif ch == '<':
            depth -= 1
            if depth == 0:
                return c[i + 1:-1] if c[i - 2:i] == '::' else None
    return None


def _self_type_arg(callee):
    """T of `Option::<T>::method` / `Result::<T, E>::method`"""
    from ..mir import scan_split
    m = re.search(r'(?:Option|Result)::<(.*)>::\w+$', callee.strip(), flags=re.S)
    return scan_split(m.group(1))[0].strip() if m else ''


def crate_impl(e, recv, trait, meth):
    tn = e.type_name_of(recv)
    if tn:
        fs = e.by_impl.get((tn, trait, meth))
        if fs and len(fs) == 1: return fs[0]
    return None


# ---------------------------------------------------------------- panics
@model(r'^std::panic(_fmt|_nounwind|_explicit|_display|_const::\w+|_cannot_unwind|_in_cleanup|_bounds_check|_nounwind_fmt)?$|^std::begin_panic|^std::panic_fmt$|^std::(abort|exit)$')
def m_panic(e, c, a):
    msg = ''
    for x in a:
        x = un(x)
        if isinstance(x, RStr): msg = repr(x.s)
        elif isinstance(x, Struct) and x.name == 'FmtArgs': msg = repr(x.f[0].v)
    raise Panic('panic: %s %s' % (strip_generics(c).split('::')[-1], msg))


@model(r'^std::assert_failed|^std::assert_matches_failed')
def m_assert_failed(e, c, a):
    raise Panic('assertion `left == right` failed: %r vs %r' % (un(a[1]) if len(a) > 1 else None, un(a[2]) if len(a) > 2 else None))


@model(r'^std::expect_failed|^std::unwrap_failed|^std::slice_\w+_fail|^std::slice_error_fail|^std::panic_bounds_check')
def m_fail(e, c, a): raise Panic(strip_generics(c).split('::')[-1])


# ---------------------------------------------------------------- Option
def opt(v):
    v = un(v)
    if not isinstance(v, Enum) or v.name != 'Option': raise Unmodelled('expected Option, got %r' % (v,))
    return v


def res(v):
    v = un(v)
    if not isinstance(v, Enum) or v.name != 'Result': raise Unmodelled('expected Result, got %r' % (v,))
    return v


@model(r'Option::expect$')
def m_opt_expect(e, c, a):
    o = opt(a[0])
    if o.variant == 0: raise Panic('expect failed: %s' % (sval(a[1]) if isinstance(un(a[1]), RStr) else '?'))
    return o.f[0].v


@model(r'Option::unwrap$|Option::unwrap_unchecked$')
def m_opt_unwrap(e, c, a):
    o = opt(a[0])
    if o.variant == 0: raise Panic('called `Option::unwrap()` on a `None` value')
    return o.f[0].v


@model(r'Option::map$')
def _(e, c, a):
    o = opt(a[0])
    return Some(e.call_fn_value(a[1], [o.f[0].v])) if o.variant == 1 else NONE()


@model(r'Option::map_or$')
def _(e, c, a):
    o = opt(a[0])
    return e.call_fn_value(a[2], [o.f[0].v]) if o.variant == 1 else a[1]


@model(r'Option::map_or_else$')
def _(e, c, a):
    o = opt(a[0])
    return e.call_fn_value(a[2], [o.f[0].v]) if o.variant == 1 else e.call_fn_value(a[1], [])


@model(r'Option::and_then$')
def _(e, c, a):
    o = opt(a[0])
    return e.call_fn_value(a[1], [o.f[0].v]) if o.variant == 1 else NONE()


@model(r'Option::or_else$')
def _(e, c, a):
    o = opt(a[0])
    return o if o.variant == 1 else e.call_fn_value(a[1], [])


@model(r'Option::or$')
def _(e, c, a):
    o = opt(a[0]); return o if o.variant == 1 else a[1]


@model(r'Option::filter$')
def _(e, c, a):
    o = opt(a[0])
    if o.variant == 1 and e.branch(e.call_fn_value(a[1], [Ref(o.f[0])])): return o
    return NONE()


@model(r'Option::is_none$')
def _(e, c, a): return opt(a[0]).variant == 0


@model(r'Option::is_some$')
def _(e, c, a): return opt(a[0]).variant == 1


@model(r'Option::is_some_and$')
def _(e, c, a):
    o = opt(a[0])
    return e.call_fn_value(a[1], [o.f[0].v]) if o.variant == 1 else False


@model(r'Option::as_ref$|Option::as_mut$')
def _(e, c, a):
    o = opt(a[0]); return Some(Ref(o.f[0])) if o.variant == 1 else NONE()


@model(r'Option::as_deref$|Option::as_deref_mut$')
def _(e, c, a):
    o = opt(a[0])
    if o.variant == 0: return NONE()
    v = o.f[0].v
    if isinstance(v, RStr): return Some(v)
    if isinstance(v, RVec): return Some(SliceRef(v))
    if isinstance(v, Ref): return Some(v)
    return Some(Ref(o.f[0]))


@model(r'Option::cloned$|Option::copied$')
def _(e, c, a):
    o = opt(a[0])
    if o.variant == 0: return NONE()
    x = o.f[0].v
    return Some(e.clone_value(x.cell.v if isinstance(x, Ref) else x))


@model(r'Option::take$')
def _(e, c, a):
    cell = a[0].cell; old = cell.v; cell.v = NONE(); return old


@model(r'Option::replace$')
def _(e, c, a):
    cell = a[0].cell; old = cell.v; cell.v = Some(a[1]); return old


@model(r'Option::insert$|Option::get_or_insert$')
def _(e, c, a):
    cell = a[0].cell
    if c.endswith('get_or_insert') and opt(cell.v).variant == 1: return Ref(cell.v.f[0])
    cell.v = Some(a[1]); return Ref(cell.v.f[0])


@model(r'Option::get_or_insert_with$')
def _(e, c, a):
    cell = a[0].cell
    if opt(cell.v).variant == 0: cell.v = Some(e.call_fn_value(a[1], []))
    return Ref(cell.v.f[0])


@model(r'Option::ok_or$')
def _(e, c, a):
    o = opt(a[0]); return Ok(o.f[0].v) if o.variant == 1 else Err(a[1])


@model(r'Option::ok_or_else$')
def _(e, c, a):
    o = opt(a[0]); return Ok(o.f[0].v) if o.variant == 1 else Err(e.call_fn_value(a[1], []))


@model(r'Option::unwrap_or$')
def _(e, c, a):
    o = opt(a[0]); return o.f[0].v if o.variant == 1 else a[1]


@model(r'Option::unwrap_or_else$')
def _(e, c, a):
    o = opt(a[0]); return o.f[0].v if o.variant == 1 else e.call_fn_value(a[1], [])


@model(r'Option::unwrap_or_default$')
def _(e, c, a):
    o = opt(a[0])
    if o.variant == 1: return o.f[0].v
    return e.default_value(generic_args(c) or _self_type_arg(c))


@model(r'Option::iter$|Option::iter_mut$|^<(std::option::)?Option<.*> as IntoIterator>::into_iter$|^<&(mut )?(std::option::)?Option<.*> as IntoIterator>::into_iter$')
def _(e, c, a):
    byref = isinstance(a[0], Ref)
    o = opt(a[0])
    if o.variant == 0: return PyIter([])
    return PyIter([Ref(o.f[0]) if byref else o.f[0].v])


@model(r'Option::zip$')
def _(e, c, a):
    o, p = opt(a[0]), opt(a[1])
    return Some(Tuple(o.f[0].v, p.f[0].v)) if o.variant == 1 and p.variant == 1 else NONE()


@model(r'Option::xor$')
def _(e, c, a):
    o, p = opt(a[0]), opt(a[1])
    if o.variant == 1 and p.variant == 0: return o
    if o.variant == 0 and p.variant == 1: return p
    return NONE()


# ---------------------------------------------------------------- Result
@model(r'Result::map_err$')
def _(e, c, a):
    r = res(a[0])
    return r if r.variant == 0 else Err(e.call_fn_value(a[1], [r.f[0].v]))


@model(r'Result::map$')
def _(e, c, a):
    r = res(a[0])
    return Ok(e.call_fn_value(a[1], [r.f[0].v])) if r.variant == 0 else r


@model(r'Result::and_then$')
def _(e, c, a):
    r = res(a[0])
    return e.call_fn_value(a[1], [r.f[0].v]) if r.variant == 0 else r


@model(r'Result::or_else$')
def _(e, c, a):
    r = res(a[0])
    return r if r.variant == 0 else e.call_fn_value(a[1], [r.f[0].v])


@model(r'Result::ok$')
def _(e, c, a):
    r = res(a[0]); return Some(r.f[0].v) if r.variant == 0 else NONE()


@model(r'Result::err$')
def _(e, c, a):
    r = res(a[0]); return Some(r.f[0].v) if r.variant == 1 else NONE()


@model(r'Result::is_ok$')
def _(e, c, a): return res(a[0]).variant == 0


@model(r'Result::is_err$')
def _(e, c, a): return res(a[0]).variant == 1


@model(r'Result::as_ref$|Result::as_mut$')
def _(e, c, a):
    r = res(a[0]); return Enum('Result', r.variant, [Ref(r.f[0])])


@model(r'Result::unwrap$|Result::expect$')
def _(e, c, a):
    r = res(a[0])
    if r.variant == 1: raise Panic('called `Result::unwrap()`/expect on an `Err` value: %r' % (r.f[0].v,))
    return r.f[0].v


@model(r'Result::unwrap_err$|Result::expect_err$')
def _(e, c, a):
    r = res(a[0])
    if r.variant == 0: raise Panic('called `Result::unwrap_err()` on an `Ok` value')
    return r.f[0].v


@model(r'Result::unwrap_or$')
def _(e, c, a):
    r = res(a[0]); return r.f[0].v if r.variant == 0 else a[1]


@model(r'Result::unwrap_or_else$')
def _(e, c, a):
    r = res(a[0]); return r.f[0].v if r.variant == 0 else e.call_fn_value(a[1], [r.f[0].v])


@model(r'Result::unwrap_or_default$')
def _(e, c, a):
    r = res(a[0])
    if r.variant == 0: return r.f[0].v
    return e.default_value(generic_args(c) or _self_type_arg(c))


@model(r'Result::ok_or$')
def _(e, c, a): raise Unmodelled(c)


@model(r'as Try>::branch$')
def _(e, c, a):
    v = un(a[0]) if not isinstance(a[0], Enum) else a[0]
    if v.name == 'Option':
        return Enum('ControlFlow', 0, [v.f[0].v]) if v.variant == 1 else Enum('ControlFlow', 1, [NONE()])
    if v.name == 'Result':
        return Enum('ControlFlow', 0, [v.f[0].v]) if v.variant == 0 else Enum('ControlFlow', 1, [Err(v.f[0].v)])
    if v.name == 'Poll':
        raise Unmodelled('Try on Poll')
    raise Unmodelled('Try::branch on %r' % (v,))


@model(r'as FromResidual<.*>>::from_residual$|as FromResidual>::from_residual$')
def _(e, c, a):
    v = a[0]
    if v.name == 'Option': return NONE()
    # Result<Infallible, E> -> Result<T, F> with F: From<E>
    err = v.f[0].v
    m = re.match(r'<(?:std::result::)?Result<(.*)> as FromResidual<(?:std::result::)?Result<(.*)>>>', c.strip(), flags=re.S)
    if m:
        from ..mir import scan_split
        tgt = scan_split(m.group(1)); src = scan_split(m.group(2))
        if len(tgt) == 2 and len(src) == 2 and tgt[1].strip() != src[1].strip():
            err = e.convert_from(err, tgt[1].strip())
    return Err(err)


# ---------------------------------------------------------------- Clone / PartialEq / Default / From / Into
@model(r'as Clone>::clone$|^Clone::clone$|as ToOwned>::to_owned$|Cow<.*>::into_owned$|Cow::into_owned$')
def m_clone(e, c, a):
    return e.clone_value(a[0] if not isinstance(a[0], Ref) else a[0].cell.v, via_ref=a[0])


@model(r'as PartialEq(<.*>)?>::(eq|ne)$|^PartialEq::(eq|ne)$')
def m_eq(e, c, a):
    f = crate_impl(e, a[0], 'PartialEq', 'eq')
    if f is not None and not e.is_derived(f):
        r = e.run_func(f, [un_one(a[0]), un_one(a[1])])
        return r if c.rstrip().endswith('eq') else znot(r)
    r = veq(a[0], a[1])
    return r if c.rstrip().endswith('eq') else znot(r)


@model(r'as Default>::default$|^Default::default$')
def m_default(e, c, a):
    m = re.match(r'<(.+) as (?:std::default::)?Default>', c.strip(), flags=re.S)
    return e.default_value(m.group(1) if m else '')


@model(r'as Into<.*>>::into$|as From<.*>>::from$|as TryFrom<.*>>::try_from$|as TryInto<.*>>::try_into$')
def m_from_into(e, c, a):
    cs = c.strip()
    m = re.match(r'<(.+) as (?:std::convert::)?(Into|From|TryFrom|TryInto)<(.*)>>::\w+$', cs, flags=re.S)
    if not m: raise Unmodelled(c)
    if m.group(2) in ('Into', 'TryInto'): src, tgt = m.group(1).strip(), m.group(3).strip()
    else: tgt, src = m.group(1).strip(), m.group(3).strip()
    r = e.convert_from(a[0], tgt, src)
    if m.group(2).startswith('Try'):
        if isinstance(r, Enum) and r.name == 'Result': return r
        return Ok(r)
    return r


@model(r'as AsRef<.*>>::as_ref$|as Borrow<.*>>::borrow$|as AsMut<.*>>::as_mut$|as BorrowMut<.*>>::borrow_mut$')
def m_asref(e, c, a):
    v = un(a[0])
    m = re.search(r'(?:AsRef|Borrow|AsMut|BorrowMut)<(.*)>>::\w+$', c.strip(), flags=re.S)
    tgt = m.group(1).strip() if m else ''
    if isinstance(v, RStr):
        if tgt.startswith('[u8]'): return SliceRef(RVec([Cell(b) for b in sval(v).encode()], 'bytes'))
        return v
    if isinstance(v, RVec): return SliceRef(v)
    if isinstance(v, SliceRef): return v
    if isinstance(v, Struct) and v.name == '[]': return SliceRef(RVec(v.f, 'array'))
    f = crate_impl(e, v, 'AsRef', 'as_ref')
    if f is not None: return e.run_func(f, a)
    return a[0]


@model(r'as Deref>::deref$|as DerefMut>::deref_mut$|^Deref::deref$')
def m_deref(e, c, a):
    v = a[0]
    while isinstance(v, Ref) and isinstance(v.cell.v, Ref): v = v.cell.v
    inner = un(v)
    if isinstance(inner, RVec): return SliceRef(inner)
    if isinstance(inner, RStr): return inner
    if isinstance(inner, SliceRef): return inner
    f = crate_impl(e, inner, 'Deref' if c.rstrip().endswith('deref') else 'DerefMut', 'deref' if c.rstrip().endswith('deref') else 'deref_mut')
    if f is not None: return e.run_func(f, a)
    if isinstance(inner, Struct) and inner.name in ('Guard', 'Pin', 'ManuallyDrop', 'Cow') and len(inner.f) >= 1:
        x = inner.f[0].v
        return x if isinstance(x, Ref) else Ref(inner.f[0])
    if isinstance(inner, Enum) and inner.name == 'Cow':
        x = inner.f[0].v
        if isinstance(x, (RStr, SliceRef, Ref)): return x
        if isinstance(x, RVec): return SliceRef(x)
        return Ref(inner.f[0])
    # Box / Arc / Rc / guards are Refs already
    if isinstance(v, Ref): return v
    raise Unmodelled('deref of %r' % (inner,))


# ---------------------------------------------------------------- mem / cmp / misc
@model(r'^std::swap$')
def _(e, c, a):
    x, y = a[0].cell, a[1].cell; x.v, y.v = y.v, x.v; return mk_unit()


@model(r'^std::replace$')
def _(e, c, a):
    cell = a[0].cell; old = cell.v; cell.v = a[1]; return old


@model(r'^std::take$')
def _(e, c, a):
    cell = a[0].cell; old = cell.v
    cell.v = e.default_like(old); return old


@model(r'^std::drop$|^std::drop_in_place')
def _(e, c, a):
    e.drop_value(a[0]); return mk_unit()


@model(r'^<(Box|Vec|String|Arc|Rc)(<.*>)? as Drop>::drop$')
def _(e, c, a):
    # explicit drop glue call for a std owner (e.g. partially moved Box): run the Drop impls of crate types inside
    v = un(a[0])
    e.drop_value(v); return mk_unit()


@model(r'^std::forget$')
def _(e, c, a): return mk_unit()


@model(r'^std::must_use$|^must_use$|^std::black_box$|^std::identity$|^identity$|convert::identity$')
def _(e, c, a): return a[0]


@model(r'^std::(min|max)$|as Ord>::(min|max)$|^Ord::(min|max)$')
def m_minmax(e, c, a):
    x, y = un(a[0]), un(a[1])
    ty = generic_args(c) or 'usize'
    m = re.match(r'<(\w+) as', c.strip())
    if m: ty = m.group(1)
    if isinstance(x, (Struct, Enum, RStr)) or isinstance(y, (Struct, Enum, RStr)):
        o = compare(e, x, y)
        xl = o <= 0
    else:
        xl = e.branch(e.binop('Le', x, y, ty if ty in ('usize', 'u64', 'i64', 'u32', 'i32', 'u16', 'u8', 'isize', 'i8', 'i16') else 'usize')) if (is_sym(x) or is_sym(y)) else x <= y
    ismin = strip_generics(c).rstrip().endswith('min')
    if ismin: return a[0] if xl else a[1]
    return a[1] if xl else a[0]          # max returns the second argument on ties


def compare(e, x, y, ty='usize'):
    """three-way comparison -> -1/0/1 (forks on symbolic scalars)"""
    x = un(x); y = un(y)
    if isinstance(x, RStr) and isinstance(y, RStr):
        sx, sy = sval(x).encode(), sval(y).encode()
        return -1 if sx < sy else (0 if sx == sy else 1)
    if isinstance(x, Struct) and isinstance(y, Struct) and x.name.split('::')[-1] == 'Reverse' and len(x.f) == 1:
        return -compare(e, x.f[0].v, y.f[0].v, ty)          # std::cmp::Reverse
    if isinstance(x, (Struct, Enum)) and isinstance(y, type(x)):
        f = crate_impl(e, x, 'Ord', 'cmp') or crate_impl(e, x, 'PartialOrd', 'partial_cmp')
        if f is not None:
            r = un(e.run_func(f, [Ref(Cell(x)), Ref(Cell(y))]))
            if r.name == 'Option': r = r.f[0].v
            return r.variant - 1
    if isinstance(x, Struct) and isinstance(y, Struct):
        for cx, cy in zip(x.f, y.f):
            o = compare(e, cx.v, cy.v)
            if o != 0: return o
        return 0
    if isinstance(x, Enum) and isinstance(y, Enum):
        if x.variant != y.variant: return -1 if x.variant < y.variant else 1
        for cx, cy in zip(x.f, y.f):
            o = compare(e, cx.v, cy.v)
            if o != 0: return o
        return 0
    if isinstance(x, (RVec, SliceRef)):
        cx, cy = deref_vec(x).cells, deref_vec(y).cells
        for p, q in zip(cx, cy):
            o = compare(e, p.v, q.v, 'u8')
            if o != 0: return o
        return -1 if len(cx) < len(cy) else (0 if len(cx) == len(cy) else 1)
    if is_sym(x) or is_sym(y):
        if e.branch(e.binop('Lt', x, y, ty)): return -1
        if e.branch(e.binop('Eq', x, y, ty)): return 0
        return 1
    if not isinstance(x, (int, float)) or not isinstance(y, (int, float)): raise Unmodelled('compare of %r and %r' % (x, y))
    return -1 if x < y else (0 if x == y else 1)


def int_ty_of(c):
    m = re.match(r'<&?(\w+) as', c.strip())
    if m and m.group(1) in ('usize', 'u64', 'i64', 'u32', 'i32', 'u16', 'u8', 'isize', 'i8', 'i16', 'u128', 'i128', 'char'): return m.group(1)
    m = re.search(r'<impl (\w+)>', c)
    if m: return m.group(1)
    return 'usize'


@model(r'as Ord>::cmp$|^Ord::cmp$')
def _(e, c, a): return Enum('Ordering', compare(e, a[0], a[1], int_ty_of(c)) + 1)


@model(r'as PartialOrd(<.*>)?>::partial_cmp$')
def _(e, c, a): return Some(Enum('Ordering', compare(e, a[0], a[1], int_ty_of(c)) + 1))


@model(r'as PartialOrd(<.*>)?>::(lt|le|gt|ge)$')
def _(e, c, a):
    op = c.rstrip()[-2:]
    x, y = un(a[0]), un(a[1])
    if not isinstance(x, (Struct, Enum, RStr, RVec, SliceRef)):
        return e.binop({'lt': 'Lt', 'le': 'Le', 'gt': 'Gt', 'ge': 'Ge'}[op], x, y, int_ty_of(c))
    o = compare(e, x, y, int_ty_of(c))
    return {'lt': o < 0, 'le': o <= 0, 'gt': o > 0, 'ge': o >= 0}[op]


@model(r'Ordering::(reverse|then|then_with|is_eq|is_ne|is_lt|is_gt|is_le|is_ge)$')
def _(e, c, a):
    o = un(a[0]).variant - 1; k = c.rstrip().split('::')[-1]
    if k == 'reverse': return Enum('Ordering', -o + 1)
    if k == 'then': return a[0] if o != 0 else a[1]
    if k == 'then_with': return a[0] if o != 0 else e.call_fn_value(a[1], [])
    return {'is_eq': o == 0, 'is_ne': o != 0, 'is_lt': o < 0, 'is_gt': o > 0, 'is_le': o <= 0, 'is_ge': o >= 0}[k]


@model(r'as Fn(Mut|Once)?<.*>>::call(_mut|_once)?$')
def _(e, c, a):
    args = [cell.v for cell in a[1].f]
    return e.call_fn_value(a[0], args)


# Box / Arc / Rc
@model(r'^(std::boxed::)?Box::new$|^(std::boxed::)?Box::pin$|^Box::<.*>::new$')
def _(e, c, a): return Ref(Cell(a[0]), 'Box')


@model(r'^(std::sync::)?Arc::new$|^(std::rc::)?Rc::new$|^Arc::pin$|Arc::from$|<(std::sync::)?Arc<.*> as From<.*>>::from$')
def _(e, c, a): return Ref(Cell(a[0]), 'Arc')


@model(r'^(std::sync::)?Arc::(strong_count|weak_count)$')
def _(e, c, a): raise Unmodelled('Arc reference counts are not tracked')


@model(r'Arc::ptr_eq$|Rc::ptr_eq$')
def _(e, c, a): return un_one(a[0]).cell is un_one(a[1]).cell


def un_one(v):
    while isinstance(v, Ref) and isinstance(v.cell.v, Ref): v = v.cell.v
    if not isinstance(v, Ref): v = Ref(Cell(v))
    return v


@model(r'Arc::try_unwrap$|Rc::try_unwrap$')
def _(e, c, a): return Ok(a[0].cell.v)


@model(r'Arc::get_mut$|Arc::make_mut$')
def _(e, c, a):
    r = un_one(a[0])
    return Some(Ref(r.cell)) if c.rstrip().endswith('get_mut') else Ref(r.cell)


@model(r'Pin::<.*>::new$|Pin::new$|Pin::new_unchecked$|Pin::as_mut$|Pin::get_mut$|Pin::into_inner$|Pin::get_unchecked_mut$|Pin::as_ref$|Pin::get_ref$|Pin::into_ref$')
def _(e, c, a):
    return a[0]


@model(r'NonZero(<.*>)?::new$|NonZero\w+::new$')
def _(e, c, a):
    if is_sym(a[0]): return Some(a[0]) if not e.branch(a[0] == 0) else NONE()
    return Some(a[0]) if a[0] != 0 else NONE()


@model(r'NonZero(<.*>)?::get$|NonZero\w+::get$')
def _(e, c, a): return un(a[0])


@model(r'ManuallyDrop::new$|MaybeUninit::new$|ManuallyDrop::into_inner$|MaybeUninit::assume_init$')
def _(e, c, a): return a[0]


@model(r'^Box::new_uninit$|^Box::<.*>::new_uninit$')
def _(e, c, a):
    arr = Cell(None)
    maybe = Struct('MaybeUninit', [mk_unit(), Struct('ManuallyDrop', [Struct('MaybeDangling', [arr])])])
    return Struct('Box', [Struct('Unique', [Ref(Cell(maybe))])])


@model(r'box_assume_init_into_vec_unsafe$')
def _(e, c, a):
    b = un(a[0]); maybe = b.f[0].v.f[0].v.cell.v
    arr = maybe.f[1].v.f[0].v.f[0].v
    return RVec(list(arr.f))


@model(r'^std::type_name')
def _(e, c, a): return RStr('<type>')


# ---------------------------------------------------------------- either::Either / itertools::Either
@model(r'(?:^|::)Either(<.*>)?::as_ref$|(?:^|::)Either(<.*>)?::as_mut$')
def _(e, c, a):
    v = un(a[0]); return Enum('Either', v.variant, [Ref(v.f[0])])


@model(r'(?:^|::)Either(<.*>)?::(left|right)$')
def _(e, c, a):
    v = un(a[0]) if isinstance(a[0], Ref) else a[0]
    want = 0 if c.rstrip().endswith('left') else 1
    return Some(v.f[0].v) if v.variant == want else NONE()


@model(r'(?:^|::)Either(<.*>)?::(is_left|is_right)$')
def _(e, c, a):
    v = un(a[0]); return v.variant == (0 if c.rstrip().endswith('is_left') else 1)


@model(r'as Ord>::clamp$|^Ord::clamp$')
def _(e, c, a):
    ty = int_ty_of(c)
    if compare(e, a[0], a[1], ty) < 0: return a[1]
    if compare(e, a[0], a[2], ty) > 0: return a[2]
    return a[0]


@model(r'^Option::flatten$')
def _(e, c, a):
    o = opt(a[0]); return un(o.f[0].v) if o.variant == 1 else NONE()


@model(r'^Option::transpose$')
def _(e, c, a):
    o = opt(a[0])
    if o.variant == 0: return Ok(NONE())
    r = res(o.f[0].v)
    return Ok(Some(r.f[0].v)) if r.variant == 0 else Err(r.f[0].v)


@model(r'^Result::transpose$')
def _(e, c, a):
    r = res(a[0])
    if r.variant == 1: return Some(Err(r.f[0].v))
    o = opt(r.f[0].v)
    return Some(Ok(o.f[0].v)) if o.variant == 1 else NONE()


# ---------------------------------------------------------------- single-threaded interior mutability (borrow flags are not tracked:
# a double borrow_mut, which panics natively, is outside the models - none occurs in the crate)
@model(r'^(std::cell::)?(RefCell|Cell)::new$')
def _(e, c, a): return Struct('RefCell' if 'RefCell' in c else 'Cell', [a[0]])


@model(r'^(std::cell::)?RefCell::(borrow|borrow_mut|get_mut)$')
def _(e, c, a): return Ref(un(a[0]).f[0])


@model(r'^(std::cell::)?Cell::get$')
def _(e, c, a): return un(a[0]).f[0].v


@model(r'^(std::cell::)?Cell::(set)$')
def _(e, c, a):
    un(a[0]).f[0].v = a[1]; return mk_unit()


@model(r'^(std::cell::)?(RefCell|Cell)::into_inner$')
def _(e, c, a): return un(a[0]).f[0].v
