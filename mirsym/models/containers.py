"""Models: Vec / slices / arrays / VecDeque / HashMap / HashSet / BTreeMap."""
import re
import z3
from ..values import *
from ..engine import model, strip_generics
from .core import compare, generic_args, opt

VEC = r'(?:^|::)Vec(?:Deque)?::'
SLICE = r'slice::<impl \[.*\]>::'


def idx(e, i, n):
    return e.concretize_index(i, n + 1) if is_sym(i) else int(i)


def note_alloc(e, n, what):
    """record an allocation request (C16 monitors look at these)"""
    e.events.append(('alloc', what, n))


@model(r'(?:^|::)Vec::new$|VecDeque::new$|<(std::vec::)?Vec<.*> as Default>::default$|^Vec::<.*>::new$')
def _(e, c, a): return RVec([], 'VecDeque' if 'VecDeque' in strip_generics(c) else 'Vec')


@model(r'(?:^|::)Vec::with_capacity$|VecDeque::with_capacity$|BytesMut::with_capacity$|String::with_capacity$')
def _(e, c, a):
    sc = strip_generics(c).strip()
    note_alloc(e, a[0], sc)
    if sc.endswith('String::with_capacity'): return RStr('')
    return RVec([], 'VecDeque' if 'VecDeque' in sc else ('Bytes' if 'BytesMut' in sc else 'Vec'))


@model(VEC + r'reserve(_exact)?$|BytesMut::reserve$|String::reserve$')
def _(e, c, a):
    note_alloc(e, a[1], strip_generics(c).strip()); return mk_unit()


@model(VEC + r'(len)$|' + SLICE + r'len$|BytesMut::len$|Bytes::len$|^<\[.*\]>::len$')
def _(e, c, a): return len(deref_vec(a[0]).cells)


@model(VEC + r'is_empty$|' + SLICE + r'is_empty$|BytesMut::is_empty$|Bytes::is_empty$')
def _(e, c, a): return len(deref_vec(a[0]).cells) == 0


@model(VEC + r'capacity$')
def _(e, c, a): return len(deref_vec(a[0]).cells)


@model(VEC + r'push$|VecDeque::push_back$')
def _(e, c, a): deref_vec(a[0]).cells.append(Cell(a[1])); return mk_unit()


@model(r'VecDeque::push_front$')
def _(e, c, a): deref_vec(a[0]).cells.insert(0, Cell(a[1])); return mk_unit()


@model(VEC + r'pop$|VecDeque::pop_back$')
def _(e, c, a):
    v = deref_vec(a[0]); return Some(v.cells.pop().v) if v.cells else NONE()


@model(r'VecDeque::pop_front$')
def _(e, c, a):
    v = deref_vec(a[0]); return Some(v.cells.pop(0).v) if v.cells else NONE()


@model(r'VecDeque::front(_mut)?$')
def _(e, c, a):
    v = deref_vec(a[0]); return Some(Ref(v.cells[0])) if v.cells else NONE()


@model(r'VecDeque::back(_mut)?$')
def _(e, c, a):
    v = deref_vec(a[0]); return Some(Ref(v.cells[-1])) if v.cells else NONE()


@model(VEC + r'insert$')
def _(e, c, a):
    v = deref_vec(a[0]); i = idx(e, a[1], len(v.cells))
    if i > len(v.cells): raise Panic('Vec::insert index out of bounds')
    v.cells.insert(i, Cell(a[2])); return mk_unit()


@model(VEC + r'remove$')
def _(e, c, a):
    v = deref_vec(a[0]); i = idx(e, a[1], len(v.cells))
    if i >= len(v.cells):
        if 'VecDeque' in c: return NONE()
        raise Panic('Vec::remove index out of bounds')
    x = v.cells.pop(i).v
    return Some(x) if 'VecDeque' in c else x


@model(VEC + r'swap_remove$')
def _(e, c, a):
    v = deref_vec(a[0]); i = idx(e, a[1], len(v.cells))
    if i >= len(v.cells): raise Panic('swap_remove index out of bounds')
    x = v.cells[i].v; last = v.cells.pop()
    if i < len(v.cells): v.cells[i] = last
    return x


@model(VEC + r'truncate$')
def _(e, c, a):
    v = deref_vec(a[0]); n = idx(e, a[1], len(v.cells)); del v.cells[n:]; return mk_unit()


@model(VEC + r'clear$|BytesMut::clear$')
def _(e, c, a): deref_vec(a[0]).cells.clear(); return mk_unit()


@model(VEC + r'append$')
def _(e, c, a):
    v = deref_vec(a[0]); s = deref_vec(a[1]); v.cells.extend(s.cells); s.cells = [] if False else s.cells
    del s.cells[:]
    return mk_unit()


@model(VEC + r'extend_from_slice$|BytesMut::extend_from_slice$|BytesMut::put_slice$|<BytesMut as BufMut>::put_slice$|<Vec<u8> as BufMut>::put_slice$')
def _(e, c, a):
    v = deref_vec(a[0]); s = slice_cells(a[1])
    v.cells.extend(Cell(e.clone_value(x.v)) for x in s); return mk_unit()


def slice_cells(v):
    v0 = un(v)
    if isinstance(v0, RStr): return [Cell(b) for b in sval(v0).encode()]
    return deref_vec(v0).cells


@model(VEC + r'retain(_mut)?$')
def _(e, c, a):
    v = deref_vec(a[0]); keep = []
    for cell in list(v.cells):
        if e.branch(e.call_fn_value(a[1], [Ref(cell)])): keep.append(cell)
    v.cells[:] = keep; return mk_unit()


@model(VEC + r'drain$')
def _(e, c, a):
    v = deref_vec(a[0]); lo, hi = range_bounds(e, a[1], len(v.cells))
    if lo > hi or hi > len(v.cells): raise Panic('drain range out of bounds')
    items = [x.v for x in v.cells[lo:hi]]; del v.cells[lo:hi]
    return PyIter(items)


@model(VEC + r'split_off$')
def _(e, c, a):
    v = deref_vec(a[0]); at = idx(e, a[1], len(v.cells))
    if at > len(v.cells): raise Panic('split_off out of bounds')
    tail = v.cells[at:]; del v.cells[at:]
    return RVec(tail)


@model(VEC + r'dedup$')
def _(e, c, a):
    v = deref_vec(a[0]); out = []
    for cell in v.cells:
        if out and e.branch(veq(out[-1].v, cell.v)): continue
        out.append(cell)
    v.cells[:] = out; return mk_unit()


@model(VEC + r'as_slice$|' + VEC + r'as_mut_slice$|' + VEC + r'as_ref$')
def _(e, c, a): return SliceRef(deref_vec(a[0]))


@model(VEC + r'into_boxed_slice$|' + SLICE + r'into_vec$|<\[.*\]>::into_vec$')
def _(e, c, a): return a[0]


@model(VEC + r'from_raw_parts|' + VEC + r'as_(mut_)?ptr$|' + VEC + r'set_len$')
def _(e, c, a): raise Unmodelled('raw Vec operation ' + c)


@model(r'from_elem$')
def _(e, c, a):
    n = a[1]
    note_alloc(e, n, 'vec![x; n]')
    if is_sym(n): raise Unmodelled('vec![x; symbolic n]')
    return RVec([Cell(e.clone_value(a[0])) for _ in range(n)])


@model(r'<(std::vec::)?Vec<.*> as From<.*>>::from$|slice::<impl \[.*\]>::to_vec$|<\[.*\] as ToOwned>::to_owned$|<\[.*\]>::to_vec$|Bytes::to_vec$|<Vec<.*> as From<.*>>::from$')
def _(e, c, a):
    v = un(a[0])
    if isinstance(v, RStr): return RVec([Cell(b) for b in sval(v).encode()])
    dv = deref_vec(v)
    return RVec([Cell(e.clone_value(x.v)) for x in dv.cells], 'Vec', dv.text)


def range_bounds(e, r, n):
    r = un(r)
    if isinstance(r, FnItem) and r.path == 'RangeFull': return 0, n
    if isinstance(r, Struct):
        nm = r.name
        if nm == 'RangeFull': return 0, n
        if nm == 'RangeFrom': return idx(e, r.f[0].v, n), n
        if nm == 'RangeTo': return 0, idx(e, r.f[0].v, n)
        if nm == 'RangeToInclusive': return 0, idx(e, r.f[0].v, n) + 1
        if nm == 'Range': return idx(e, r.f[0].v, n), idx(e, r.f[1].v, n)
        if nm == 'RangeInclusive': return idx(e, r.f[0].v, n), idx(e, r.f[1].v, n) + 1
    raise Unmodelled('range %r' % (r,))


@model(SLICE + r'get(_mut)?$|VecDeque::get(_mut)?$|' + SLICE + r'get_unchecked(_mut)?$|<\[.*\]>::get(_mut)?$')
def m_slice_get(e, c, a):
    v = deref_vec(a[0]); i = a[1]
    iv = un(i)
    if isinstance(iv, Struct) and iv.name.startswith('Range'):
        lo, hi = range_bounds_sym(e, iv, len(v.cells))
        if lo is None: return NONE()
        return Some(SliceRef(RVec(v.cells[lo:hi], 'slice')))
    if is_sym(i):
        n = len(v.cells)
        if not e.branch(z3.ULT(i, n)): return NONE()
        if n > 32 and not c.rstrip().endswith('_mut'):
            r = class_read(e, v.cells, i)
            if r is not None: return Some(r)
        k = e.concretize_index(i, n)
        return Some(Ref(v.cells[k]))
    return Some(Ref(v.cells[i])) if 0 <= i < len(v.cells) else NONE()


def class_read(e, cells, i):
    """read cells[i] for a symbolic in-range index of a large table of concrete values: fork once per distinct value
    (constraint: i lies in one of the index intervals holding that value) instead of once per index"""
    keys = []
    for c_ in cells:
        k = _ckey(c_.v)
        if k is None: return None
        keys.append(k)
    classes = {}
    for idx, k in enumerate(keys): classes.setdefault(k, []).append(idx)
    if len(classes) > 64: return None
    for k, idxs in classes.items():
        runs = []; lo = prev = idxs[0]
        for x in idxs[1:]:
            if x != prev + 1: runs.append((lo, prev)); lo = x
            prev = x
        runs.append((lo, prev))
        cond = zor([zand([z3.UGE(i, a), z3.ULE(i, b)]) if a != b else (i == a) for a, b in runs])
        if e.branch(cond): return Ref(Cell(clone(cells[idxs[0]].v)))
    raise Infeasible()


def _ckey(v):
    if isinstance(v, (bool, int)) : return ('i', v)
    if isinstance(v, Enum):
        ks = [_ckey(c_.v) for c_ in v.f]
        if any(k is None for k in ks): return None
        return ('e', v.name, v.variant, tuple(ks))
    if isinstance(v, RStr) and isinstance(v.s, str): return ('s', v.s)
    return None


def range_bounds_sym(e, r, n):
    """(lo, hi) concrete (forking) or (None, None) if out of bounds"""
    nm = r.name
    def val(x, upto):
        if is_sym(x):
            if not e.branch(z3.ULE(x, upto)): return None
            return e.concretize_index(x, upto + 1)
        return x if x <= upto else None
    if nm == 'RangeFull': return 0, n
    if nm == 'RangeFrom':
        lo = val(r.f[0].v, n); return (lo, n) if lo is not None else (None, None)
    if nm == 'RangeTo':
        hi = val(r.f[0].v, n); return (0, hi) if hi is not None else (None, None)
    if nm == 'Range':
        hi = val(r.f[1].v, n)
        if hi is None: return None, None
        lo = val(r.f[0].v, hi)
        if lo is None: return None, None
        return lo, hi
    if nm == 'RangeInclusive':
        hi = val(r.f[1].v, n - 1) if n > 0 else None
        if hi is None: return None, None
        lo = val(r.f[0].v, hi + 1)
        if lo is None: return None, None
        return lo, hi + 1
    raise Unmodelled('range ' + nm)


@model(r'as Index(Mut)?<.*>>::index(_mut)?$')
def m_index(e, c, a):
    recv = un(a[0]); i = a[1]; iv = un(i)
    if isinstance(recv, RMap):
        j = mfind(e, recv, i)
        if j is None: raise Panic('HashMap index: key not found')
        return Ref(recv.items[j][1])
    if isinstance(recv, RStr):
        s = sval(recv).encode(); lo, hi = range_bounds_sym(e, iv, len(s))
        if lo is None: raise Panic('str index out of range')
        return RStr(s[lo:hi].decode())
    v = deref_vec(recv)
    if isinstance(iv, Struct) and iv.name.startswith('Range'):
        lo, hi = range_bounds_sym(e, iv, len(v.cells))
        if lo is None: raise Panic('slice index out of range')
        return SliceRef(RVec(v.cells[lo:hi], 'slice'))
    n = len(v.cells)
    if is_sym(i):
        if not e.branch(z3.ULT(i, n)): raise Panic('index out of bounds (symbolic)')
        return Ref(v.cells[e.concretize_index(i, n)])
    if not 0 <= i < n: raise Panic('index out of bounds: the len is %d but the index is %d' % (n, i))
    return Ref(v.cells[i])


@model(SLICE + r'first(_mut)?$')
def _(e, c, a):
    v = deref_vec(a[0]); return Some(Ref(v.cells[0])) if v.cells else NONE()


@model(SLICE + r'last(_mut)?$')
def _(e, c, a):
    v = deref_vec(a[0]); return Some(Ref(v.cells[-1])) if v.cells else NONE()


@model(SLICE + r'split_first(_mut)?$')
def _(e, c, a):
    v = deref_vec(a[0])
    return Some(Tuple(Ref(v.cells[0]), SliceRef(RVec(v.cells[1:], 'slice')))) if v.cells else NONE()


@model(SLICE + r'split_last(_mut)?$')
def _(e, c, a):
    v = deref_vec(a[0])
    return Some(Tuple(Ref(v.cells[-1]), SliceRef(RVec(v.cells[:-1], 'slice')))) if v.cells else NONE()


@model(SLICE + r'split_at(_mut)?$')
def _(e, c, a):
    v = deref_vec(a[0]); k = idx(e, a[1], len(v.cells))
    if k > len(v.cells): raise Panic('split_at out of bounds')
    return Tuple(SliceRef(RVec(v.cells[:k], 'slice')), SliceRef(RVec(v.cells[k:], 'slice')))


@model(SLICE + r'contains$|VecDeque::contains$')
def _(e, c, a):
    for x in deref_vec(a[0]).cells:
        if e.branch(veq(x.v, a[1])): return True
    return False


@model(SLICE + r'starts_with$')
def _(e, c, a):
    v = deref_vec(a[0]).cells; p = slice_cells(a[1])
    if len(p) > len(v): return False
    return zand(veq(x.v, y.v) for x, y in zip(v, p))


@model(SLICE + r'ends_with$')
def _(e, c, a):
    v = deref_vec(a[0]).cells; p = slice_cells(a[1])
    if len(p) > len(v): return False
    return zand(veq(x.v, y.v) for x, y in zip(v[len(v) - len(p):], p))


@model(SLICE + r'swap$')
def _(e, c, a):
    v = deref_vec(a[0]).cells; i = idx(e, a[1], len(v)); j = idx(e, a[2], len(v))
    if i >= len(v) or j >= len(v): raise Panic('slice swap out of bounds')
    v[i].v, v[j].v = v[j].v, v[i].v; return mk_unit()


@model(SLICE + r'reverse$')
def _(e, c, a):
    v = deref_vec(a[0]).cells; vals = [x.v for x in v][::-1]
    for x, y in zip(v, vals): x.v = y
    return mk_unit()


@model(SLICE + r'copy_from_slice$|' + SLICE + r'clone_from_slice$')
def _(e, c, a):
    d = deref_vec(a[0]).cells; s = slice_cells(a[1])
    if len(d) != len(s): raise Panic('copy_from_slice: length mismatch')
    for x, y in zip(d, s): x.v = e.clone_value(y.v)
    return mk_unit()


@model(SLICE + r'fill$')
def _(e, c, a):
    for x in deref_vec(a[0]).cells: x.v = e.clone_value(a[1])
    return mk_unit()


@model(SLICE + r'concat$')
def _(e, c, a):
    out = []
    for x in deref_vec(a[0]).cells:
        xv = un(x.v)
        if isinstance(xv, RStr):
            cells = deref_vec(a[0]).cells
            if not all(isinstance(un(y.v), RStr) for y in cells): raise Unmodelled('concat of mixed strings')
            parts = []
            for y in cells: parts.extend(str_parts(un(y.v)))
            return RStr(norm_parts(parts))
        out.extend(Cell(e.clone_value(y.v)) for y in deref_vec(xv).cells)
    return RVec(out)


def _sort_cells(e, cells, less):
    """stable insertion sort; `less(a_cell, b_cell)` may fork"""
    vals = [c.v for c in cells]
    for i in range(1, len(vals)):
        j = i
        while j > 0 and less(vals[j], vals[j - 1]):
            vals[j], vals[j - 1] = vals[j - 1], vals[j]; j -= 1
    for c, v in zip(cells, vals): c.v = v


@model(SLICE + r'sort(_unstable)?$')
def _(e, c, a):
    _sort_cells(e, deref_vec(a[0]).cells, lambda x, y: compare(e, x, y) < 0); return mk_unit()


@model(SLICE + r'sort(_unstable)?_by_key$|' + SLICE + r'sort_by_cached_key$')
def _(e, c, a):
    f = a[1]
    _sort_cells(e, deref_vec(a[0]).cells,
                lambda x, y: compare(e, e.call_fn_value(f, [Ref(Cell(x))]), e.call_fn_value(f, [Ref(Cell(y))])) < 0)
    return mk_unit()


@model(SLICE + r'sort(_unstable)?_by$')
def _(e, c, a):
    f = a[1]
    _sort_cells(e, deref_vec(a[0]).cells,
                lambda x, y: un(e.call_fn_value(f, [Ref(Cell(x)), Ref(Cell(y))])).variant == 0)
    return mk_unit()


@model(SLICE + r'binary_search$')
def _(e, c, a):
    # result on a sorted slice with concrete order decisions: Ok(index of an equal element) | Err(insertion point)
    from .core import compare
    cells = deref_vec(a[0]).cells; key = un(a[1])
    key = key.cell.v if isinstance(key, Ref) else key
    lo = 0
    for i, cl in enumerate(cells):
        o = compare(e, cl.v, key)
        if o == 0: return Ok(i)
        if o < 0: lo = i + 1
        else: break
    return Err(lo)


@model(SLICE + r'binary_search(_by|_by_key)$')
def _(e, c, a): raise Unmodelled(c)


@model(SLICE + r'join$|<\[.*\] as Join<.*>>::join$')
def _(e, c, a):
    parts = []; sep = str_parts(a[1]) if isinstance(un(a[1]), RStr) else None
    items = deref_vec(a[0]).cells
    if sep is None: raise Unmodelled('join of non-strings')
    for i, x in enumerate(items):
        if i: parts.extend(sep)
        parts.extend(str_parts(x.v))
    return mkstr(parts)


# ---------------------------------------------------------------- HashMap / HashSet / BTreeMap
MAP = r'(?:Hash|BTree)Map(?:<.*>)?::'
SET = r'(?:Hash|BTree)Set(?:<.*>)?::'


def mfind(e, m, k):
    for i, (kk, cell) in enumerate(m.items):
        r = veq(kk, k)
        if is_sym(r):
            if e.branch(r): return i
        elif r: return i
    return None


def sfind(e, s, k):
    for i, kk in enumerate(s.items):
        r = veq(kk, k)
        if is_sym(r):
            if e.branch(r): return i
        elif r: return i
    return None


def _rotation(e, obj, n):
    """iteration order of a std HashMap/HashSet is unspecified: when e.map_rotation is set, each map object with
    2..e.map_rotation_max entries gets one nondeterministic cyclic rotation per path (memoised per object)"""
    if not getattr(e, 'map_rotation', False) or n < 2 or n > getattr(e, 'map_rotation_max', 3): return 0
    memo = e.notes.setdefault('rotations', {})
    key = id(obj)
    if key not in memo or memo[key][0] != n:
        memo[key] = (n, e.choose(n, 'map-rotation'), obj)
    return memo[key][1]


def map_order(e, m):
    items = list(m.items)
    if m.kind.startswith('BTree'):
        items.sort(key=lambda kv: _sort_key(kv[0]))
        return items
    k = _rotation(e, m, len(items))
    return items[k:] + items[:k]


def _sort_key(k):
    k = un(k)
    if isinstance(k, RStr): return (0, sval(k).encode())
    if isinstance(k, int): return (1, k)
    if isinstance(k, Struct) and len(k.f) == 1: return _sort_key(k.f[0].v)
    raise Unmodelled('BTreeMap key order for %r' % (k,))


@model(MAP + r'new$|<(std::collections::)?(Hash|BTree)Map<.*> as Default>::default$|' + MAP + r'with_capacity$|HashMap::with_hasher$')
def _(e, c, a): return RMap('BTreeMap' if 'BTreeMap' in c else 'HashMap')


@model(SET + r'new$|<(std::collections::)?(Hash|BTree)Set<.*> as Default>::default$|' + SET + r'with_capacity$')
def _(e, c, a): return RSet('BTreeSet' if 'BTreeSet' in c else 'HashSet')


@model(MAP + r'contains_key$')
def _(e, c, a): return mfind(e, un(a[0]), a[1]) is not None


@model(MAP + r'get(_mut)?$')
def _(e, c, a):
    m = un(a[0]); i = mfind(e, m, a[1]); return Some(Ref(m.items[i][1])) if i is not None else NONE()


@model(MAP + r'get_key_value$')
def _(e, c, a):
    m = un(a[0]); i = mfind(e, m, a[1])
    return Some(Tuple(Ref(Cell(m.items[i][0])), Ref(m.items[i][1]))) if i is not None else NONE()


@model(MAP + r'insert$')
def _(e, c, a):
    m = un(a[0]); i = mfind(e, m, a[1])
    if i is None: m.items.append((a[1], Cell(a[2]))); return NONE()
    old = m.items[i][1].v; m.items[i][1].v = a[2]; return Some(old)


@model(MAP + r'remove$')
def _(e, c, a):
    m = un(a[0]); i = mfind(e, m, a[1])
    if i is None: return NONE()
    return Some(m.items.pop(i)[1].v)


@model(MAP + r'remove_entry$')
def _(e, c, a):
    m = un(a[0]); i = mfind(e, m, a[1])
    if i is None: return NONE()
    k, cell = m.items.pop(i); return Some(Tuple(k, cell.v))


@model(MAP + r'len$|' + SET + r'len$')
def _(e, c, a): return len(un(a[0]).items)


@model(MAP + r'is_empty$|' + SET + r'is_empty$')
def _(e, c, a): return len(un(a[0]).items) == 0


@model(MAP + r'clear$|' + SET + r'clear$')
def _(e, c, a): del un(a[0]).items[:]; return mk_unit()


@model(MAP + r'entry$')
def _(e, c, a): return Struct('MapEntry', [a[0], a[1]])


def _entry_slot(e, ent, mk):
    m = un(ent.f[0].v); k = ent.f[1].v; i = mfind(e, m, k)
    if i is None:
        m.items.append((k, Cell(mk()))); i = len(m.items) - 1
    return m.items[i][1]


@model(r'Entry<.*>::or_insert$|Entry::or_insert$')
def _(e, c, a): return Ref(_entry_slot(e, a[0], lambda: a[1]))


@model(r'Entry<.*>::or_insert_with$|Entry::or_insert_with$')
def _(e, c, a): return Ref(_entry_slot(e, a[0], lambda: e.call_fn_value(a[1], [])))


@model(r'Entry<.*>::or_default$|Entry::or_default$')
def _(e, c, a):
    from ..mir import scan_split
    ga = re.search(r'Entry::<(.*)>::or_default', c, flags=re.S)
    ty = scan_split(ga.group(1))[-1] if ga else ''
    return Ref(_entry_slot(e, a[0], lambda: e.default_value(ty)))


@model(r'Entry<.*>::and_modify$|Entry::and_modify$')
def _(e, c, a):
    m = un(a[0].f[0].v); i = mfind(e, m, a[0].f[1].v)
    if i is not None: e.call_fn_value(a[1], [Ref(m.items[i][1])])
    return a[0]


@model(MAP + r'values(_mut)?$')
def _(e, c, a): return PyIter([Ref(cell) for k, cell in map_order(e, un(a[0]))])


@model(MAP + r'into_values$')
def _(e, c, a): return PyIter([cell.v for k, cell in map_order(e, un(a[0]))])


@model(MAP + r'keys$')
def _(e, c, a): return PyIter([Ref(Cell(k)) for k, cell in map_order(e, un(a[0]))])


@model(MAP + r'into_keys$')
def _(e, c, a): return PyIter([k for k, cell in map_order(e, un(a[0]))])


@model(MAP + r'iter(_mut)?$')
def _(e, c, a): return PyIter([Tuple(Ref(Cell(k)), Ref(cell)) for k, cell in map_order(e, un(a[0]))])


@model(MAP + r'drain$')
def _(e, c, a):
    m = un(a[0]); items = map_order(e, m); del m.items[:]
    return PyIter([Tuple(k, cell.v) for k, cell in items])


@model(MAP + r'retain$')
def _(e, c, a):
    m = un(a[0]); keep = []
    for k, cell in list(m.items):
        if e.branch(e.call_fn_value(a[1], [Ref(Cell(k)), Ref(cell)])): keep.append((k, cell))
    m.items[:] = keep; return mk_unit()


@model(SET + r'contains$')
def _(e, c, a): return sfind(e, un(a[0]), a[1]) is not None


@model(SET + r'insert$')
def _(e, c, a):
    s = un(a[0])
    if sfind(e, s, a[1]) is not None: return False
    s.items.append(a[1]); return True


@model(SET + r'remove$')
def _(e, c, a):
    s = un(a[0]); i = sfind(e, s, a[1])
    if i is None: return False
    s.items.pop(i); return True


@model(SET + r'get$')
def _(e, c, a):
    s = un(a[0]); i = sfind(e, s, a[1])
    return Some(Ref(Cell(s.items[i]))) if i is not None else NONE()


def set_order(e, s):
    items = list(s.items)
    if s.kind.startswith('BTree'):
        items.sort(key=_sort_key); return items
    k = _rotation(e, s, len(items))
    return items[k:] + items[:k]


@model(SET + r'iter$')
def _(e, c, a): return PyIter([Ref(Cell(k)) for k in set_order(e, un(a[0]))])


@model(SET + r'drain$')
def _(e, c, a):
    s = un(a[0]); items = set_order(e, s); del s.items[:]; return PyIter(items)


@model(SET + r'retain$')
def _(e, c, a):
    s = un(a[0]); keep = []
    for k in list(s.items):
        if e.branch(e.call_fn_value(a[1], [Ref(Cell(k))])): keep.append(k)
    s.items[:] = keep; return mk_unit()


@model(SET + r'(difference|intersection|union|symmetric_difference)$')
def _(e, c, a):
    s, t = un(a[0]), un(a[1]); k = strip_generics(c).rstrip().split('::')[-1]
    ins = lambda x, st: sfind(e, st, x) is not None
    if k == 'difference': out = [x for x in set_order(e, s) if not ins(x, t)]
    elif k == 'intersection': out = [x for x in set_order(e, s) if ins(x, t)]
    elif k == 'union': out = list(set_order(e, s)) + [x for x in set_order(e, t) if not ins(x, s)]
    else: out = [x for x in set_order(e, s) if not ins(x, t)] + [x for x in set_order(e, t) if not ins(x, s)]
    return PyIter([Ref(Cell(x)) for x in out])


@model(SET + r'(is_subset|is_superset|is_disjoint)$')
def _(e, c, a):
    s, t = un(a[0]), un(a[1]); k = strip_generics(c).rstrip().split('::')[-1]
    ins = lambda x, st: sfind(e, st, x) is not None
    if k == 'is_subset': return all(ins(x, t) for x in s.items)
    if k == 'is_superset': return all(ins(x, s) for x in t.items)
    return not any(ins(x, t) for x in s.items)


# ---------------------------------------------------------------- dashmap::DashSet (sequential semantics)
@model(r'DashSet(<.*>)?::(new|default)$|<(dashmap::)?DashSet<.*> as Default>::default$')
def _(e, c, a): return RSet('DashSet')


@model(r'DashSet(<.*>)?::insert$')
def _(e, c, a):
    s = un(a[0])
    for k in s.items:
        r = veq(k, a[1])
        if is_sym(r):
            if e.branch(r): return False
        elif r: return False
    s.items.append(a[1]); return True


@model(r'DashSet(<.*>)?::remove$')
def _(e, c, a):
    s = un(a[0])
    for i, k in enumerate(s.items):
        r = veq(k, a[1])
        if (e.branch(r) if is_sym(r) else r):
            s.items.pop(i); return Some(k)
    return NONE()


@model(r'DashSet(<.*>)?::(contains|len|is_empty)$')
def _(e, c, a):
    s = un(a[0]); k = c.rstrip().split('::')[-1]
    if k == 'len': return len(s.items)
    if k == 'is_empty': return not s.items
    return zor([veq(x, a[1]) for x in s.items])
