"""Models: str / String, formatting (format_args!), number <-> text, byte-level integer parsers."""
import re
import z3
from ..values import *
from ..engine import model, strip_generics
from ..mir import INT_W
from .core import generic_args, crate_impl

STR = r'(?:str::<impl str>::|^str::|String::)'
INTS = ('usize', 'u64', 'u32', 'u16', 'u8', 'isize', 'i64', 'i32', 'i16', 'i8', 'u128', 'i128')


def concrete_or_none(v):
    try: return sval(v)
    except Unmodelled: return None


@model(r'<str as ToString>::to_string$|<(std::string::)?String as ToString>::to_string$|<(std::string::)?String as From<&(mut )?str>>::from$|<str as ToOwned>::to_owned$|String::from_str$|<(std::string::)?String as From<&(std::string::)?String>>::from$|<(std::string::)?String as FromStr>::from_str$|<(std::string::)?String as From<(std::borrow::)?Cow<.*>>>::from$|<str as Into<.*String>>::into$|str::<impl str>::to_string$|str::<impl str>::to_owned$|<&str as ToString>::to_string$|<(std::string::)?String as From<char>>::from$')
def _(e, c, a):
    v = un(a[0])
    if isinstance(v, int): return RStr(chr(v))
    if isinstance(v, Enum) and v.name == 'Cow': v = un(v.f[0].v)
    r = RStr(v.s)
    if 'FromStr' in c or c.rstrip().endswith('from_str'): return Ok(r)
    return r


@model(r'String::new$|<(std::string::)?String as Default>::default$')
def _(e, c, a): return RStr('')


@model(r'String::as_str$|String::as_mut_str$|String::borrow$|str::<impl str>::as_ref$|String::as_ref$|str::<impl str>::trim_matches$' if False else r'String::as_str$|String::as_mut_str$')
def _(e, c, a): return un(a[0])


@model(r'String::into_boxed_str$|str::<impl str>::into_string$|str::<impl str>::into_boxed_str$')
def _(e, c, a): return a[0]


@model(r'String::len$|str::<impl str>::len$')
def _(e, c, a):
    parts = str_parts(a[0])
    n = 0
    for p in parts:
        if isinstance(p, str): n += len(p.encode())
        else: raise Unmodelled('len of string with symbolic number')
    return n


@model(r'String::is_empty$|str::<impl str>::is_empty$')
def _(e, c, a):
    parts = norm_parts(str_parts(a[0]))
    return parts == ''


@model(r'String::push_str$|<(std::string::)?String as AddAssign<&str>>::add_assign$')
def _(e, c, a):
    s = un(a[0]); s.s = norm_parts(list(str_parts(s)) + list(str_parts(a[1]))); return mk_unit()


@model(r'String::push$')
def _(e, c, a):
    s = un(a[0]); s.s = norm_parts(list(str_parts(s)) + [chr(a[1])]); return mk_unit()


@model(r'String::clear$')
def _(e, c, a): un(a[0]).s = ''; return mk_unit()


@model(r'String::truncate$')
def _(e, c, a):
    s = un(a[0]); s.s = sval(s).encode()[:a[1]].decode(); return mk_unit()


@model(r'String::pop$')
def _(e, c, a):
    s = un(a[0]); t = sval(s)
    if not t: return NONE()
    s.s = t[:-1]; return Some(ord(t[-1]))


@model(r'String::into_bytes$|str::<impl str>::as_bytes$|String::as_bytes$|str::<impl str>::bytes$|<(std::string::)?String as Into<Vec<u8>>>::into$|<Vec<u8> as From<(std::string::)?String>>::from$|<Vec<u8> as From<&str>>::from$')
def _(e, c, a):
    parts = str_parts(a[0])
    if any(not isinstance(p, str) and is_sym(p.v) for p in parts):
        tv = RVec([], 'strbytes', RStr(un(a[0]).s))
        if c.rstrip().endswith('::bytes'): raise Unmodelled('byte iteration over symbolic number text')
        return SliceRef(tv) if c.rstrip().endswith('as_bytes') else tv
    cells = []
    for p in parts:
        if isinstance(p, str): cells.extend(Cell(b) for b in p.encode())
        else: cells.extend(Cell(b) for b in str(p.v).encode())
    v = RVec(cells, 'bytes')
    if c.rstrip().endswith('::bytes'): return PyIter([x.v for x in cells])
    if c.rstrip().endswith('as_bytes'): return SliceRef(v)
    return RVec(cells)


def bytes_to_str(e, v):
    cells = deref_vec(v).cells
    bs = []
    for x in cells:
        if is_sym(x.v): raise Unmodelled('utf8 of symbolic bytes')
        bs.append(x.v)
    return bytes(bs)


@model(r'String::from_utf8$|^std::from_utf8$|str::from_utf8$')
def _(e, c, a):
    dv = deref_vec(a[0])
    if dv.text is not None: return Ok(RStr(dv.text.s))
    cells = dv.cells
    if any(is_sym(x.v) for x in cells):
        # symbolic bytes: ASCII or not decides validity of single bytes; fork on "all ascii"
        allascii = zand(z3.ULT(bv(x.v, 8), 128) for x in cells)
        if e.branch(allascii):
            return Ok(Opaque('symstr', RVec(cells)))   # opaque text: only usable by byte-level consumers
        return Err(Struct('Utf8Error', []))
    try: return Ok(RStr(bytes(x.v for x in cells).decode('utf-8')))
    except UnicodeDecodeError: return Err(Struct('Utf8Error', []))


@model(r'String::from_utf8_lossy$|str::from_utf8_unchecked$|String::from_utf8_unchecked$')
def _(e, c, a):
    cells = deref_vec(a[0]).cells
    if any(is_sym(x.v) for x in cells): return Enum('Cow', 0, [Opaque('symstr', RVec(cells))]) if 'lossy' in c else Opaque('symstr', RVec(cells))
    s = RStr(bytes(x.v for x in cells).decode('utf-8', 'replace'))
    return Enum('Cow', 0, [s]) if 'lossy' in c else s


@model(r'str::<impl str>::split$|str::<impl str>::rsplit$|str::<impl str>::split_terminator$')
def _(e, c, a):
    sep = un(a[1]); sepc = chr(sep) if isinstance(sep, int) else sval(sep)
    parts = norm_parts(str_parts(a[0]))
    if isinstance(parts, str):
        out = [RStr(x) for x in parts.split(sepc)]
    else:
        # split structured text: separators can only occur in concrete parts (numbers contain none)
        if any(ch.isdigit() for ch in sepc) or sepc == '': raise Unmodelled('split of symbolic text on ' + repr(sepc))
        cur = []; out = []
        for p in parts:
            if isinstance(p, str):
                segs = p.split(sepc)
                cur.append(segs[0])
                for sg in segs[1:]:
                    out.append(mkstr(cur)); cur = [sg]
            else: cur.append(p)
        out.append(mkstr(cur))
    if 'rsplit' in c: out.reverse()
    if 'split_terminator' in c and out and sval(out[-1]) == '': out.pop()
    return PyIter(out)


@model(r'str::<impl str>::splitn$|str::<impl str>::rsplitn$')
def _(e, c, a):
    n = a[1]; sep = un(a[2]); sepc = chr(sep) if isinstance(sep, int) else sval(sep)
    s = sval(a[0])
    if 'rsplitn' in c: out = s.rsplit(sepc, n - 1)[::-1]
    else: out = s.split(sepc, n - 1)
    return PyIter([RStr(x) for x in out])


@model(r'str::<impl str>::split_once$|str::<impl str>::rsplit_once$')
def _(e, c, a):
    sep = un(a[1]); sepc = chr(sep) if isinstance(sep, int) else sval(sep)
    s = sval(a[0])
    if sepc not in s: return NONE()
    x, y = (s.rsplit(sepc, 1) if 'rsplit' in c else s.split(sepc, 1))
    return Some(Tuple(RStr(x), RStr(y)))


@model(r'str::<impl str>::split_whitespace$|str::<impl str>::split_ascii_whitespace$')
def _(e, c, a): return PyIter([RStr(x) for x in sval(a[0]).split()])


@model(r'str::<impl str>::lines$')
def _(e, c, a): return PyIter([RStr(x) for x in sval(a[0]).splitlines()])


@model(r'str::<impl str>::chars$')
def _(e, c, a): return PyIter([ord(ch) for ch in sval(a[0])])


@model(r'str::<impl str>::char_indices$')
def _(e, c, a):
    out = []; off = 0
    for ch in sval(a[0]):
        out.append(Tuple(off, ord(ch))); off += len(ch.encode())
    return PyIter(out)


@model(r'str::<impl str>::trim$|str::<impl str>::trim_start$|str::<impl str>::trim_end$')
def _(e, c, a):
    s = sval(a[0]); k = c.rstrip().split('::')[-1]
    return RStr({'trim': s.strip(), 'trim_start': s.lstrip(), 'trim_end': s.rstrip()}[k])


@model(r'str::<impl str>::trim_matches$|str::<impl str>::trim_start_matches$|str::<impl str>::trim_end_matches$')
def _(e, c, a):
    s = sval(a[0]); p = un(a[1]); pc = chr(p) if isinstance(p, int) else sval(p)
    k = strip_generics(c).rstrip().split('::')[-1]
    if k in ('trim_matches', 'trim_start_matches'):
        while pc and s.startswith(pc): s = s[len(pc):]
    if k in ('trim_matches', 'trim_end_matches'):
        while pc and s.endswith(pc): s = s[:-len(pc)]
    return RStr(s)


@model(r'str::<impl str>::strip_prefix$|str::<impl str>::strip_suffix$')
def _(e, c, a):
    s = sval(a[0]); p = un(a[1]); pc = chr(p) if isinstance(p, int) else sval(p)
    if 'prefix' in c: return Some(RStr(s[len(pc):])) if s.startswith(pc) else NONE()
    return Some(RStr(s[:-len(pc)] if pc else s)) if s.endswith(pc) else NONE()


@model(r'str::<impl str>::starts_with$|str::<impl str>::ends_with$|str::<impl str>::contains$')
def _(e, c, a):
    p = un(a[1])
    if isinstance(p, (Closure, FnItem)): raise Unmodelled('str pattern closure')
    pc = chr(p) if isinstance(p, int) else sval(p)
    parts = norm_parts(str_parts(a[0]))
    k = strip_generics(c).rstrip().split('::')[-1]
    if isinstance(parts, str):
        return {'starts_with': parts.startswith(pc), 'ends_with': parts.endswith(pc), 'contains': pc in parts}[k]
    if not any(ch.isdigit() for ch in pc):
        if k == 'contains': return any(isinstance(q, str) and pc in q for q in parts)
    raise Unmodelled('%s on symbolic text' % k)


@model(r'str::<impl str>::find$|str::<impl str>::rfind$')
def _(e, c, a):
    s = sval(a[0]); p = un(a[1]); pc = chr(p) if isinstance(p, int) else sval(p)
    i = s.rfind(pc) if 'rfind' in c else s.find(pc)
    return Some(len(s[:i].encode())) if i >= 0 else NONE()


@model(r'str::<impl str>::replace$')
def _(e, c, a):
    return RStr(sval(a[0]).replace(chr(un(a[1])) if isinstance(un(a[1]), int) else sval(a[1]), sval(a[2])))


@model(r'str::<impl str>::to_uppercase$|str::<impl str>::to_ascii_uppercase$|str::<impl str>::to_lowercase$|str::<impl str>::to_ascii_lowercase$')
def _(e, c, a):
    parts = str_parts(a[0]); up = 'upper' in c
    return mkstr([(p.upper() if up else p.lower()) if isinstance(p, str) else p for p in parts])


@model(r'str::<impl str>::eq_ignore_ascii_case$')
def _(e, c, a): return sval(a[0]).lower() == sval(a[1]).lower()


@model(r'str::<impl str>::repeat$')
def _(e, c, a): return RStr(sval(a[0]) * a[1])


@model(r'str::<impl str>::get$')
def _(e, c, a):
    from .containers import range_bounds_sym
    s = sval(a[0]).encode(); lo, hi = range_bounds_sym(e, un(a[1]), len(s))
    if lo is None: return NONE()
    try: return Some(RStr(s[lo:hi].decode()))
    except UnicodeDecodeError: return NONE()


@model(r'str::<impl str>::is_char_boundary$')
def _(e, c, a): return True


@model(r'char::methods::<impl char>::(is_ascii_alphanumeric|is_ascii_digit|is_alphanumeric|is_ascii_alphabetic|is_ascii|is_whitespace|is_numeric|is_ascii_uppercase|is_ascii_lowercase|is_ascii_punctuation|is_ascii_graphic|is_ascii_hexdigit|is_ascii_control|is_alphabetic|is_digit)$|num::<impl u8>::(is_ascii_alphanumeric|is_ascii_digit|is_ascii_alphabetic|is_ascii|is_ascii_uppercase|is_ascii_lowercase|is_ascii_whitespace|is_ascii_punctuation|is_ascii_graphic|is_ascii_hexdigit|is_ascii_control)$')
def _(e, c, a):
    k = c.rstrip().split('::')[-1]; x = un(a[0])
    if is_sym(x):
        X = bv(x, x.size()); U = lambda lo, hi: z3.And(z3.UGE(X, lo), z3.ULE(X, hi))
        up, lo_, dg = U(65, 90), U(97, 122), U(48, 57)
        tbl = {'is_ascii_digit': dg, 'is_ascii_alphabetic': z3.Or(up, lo_), 'is_ascii_alphanumeric': z3.Or(up, lo_, dg),
               'is_ascii': z3.ULT(X, 128), 'is_ascii_uppercase': up, 'is_ascii_lowercase': lo_,
               'is_ascii_whitespace': z3.Or(X == 32, X == 9, X == 10, X == 12, X == 13),
               'is_ascii_hexdigit': z3.Or(dg, U(65, 70), U(97, 102)), 'is_ascii_graphic': U(33, 126), 'is_ascii_control': z3.Or(z3.ULT(X, 32), X == 127),
               'is_ascii_punctuation': z3.Or(U(33, 47), U(58, 64), U(91, 96), U(123, 126))}
        if k not in tbl: raise Unmodelled(k + ' on symbolic char')
        return tbl[k]
    ch = chr(x); asc = x < 128
    return {'is_ascii_alphanumeric': asc and ch.isalnum(), 'is_ascii_digit': asc and ch.isdigit(), 'is_alphanumeric': ch.isalnum(),
            'is_ascii_alphabetic': asc and ch.isalpha(), 'is_ascii': asc, 'is_whitespace': ch.isspace(), 'is_numeric': ch.isnumeric(),
            'is_ascii_uppercase': asc and ch.isupper(), 'is_ascii_lowercase': asc and ch.islower(),
            'is_ascii_whitespace': ch in ' \t\n\x0c\r', 'is_ascii_punctuation': asc and (33 <= x <= 47 or 58 <= x <= 64 or 91 <= x <= 96 or 123 <= x <= 126),
            'is_ascii_graphic': 33 <= x <= 126, 'is_ascii_hexdigit': ch in '0123456789abcdefABCDEF', 'is_ascii_control': x < 32 or x == 127,
            'is_alphabetic': ch.isalpha(), 'is_digit': ch.isdigit()}[k]


@model(r'slice::<impl \[u8\]>::(to_ascii_uppercase|to_ascii_lowercase)$')
def _(e, c, a):
    up = 'upper' in c
    def cv(x):
        if is_sym(x): return z3.If(z3.And(z3.UGE(x, 97), z3.ULE(x, 122)), x - 32, x) if up else z3.If(z3.And(z3.UGE(x, 65), z3.ULE(x, 90)), x + 32, x)
        return (x - 32 if 97 <= x <= 122 else x) if up else (x + 32 if 65 <= x <= 90 else x)
    return RVec([Cell(cv(cl.v)) for cl in deref_vec(a[0]).cells])


@model(r'<impl (char|u8)>::(to_ascii_uppercase|to_ascii_lowercase)$')
def _(e, c, a):
    x = un(a[0]); up = 'upper' in c
    if is_sym(x):
        w = x.size()
        if up: return z3.If(z3.And(z3.UGE(x, 97), z3.ULE(x, 122)), x - 32, x)
        return z3.If(z3.And(z3.UGE(x, 65), z3.ULE(x, 90)), x + 32, x)
    if up: return x - 32 if 97 <= x <= 122 else x
    return x + 32 if 65 <= x <= 90 else x


@model(r'ascii::<impl \[u8\]>::eq_ignore_ascii_case$')
def _(e, c, a):
    xs, ys = deref_vec(a[0]).cells, deref_vec(a[1]).cells
    if len(xs) != len(ys): return False
    lo = lambda x: (z3.If(z3.And(z3.UGE(x, 65), z3.ULE(x, 90)), x + 32, x) if is_sym(x) else (x + 32 if 65 <= x <= 90 else x))
    return zand([veq(lo(p.v), lo(q.v)) for p, q in zip(xs, ys)])


@model(r'<impl (char|u8)>::eq_ignore_ascii_case$')
def _(e, c, a):
    lo = lambda x: (z3.If(z3.And(z3.UGE(x, 65), z3.ULE(x, 90)), x + 32, x) if is_sym(x) else (x + 32 if 65 <= x <= 90 else x))
    x, y = lo(un(a[0])), lo(un(a[1]))
    return e.binop('Eq', x, y, 'u8')


@model(r'<impl char>::to_digit$')
def _(e, c, a):
    ch = chr(un(a[0]))
    try: return Some(int(ch, a[1]))
    except ValueError: return NONE()


@model(r'<impl char>::len_utf8$')
def _(e, c, a): return len(chr(un(a[0])).encode())


# ---------------------------------------------------------------- numbers <-> text
def int_to_str(v, ty):
    w = INT_W.get(ty, 64)
    if is_sym(v): return RStr((NumStr(v, w),))
    return RStr(str(v))


@model(r'<(' + '|'.join(INTS) + r') as ToString>::to_string$')
def _(e, c, a):
    m = re.match(r'<(\w+) as', c.strip())
    return int_to_str(un(a[0]), m.group(1))


@model(r'<bool as ToString>::to_string$')
def _(e, c, a): return RStr('true' if un(a[0]) else 'false')


@model(r'<char as ToString>::to_string$')
def _(e, c, a): return RStr(chr(un(a[0])))


@model(r'as ToString>::to_string$')
def _(e, c, a): return e.display(a[0])


def parse_int_text(e, v, ty, radix=10):
    """str::parse::<int> on structured text -> Result"""
    w = INT_W[ty]; signed = ty[0] == 'i'
    parts = norm_parts(str_parts(v))
    err = lambda: Err(Struct('ParseIntError', [Enum('IntErrorKind', 0)]))
    if isinstance(parts, str):
        s = parts
        if radix == 10 and re.fullmatch(r'\+?\d+' if not signed else r'[+-]?\d+', s):
            n = int(s)
            lo, hi = (-(1 << (w - 1)), (1 << (w - 1)) - 1) if signed else (0, (1 << w) - 1)
            return Ok(n) if lo <= n <= hi else err()
        if radix == 16 and re.fullmatch(r'[0-9a-fA-F]+', s):
            n = int(s, 16); return Ok(n) if n < (1 << w) else err()
        return err()
    if len(parts) == 1 and isinstance(parts[0], NumStr):
        p = parts[0]
        if p.w <= w and not signed: return Ok(z3.ZeroExt(w - p.w, p.v) if w > p.w else p.v)
        # narrower target: in range?
        if not signed:
            if e.branch(z3.ULE(p.v, (1 << w) - 1)): return Ok(z3.Extract(w - 1, 0, p.v))
            return err()
        if e.branch(z3.ULE(p.v, (1 << (w - 1)) - 1)):
            return Ok(z3.Extract(w - 1, 0, p.v) if p.w > w else (z3.ZeroExt(w - p.w, p.v) if w > p.w else p.v))
        return err()
    if any(isinstance(p, str) and not p.isdigit() for p in parts): return err()
    raise Unmodelled('parse of mixed symbolic digits %r' % (parts,))


@model(r'str::<impl str>::parse$')
def _(e, c, a):
    ty = (generic_args(c) or '').strip()
    v = un(a[0])
    if isinstance(v, Opaque) and v.what == 'symstr':
        if ty in INTS: return atoi_bytes(e, v.data.cells, ty, std=True)
        raise Unmodelled('parse::<%s> of symbolic text' % ty)
    if ty in INTS: return parse_int_text(e, a[0], ty)
    if ty in ('f64', 'f32'):
        try: return Ok(float(sval(a[0])))
        except ValueError: return Err(Struct('ParseFloatError', []))
    if ty == 'bool':
        s = sval(a[0]); return Ok(s == 'true') if s in ('true', 'false') else Err(Struct('ParseBoolError', []))
    if ty.endswith('String'): return Ok(RStr(un(a[0]).s))
    tn = strip_generics(ty).split('::')[-1]
    fs = e.by_impl.get((tn, 'FromStr', 'from_str'))
    if fs: return e.run_func(fs[0], [a[0]])
    if tn in ('SocketAddr', 'IpAddr', 'Ipv4Addr'):
        s = sval(a[0])
        ok = re.fullmatch(r'\d{1,3}(\.\d{1,3}){3}(:\d{1,5})?', s) is not None
        return Ok(Opaque(tn, s)) if ok else Err(Struct('AddrParseError', []))
    raise Unmodelled('parse::<%s>' % ty)


@model(r'<(' + '|'.join(INTS) + r') as FromStr>::from_str$')
def _(e, c, a):
    m = re.match(r'<(\w+) as', c.strip()); return parse_int_text(e, a[0], m.group(1))


@model(r'<impl (' + '|'.join(INTS) + r')>::from_str_radix$')
def _(e, c, a):
    m = re.search(r'<impl (\w+)>', c); return parse_int_text(e, a[0], m.group(1), a[1])


def atoi_bytes(e, cells, ty, std=False, allow_sign=True):
    """decimal parse of a byte slice (btoi::btoi / atoi::atoi / str::parse on symbolic ASCII): forks on the
    digit structure, value is a bit-vector expression; overflow -> error.  Grammar: [+-]? digit+ ."""
    w = INT_W[ty]; signed = ty[0] == 'i'
    err_empty = lambda: Err(Enum('ParseIntegerErrorKind', 0) if not std else Struct('ParseIntError', [Enum('IntErrorKind', 0)]))
    err_inv = lambda: Err(Enum('ParseIntegerErrorKind', 1) if not std else Struct('ParseIntError', [Enum('IntErrorKind', 1)]))
    err_ovf = lambda: Err(Enum('ParseIntegerErrorKind', 2) if not std else Struct('ParseIntError', [Enum('IntErrorKind', 2)]))
    bs = [c.v for c in cells]
    if not bs: return err_empty()
    neg = False; start = 0
    b0 = bs[0]
    if allow_sign:
        if e.branch(e.binop('Eq', b0, 45, 'u8')):
            if not signed:
                return err_inv() if len(bs) >= 1 else err_empty()
            neg = True; start = 1
        elif e.branch(e.binop('Eq', b0, 43, 'u8')):
            start = 1
    digits = bs[start:]
    if not digits: return err_empty() if not std else err_inv()
    W = w + 8
    acc = z3.BitVecVal(0, W) if any(is_sym(d) for d in digits) else 0
    lim_pos = (1 << (w - 1)) - 1 if signed else (1 << w) - 1
    lim_neg = 1 << (w - 1)
    for d in digits:
        isdig = zand([e.binop('Ge', d, 48, 'u8'), e.binop('Le', d, 57, 'u8')])
        if not e.branch(isdig): return err_inv()
        dv = (z3.ZeroExt(W - 8, bv(d, 8)) - 48) if is_sym(d) or is_sym(acc) else d - 48
        if is_sym(acc) or is_sym(dv):
            acc = bv(acc, W) * 10 + bv(dv, W)
            lim = lim_neg if neg else lim_pos
            if e.branch(z3.UGT(acc, lim)): return err_ovf()
        else:
            acc = acc * 10 + dv
            if acc > (lim_neg if neg else lim_pos): return err_ovf()
    if is_sym(acc):
        r = z3.Extract(w - 1, 0, acc)
        return Ok(-r if neg else r)
    return Ok(-acc if neg else acc)


@model(r'^btoi::btoi$|^btoi$|^atoi::atoi$|^atoi$|btoi::btou$|^btou$')
def _(e, c, a):
    ty = (generic_args(c) or 'i64').split(',')[0].strip()
    dv = deref_vec(a[0])
    if dv.text is not None:
        # bytes that are the canonical decimal text of a (symbolic) unsigned number
        parts = norm_parts(str_parts(dv.text))
        if isinstance(parts, tuple) and len(parts) == 1 and isinstance(parts[0], NumStr) and 'atoi' not in strip_generics(c):
            n = parts[0]; w = INT_W[ty]; signed = ty[0] == 'i'
            lim = (1 << (w - 1)) - 1 if signed else (1 << w) - 1
            v = bv(n.v, n.w)
            if lim < (1 << n.w) - 1:
                if e.branch(z3.UGT(v, lim)): return Err(Enum('ParseIntegerErrorKind', 2))
            return Ok(z3.ZeroExt(w - n.w, v) if w > n.w else (z3.Extract(w - 1, 0, v) if w < n.w else v))
        if isinstance(parts, str): dv = RVec([Cell(b) for b in parts.encode()])
        else: raise Unmodelled('btoi on structured text %r' % (parts,))
    r = atoi_bytes(e, dv.cells, ty, allow_sign=not strip_generics(c).rstrip().endswith('btou'))
    if 'atoi' in strip_generics(c):
        raise Unmodelled('atoi::atoi (prefix semantics) not modelled')
    return r


# ---------------------------------------------------------------- formatting
def parse_fmt_template(tpl, nargs):
    """decode rustc's compact format_args template (bytes) into a list of ('lit', str) / ('arg', index, spec)"""
    out = []; i = 0; nxt = 0
    while i < len(tpl):
        b = tpl[i]; i += 1
        if b == 0: break
        if b < 0x80:
            out.append(('lit', bytes(tpl[i:i + b]).decode('utf-8', 'replace'))); i += b
        elif b == 0x80:
            n = tpl[i] | (tpl[i + 1] << 8); i += 2
            out.append(('lit', bytes(tpl[i:i + n]).decode('utf-8', 'replace'))); i += n
        elif b >= 0xC0:
            spec = {}
            if b & 1: spec['flags'] = tpl[i] | (tpl[i + 1] << 8) | (tpl[i + 2] << 16) | (tpl[i + 3] << 24); i += 4
            if b & 2: spec['width'] = tpl[i] | (tpl[i + 1] << 8); i += 2
            if b & 4: spec['precision'] = tpl[i] | (tpl[i + 1] << 8); i += 2
            if b & 8: idx = tpl[i] | (tpl[i + 1] << 8); i += 2
            else: idx = nxt
            nxt = idx + 1
            out.append(('arg', idx, spec))
        else:
            raise Unmodelled('format template byte 0x%02x' % b)
    return out


@model(r'Argument(<.*>)?::new_\w+$')
def _(e, c, a):
    m = re.search(r'new_(\w+)', c); return Struct('FmtArg', [m.group(1), a[0]])


@model(r'Arguments(<.*>)?::(new|new_v1|new_const|new_v1_formatted)$')
def _(e, c, a):
    tpl = un(a[0])
    args = deref_vec(a[1]).cells if len(a) > 1 else []
    if isinstance(tpl, (RVec, SliceRef)) or (isinstance(tpl, Struct) and tpl.name == '[]'):
        cells = deref_vec(tpl).cells
        if cells and isinstance(un(cells[0].v), RStr):     # old style: pieces
            items = []
            for i, p in enumerate(cells):
                items.append(('lit', sval(p.v)))
                if i < len(args): items.append(('arg', i, {}))
        else:
            items = parse_fmt_template([x.v for x in cells], len(args))
    else: raise Unmodelled('fmt template %r' % (tpl,))
    return Struct('FmtArgs', [items, [x.v for x in args]])


@model(r'Arguments(<.*>)?::from_str(_nonconst)?$')
def _(e, c, a): return Struct('FmtArgs', [[('lit', sval(a[0]))], []])


def render(e, fa):
    fa = un(fa)
    items = fa.f[0].v; args = fa.f[1].v
    parts = []
    for it in items:
        if it[0] == 'lit': parts.append(it[1]); continue
        arg = args[it[1]]
        kind = arg.f[0].v; val = arg.f[1].v
        spec = it[2]
        if kind == 'display':
            s = e.display(val)
            if spec.get('width') or spec.get('precision') is not None:
                t = concrete_or_none(s)
                if t is not None:
                    wd = spec.get('width', 0); uv = un(val); fl = spec.get('flags', 0)
                    fill = chr(fl & 0x1fffff) if fl & 0x1fffff else ' '
                    align = (fl >> 29) & 3
                    zero = (fl >> 24) & 1
                    if isinstance(uv, float) and spec.get('precision') is not None: t = '%.*f' % (spec['precision'], uv)
                    elif spec.get('precision') is not None and isinstance(uv, RStr): t = t[:spec['precision']]
                    isnum = isinstance(uv, (int, float)) and not isinstance(uv, bool)
                    if zero and isnum: t = t.rjust(wd, '0')
                    elif align == 1 or (align == 3 and isnum): t = t.rjust(wd, fill)
                    elif align == 2: t = t.center(wd, fill)
                    else: t = t.ljust(wd, fill)
                    s = RStr(t)
            parts.extend(str_parts(s))
        elif kind == 'debug':
            parts.extend(str_parts(e.debug(val)))
        elif kind in ('lower_hex', 'upper_hex'):
            v = un(val)
            if is_sym(v): raise Unmodelled('hex of symbolic')
            t = '%x' % v if kind == 'lower_hex' else '%X' % v
            if spec.get('width'): t = t.rjust(spec['width'], '0')
            parts.append(t)
        else: parts.append('<%s>' % kind)
    return mkstr(parts)


@model(r'^std::format$|^std::format_inner$')
def _(e, c, a): return render(e, a[0])


@model(r'Formatter(<.*>)?::write_str$|<(std::fmt::)?Formatter<.*> as (std::fmt::)?Write>::write_str$|<(std::string::)?String as (std::fmt::)?Write>::write_str$')
def _(e, c, a):
    tgt = un(a[0])
    if isinstance(tgt, Struct) and tgt.name == 'Formatter': tgt = tgt.f[0].v
    tgt.s = norm_parts(list(str_parts(tgt)) + list(str_parts(a[1]))); return Ok(mk_unit())


@model(r'Formatter(<.*>)?::write_fmt$|<(std::fmt::)?Formatter<.*> as (std::fmt::)?Write>::write_fmt$|<(std::string::)?String as (std::fmt::)?Write>::write_fmt$|^std::write$')
def _(e, c, a):
    tgt = un(a[0])
    if isinstance(tgt, Struct) and tgt.name == 'Formatter': tgt = tgt.f[0].v
    if not isinstance(tgt, RStr): return Ok(mk_unit())
    tgt.s = norm_parts(list(str_parts(tgt)) + list(str_parts(render(e, a[1])))); return Ok(mk_unit())


@model(r'Formatter(<.*>)?::(debug_struct|debug_tuple|debug_list|debug_map|debug_set)\w*$|Formatter(<.*>)?::(pad|write_char|pad_integral)$')
def _(e, c, a):
    tgt = un(a[0])
    if isinstance(tgt, Struct) and tgt.name == 'Formatter' and isinstance(tgt.f[0].v, RStr):
        if c.rstrip().endswith('::pad') or 'write_char' in c:
            x = un(a[1]); tgt.f[0].v.s = norm_parts(list(str_parts(tgt.f[0].v)) + (list(str_parts(x)) if isinstance(x, RStr) else [chr(x)]))
        else:
            tgt.f[0].v.s = norm_parts(list(str_parts(tgt.f[0].v)) + ['<debug>'])
    return Ok(mk_unit())


@model(r'as (std::fmt::)?(Display|Debug)>::fmt$')
def _(e, c, a):
    tgt = un(a[1])
    s = e.display(a[0]) if 'Display' in c else e.debug(a[0])
    if isinstance(tgt, Struct) and tgt.name == 'Formatter' and isinstance(tgt.f[0].v, RStr):
        tgt.f[0].v.s = norm_parts(list(str_parts(tgt.f[0].v)) + list(str_parts(s)))
    return Ok(mk_unit())


@model(r'^std::_print$|^std::_eprint$')
def _(e, c, a): return mk_unit()


@model(r'(?:^|::)pretty_print_bytes$', front=True)
def _(e, c, a):
    # crate helper used only for log / error texts: formatted text is not a subject
    return RStr('<bytes>')
