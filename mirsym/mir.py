"""Reader for `rustc -Zunpretty=mir` text. Functions are indexed first and parsed on first use."""
import re, os

from .values import Unmodelled


def scan_split(s, sep=','):
    """split at top-level `sep`, respecting () [] {} <> and string / char literals"""
    out = []; depth = 0; start = 0; i = 0; n = len(s)
    while i < n:
        ch = s[i]
        if ch == '"':
            i += 1
            while i < n and s[i] != '"':
                if s[i] == '\\': i += 1
                i += 1
        elif ch == "'":
            # char literal 'x' or '\n' (lifetimes like 'a or '_ have no closing quote right after)
            if i + 2 < n and s[i + 1] == '\\':
                j = s.find("'", i + 2)
                if j != -1 and j - i <= 12: i = j
            elif i + 2 < n and s[i + 2] == "'":
                i += 2
        elif ch in '([{': depth += 1
        elif ch in ')]}': depth -= 1
        elif ch == '<': depth += 1
        elif ch == '>':
            if i > 0 and s[i - 1] in '-=': pass
            else: depth -= 1
        elif ch == sep and depth == 0:
            out.append(s[start:i].strip()); start = i + 1
        i += 1
    t = s[start:].strip()
    if t: out.append(t)
    return out


def find_args_open(s):
    """index of the '(' opening the trailing argument list of `callee(args)` (s ends with ')')"""
    depth = 0; last = None; i = 0; n = len(s)
    while i < n:
        ch = s[i]
        if ch == '"':
            i += 1
            while i < n and s[i] != '"':
                if s[i] == '\\': i += 1
                i += 1
        elif ch == "'":
            if i + 2 < n and s[i + 1] == '\\':
                j = s.find("'", i + 2)
                if j != -1 and j - i <= 12: i = j
            elif i + 2 < n and s[i + 2] == "'":
                i += 2
        elif ch == '(':
            if depth == 0: last = i
            depth += 1
        elif ch == ')': depth -= 1
        i += 1
    return last


def top_level_as(s):
    """index of the first ' as ' outside parentheses and angle brackets (types may contain `<T as Trait>`)"""
    dp = da = 0; i = 0; n = len(s)
    while i < n:
        ch = s[i]
        if ch == '(': dp += 1
        elif ch == ')': dp -= 1
        elif ch == '<': da += 1
        elif ch == '>' and s[i - 1] not in '-=': da -= 1
        elif ch == '"': return None
        elif dp == 0 and da == 0 and s.startswith(' as ', i): return i
        i += 1
    return None


def split_assign(t):
    """index of the ' = ' separating destination place and right-hand side: the first one outside parentheses
    (a projected place carries its type in parentheses, and types may contain `Output = ...`)"""
    depth = 0; i = 0; n = len(t)
    while i < n:
        ch = t[i]
        if ch == '(' : depth += 1
        elif ch == ')': depth -= 1
        elif ch == '"': return t.find(' = ') if depth == 0 else None
        elif depth == 0 and t.startswith(' = ', i): return i
        i += 1
    return None


def find_top_colon(s):
    depth = 0; n = len(s); i = 0
    while i < n:
        ch = s[i]
        if ch in '([{<': depth += 1
        elif ch in ')]}': depth -= 1
        elif ch == '>':
            if not (i > 0 and s[i - 1] in '-='): depth -= 1
        elif ch == ':' and depth == 0:
            if s[i:i + 2] == '::': i += 2; continue
            return i
        i += 1
    return None


def strip_generics(s):
    """remove ::<...> turbofish argument lists (but keep `::<impl ...>` path segments)"""
    out = []; depth = 0; i = 0; n = len(s)
    while i < n:
        if depth == 0 and s.startswith('::<', i) and not s.startswith('::<impl ', i):
            depth = 1; i += 3; continue
        if depth > 0:
            ch = s[i]
            if ch == '<': depth += 1
            elif ch == '>' and s[i - 1] not in '-=': depth -= 1
            i += 1; continue
        out.append(s[i]); i += 1
    return ''.join(out)


INT_W = {'usize': 64, 'u64': 64, 'i64': 64, 'isize': 64, 'u32': 32, 'i32': 32, 'u16': 16, 'i16': 16,
         'u8': 8, 'i8': 8, 'u128': 128, 'i128': 128, 'char': 32, 'bool': 1}


def int_info(ty):
    """(width, signed) of an integer-like type string, or None"""
    ty = ty.strip()
    if ty in INT_W: return INT_W[ty], ty[0] == 'i' and ty != 'isize' or ty == 'isize'
    return None


_place_cache = {}


def parse_place(s):
    s = s.strip()
    if s.startswith('(fake) '): s = s[7:].strip()          # `&raw const (fake) (*_n)`: a fake borrow reads nothing
    r = _place_cache.get(s)
    if r is None:
        r = _parse_place(s); _place_cache[s] = r
    return r


def _parse_place(s):
    if re.fullmatch(r'_\d+', s): return ('local', s)
    if s.startswith('(') and s.endswith(')') and _balanced_outer(s):
        inner = s[1:-1].strip()
        if inner.startswith('*'): return ('deref', parse_place(inner[1:]))
        idx = find_top_colon(inner)
        if idx is not None:
            left = inner[:idx]; ty = inner[idx + 1:].strip()
            k = left.rfind('.')
            return ('field', parse_place(left[:k]), int(left[k + 1:]), ty)
        m = re.match(r'(.*) as (\w+)$', inner, flags=re.S)
        if m: return ('downcast', parse_place(m.group(1)), m.group(2))
        m = re.match(r'(.*) as variant#(\d+)$', inner, flags=re.S)
        if m: return ('downcast', parse_place(m.group(1)), int(m.group(2)))
        return parse_place(inner)
    if s.startswith('*'): return ('deref', parse_place(s[1:]))
    m = re.match(r'(.*)\[(_\d+)\]$', s, flags=re.S)
    if m: return ('index', parse_place(m.group(1)), m.group(2))
    m = re.match(r'(.*)\[(\d+) of (\d+)\]$', s, flags=re.S)
    if m: return ('cindex', parse_place(m.group(1)), int(m.group(2)), False)
    m = re.match(r'(.*)\[-(\d+) of (\d+)\]$', s, flags=re.S)
    if m: return ('cindex', parse_place(m.group(1)), int(m.group(2)), True)
    m = re.match(r'(.*)\[(\d+):(-?\d*)\]$', s, flags=re.S)
    if m: return ('subslice', parse_place(m.group(1)), int(m.group(2)), m.group(3))
    m = re.match(r'(.*)\.(\d+)$', s, flags=re.S)
    if m: return ('field', parse_place(m.group(1)), int(m.group(2)), None)
    raise Unmodelled('place syntax: ' + s)


def _balanced_outer(s):
    depth = 0
    for i, ch in enumerate(s):
        if ch == '(': depth += 1
        elif ch == ')':
            depth -= 1
            if depth == 0 and i != len(s) - 1: return False
    return True


BINOPS = {'Add', 'Sub', 'Mul', 'Div', 'Rem', 'BitAnd', 'BitOr', 'BitXor', 'Shl', 'Shr', 'Eq', 'Ne', 'Lt', 'Le',
          'Gt', 'Ge', 'AddWithOverflow', 'SubWithOverflow', 'MulWithOverflow', 'AddUnchecked', 'SubUnchecked',
          'MulUnchecked', 'ShlUnchecked', 'ShrUnchecked', 'Cmp', 'Offset'}
UNOPS = {'Not', 'Neg', 'PtrMetadata'}


def parse_operand(s):
    s = s.strip()
    if s.startswith('no_retag '): s = s[9:].strip()
    if s.startswith('copy '): return ('copy', parse_place(s[5:]))
    if s.startswith('move '): return ('move', parse_place(s[5:]))
    if s.startswith('const '): return ('const', s[6:].strip())
    # bare function item / path
    return ('const', s)


def parse_rvalue(s):
    s = s.strip()
    if s.startswith('no_retag '): s = s[9:].strip()
    m = re.match(r'(\w+)\((.*)\)$', s, flags=re.S)
    if m:
        op = m.group(1)
        if op in BINOPS:
            a, b = scan_split(m.group(2))
            return ('binop', op, parse_operand(a), parse_operand(b))
        if op in UNOPS: return ('unop', op, parse_operand(m.group(2)))
        if op == 'discriminant': return ('discr', parse_place(m.group(2)))
        if op == 'Len': return ('len', parse_place(m.group(2)))
        if op == 'CopyForDeref': return ('use', ('copy', parse_place(m.group(2))))
        if op == 'ShallowInitBox':
            a = scan_split(m.group(2))
            return ('use', parse_operand(a[0]))
        if op in ('SizeOf', 'AlignOf'): return ('sizeof', m.group(2))
    if s.startswith('&'):
        body = re.sub(r'^&(mut |raw const |raw mut |fake shallow |fake )?', '', s)
        return ('ref', parse_place(body), s.startswith('&mut') or s.startswith('&raw mut'))
    if s.startswith(('copy ', 'move ', 'const ')):
        # cast?  "<operand> as <ty> (<Kind>...)"
        m = re.match(r'(.*) as (.+?) \((\w+)[^()]*(\([^()]*\))?[^()]*\)$', s, flags=re.S)
        if m and not s.startswith('const "'):
            k = top_level_as(s)
            if k is not None and k != len(m.group(1)):
                m2 = re.match(r'(.+?) \((\w+)[^()]*(\([^()]*\))?[^()]*\)$', s[k + 4:], flags=re.S)
                if m2: return ('cast', parse_operand(s[:k]), m2.group(1).strip(), m2.group(2))
            return ('cast', parse_operand(m.group(1)), m.group(2).strip(), m.group(3))
        return ('use', parse_operand(s))
    if s.startswith('(') and s.endswith(')'):
        return ('tuple', [parse_operand(x) for x in scan_split(s[1:-1])])
    if s.startswith('[') and s.endswith(']'):
        parts = scan_split(s[1:-1], ';')
        if len(parts) == 2 and not scan_split(parts[0])[1:]:
            return ('repeat', parse_operand(parts[0]), parts[1].strip())
        return ('array', [parse_operand(x) for x in scan_split(s[1:-1])])
    m = re.match(r'\{(closure|coroutine|async fn body|async block|async closure)[^}]*?@?([^}]*)\}(?: \{(.*)\})?$', s, flags=re.S)
    if m and s.startswith('{closure@'):
        m2 = re.match(r'\{closure@([^}]*)\}(?: \{(.*)\})?$', s, flags=re.S)
        fields = []
        if m2.group(2):
            fields = [parse_operand(x.split(':', 1)[1]) for x in scan_split(m2.group(2))]
        return ('closure', m2.group(1), fields)
    if s.startswith('{'):
        # coroutine / async body aggregate
        j = _match_brace(s, 0)
        head = s[:j + 1]; rest = s[j + 1:].strip()
        fields = []
        if rest.startswith('{') and rest.endswith('}'):
            fields = [parse_operand(x.split(':', 1)[1]) for x in scan_split(rest[1:-1])]
        elif rest.startswith('(') and rest.endswith(')'):
            fields = [parse_operand(x) for x in scan_split(rest[1:-1])]
        return ('coroutine', head, fields)
    # struct aggregate with named fields
    if s.endswith('}'):
        j = _open_brace_top(s)
        if j is not None:
            name = s[:j].strip(); body = s[j + 1:-1].strip()
            names = []; ops = []
            for x in scan_split(body):
                k = find_top_colon(x)
                names.append(x[:k].strip()); ops.append(parse_operand(x[k + 1:]))
            return ('struct', name, names, ops)
    if s.endswith(')'):
        i = find_args_open(s)
        if i is not None and i > 0:
            return ('ctor', s[:i].strip(), [parse_operand(x) for x in scan_split(s[i + 1:-1])])
    return ('path', s)


def _match_brace(s, i):
    depth = 0
    for j in range(i, len(s)):
        if s[j] == '{': depth += 1
        elif s[j] == '}':
            depth -= 1
            if depth == 0: return j
    return len(s) - 1


def _open_brace_top(s):
    """position of the '{' that opens the trailing field list of `Name { .. }`"""
    depth = 0; adepth = 0
    for i, ch in enumerate(s):
        if ch in '([': depth += 1
        elif ch in ')]': depth -= 1
        elif ch == '<': adepth += 1
        elif ch == '>' and s[i - 1] not in '-=': adepth -= 1
        elif ch == '{' and depth == 0 and adepth == 0 and i > 0 and s[i - 1] == ' ':
            return i
    return None


class Func:
    __slots__ = ('name', 'params', 'ret', 'local_ty', 'blocks', 'text', 'parsed', 'span', 'debug')

    def __init__(self, name, params_text, ret, text):
        self.name = name; self.ret = ret.strip(); self.text = text; self.parsed = False
        self.local_ty = {}; self.blocks = {}; self.params = []; self.debug = {}
        for p in scan_split(params_text):
            m = re.match(r'(_\d+): (.*)$', p, flags=re.S)
            if m:
                self.params.append(m.group(1)); self.local_ty[m.group(1)] = m.group(2).strip()

    def parse(self):
        if self.parsed: return self
        cur = None; raw = {}
        lines = self.text.split('\n')
        i = 0; n = len(lines)
        while i < n:
            s = lines[i].strip(); i += 1
            if cur is None:
                m = re.match(r'let (mut )?(_\d+): (.*);$', s)
                if m: self.local_ty[m.group(2)] = m.group(3).strip(); continue
                m = re.match(r'debug (\S+) => (.*);$', s)
                if m: self.debug[m.group(1)] = m.group(2); continue
                m = re.match(r'(bb\d+)( \(cleanup\))?: \{$', s)
                if m: cur = m.group(1); raw[cur] = []; continue
                continue
            if s == '}': cur = None; continue
            if not s: continue
            # statements may span lines (string constants with newlines): join until it ends with ';'
            while not s.endswith(';') and i < n:
                s += '\n' + lines[i].strip(); i += 1
            raw[cur].append(s)
        for bb, stmts in raw.items():
            out = []
            for s in stmts[:-1]:
                st = parse_stmt(s)
                if st is not None: out.append(st)
            out.append(parse_term(stmts[-1]))
            self.blocks[bb] = out
        self.parsed = True
        self.text = None
        return self


_SKIP = ('StorageLive', 'StorageDead', 'nop', 'FakeRead', 'Retag', 'PlaceMention', 'AscribeUserType',
         'Coverage', 'ConstEvalCounter', 'BackwardIncompatibleDropHint')


def parse_stmt(s):
    if s.startswith(_SKIP): return None
    if s.startswith('assume('): return None
    if s.startswith('Deinit('): return None
    m = re.match(r'discriminant\((.+?)\) = (\d+);$', s, flags=re.S)
    if m: return ('setdiscr', parse_place(m.group(1)), int(m.group(2)))
    k = split_assign(s)
    if k is None or not s.endswith(';'): raise Unmodelled('statement syntax: ' + s)
    return ('assign', parse_place(s[:k]), parse_rvalue(s[k + 3:-1]), s)


def parse_term(t):
    if t == 'return;': return ('return',)
    if t in ('unreachable;',): return ('unreachable',)
    if t.startswith('resume') or t.startswith('unwind resume') or t.startswith('unwind terminate') or t.startswith('abort'):
        return ('resume',)
    m = re.match(r'goto -> (bb\d+);$', t)
    if m: return ('goto', m.group(1))
    m = re.match(r'switchInt\((.+?)\) -> \[(.+)\];$', t, flags=re.S)
    if m:
        targets = []; otherwise = None
        for tg in scan_split(m.group(2)):
            k, dst = [x.strip() for x in tg.rsplit(':', 1)]
            if k == 'otherwise': otherwise = dst
            else: targets.append((int(k), dst))
        return ('switch', parse_operand(m.group(1)), targets, otherwise)
    m = re.match(r'assert\((!?)(.+?), (".*?"|[A-Z]\w*\(.*?\)).*\) -> (?:\[success: (bb\d+),.*\]|(bb\d+));$', t, flags=re.S)
    if m:
        return ('assert', m.group(1) == '!', parse_operand(m.group(2)), m.group(3), m.group(4) or m.group(5))
    m = re.match(r'drop\((.+?)\) -> (?:\[return: (bb\d+).*\]|(bb\d+));$', t, flags=re.S)
    if m: return ('drop', parse_place(m.group(1)), m.group(2) or m.group(3))
    m = re.match(r'falseEdge -> \[real: (bb\d+),', t)
    if m: return ('goto', m.group(1))
    m = re.match(r'falseUnwind -> \[real: (bb\d+),', t)
    if m: return ('goto', m.group(1))
    # calls:  DEST = CALLEE(ARGS) -> [return: bbN, unwind ...];   or diverging:  DEST = CALLEE(ARGS) -> unwind continue;
    k = split_assign(t)
    m = re.match(r'(.+\)) -> (?:\[return: (bb\d+),.*\]|(bb\d+)|unwind.*|\[unwind.*\]);$', t[k + 3:], flags=re.S) if k is not None else None
    if m:
        callexpr = m.group(1); i = find_args_open(callexpr)
        callee = callexpr[:i].strip()
        args = [parse_operand(a) for a in scan_split(callexpr[i + 1:-1])]
        return ('call', parse_place(t[:k]), callee, args, m.group(2) or m.group(3))
    raise Unmodelled('terminator syntax: ' + t)


class Mir:
    """index over a MIR dump"""

    def __init__(self, path):
        self.path = path
        txt = open(path, errors='replace').read()
        self.funcs = {}      # name -> Func (first definition wins)
        self.consts = {}     # last path segment / full name -> ('int', value, ty) | ('str', s) | ('body', Func)
        self.promoted = {}   # 'fn name::promoted[k]' -> Func
        self.all_funcs = []
        self.nbytes = len(txt)
        pos = [m.start() for m in re.finditer(r'^(?:fn |const |static )', txt, flags=re.M)]
        pos.append(len(txt))
        for a, b in zip(pos, pos[1:]):
            chunk = txt[a:b]
            if chunk.startswith('fn '):
                hdr_end = chunk.find('{\n')
                m = re.match(r'fn (.*?)\((.*)\) -> (.*?)(?: yields .*?)? $', chunk[:hdr_end], flags=re.S)
                if not m: continue
                f = Func(m.group(1), m.group(2), m.group(3), chunk)
                self.all_funcs.append(f)
                self.funcs.setdefault(f.name, f)
            else:
                line_end = chunk.find('\n')
                first = chunk[:line_end] if line_end != -1 else chunk
                m = re.match(r'(?:const|static)(?: mut)? (.*) = (.*)$', first, flags=re.S)
                if not m: continue
                k = find_top_colon(m.group(1))
                if k is None: continue
                name, ty, rhs = m.group(1)[:k].strip(), m.group(1)[k + 1:].strip(), m.group(2).strip()
                if rhs == '{':
                    f = Func(name, '', ty, chunk)
                    if 'promoted[' in name: self.promoted[name] = f
                    else:
                        self.consts.setdefault(name, ('body', f))
                        self.consts.setdefault(name.split('::')[-1], ('body', f))
                else:
                    rhs = rhs.rstrip(';')
                    if rhs.startswith('const '): rhs = rhs[6:]
                    self.consts.setdefault(name, ('lit', rhs, ty))
                    self.consts.setdefault(name.split('::')[-1], ('lit', rhs, ty))
        del txt
