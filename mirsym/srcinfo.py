"""Facts the MIR text does not carry, read from the same source tree the dump was made from:
struct field names (declaration order), enum variant names (declaration order), impl headers."""
import os, re
from .mir import scan_split


def _strip_comments(txt):
    txt = re.sub(r'//[^\n]*', '', txt)
    txt = re.sub(r'/\*.*?\*/', '', txt, flags=re.S)
    return txt


def _body_at(txt, i):
    depth = 1; j = i
    while depth and j < len(txt):
        if txt[j] == '{': depth += 1
        elif txt[j] == '}': depth -= 1
        j += 1
    return txt[i:j - 1]


class SrcInfo:
    def __init__(self, root):
        self.root = root
        self.structs = {}    # name -> [field names]
        self.enums = {}      # name -> [variant names]
        self.enum_discr = {} # name -> {variant: explicit discriminant}
        self.lines = {}      # rel path -> lines
        self.aliases = {}    # type alias -> base type name
        self.alias_full = {} # type alias -> full right-hand side text (non-generic aliases only)
        for dp, dn, fn in os.walk(os.path.join(root, 'src')):
            for f in fn:
                if not f.endswith('.rs'): continue
                p = os.path.join(dp, f)
                raw = open(p, errors='replace').read()
                self.lines[os.path.relpath(p, root)] = raw.split('\n')
                txt = _strip_comments(raw)
                for m in re.finditer(r'\bstruct (\w+)', txt):
                    i = m.end()
                    while i < len(txt) and txt[i].isspace(): i += 1
                    if i < len(txt) and txt[i] == '<':
                        depth = 0
                        while i < len(txt):
                            if txt[i] == '<': depth += 1
                            elif txt[i] == '>' and txt[i - 1] != '-':
                                depth -= 1
                                if depth == 0: i += 1; break
                            i += 1
                    j = i
                    while j < len(txt) and txt[j] not in '{(;': j += 1
                    if j >= len(txt) or txt[j] != '{': continue
                    if '=' in txt[i:j] and 'where' not in txt[i:j]: continue
                    body = _body_at(txt, j + 1)
                    body = re.sub(r'#\[[^\]]*\]', '', body)
                    names = []
                    for part in scan_split(body):
                        fm = re.match(r'\s*(?:pub(?:\([^)]*\))?\s+)?(\w+)\s*:', part)
                        if fm: names.append(fm.group(1))
                    self.structs.setdefault(m.group(1), names)
                for m in re.finditer(r'\btype (\w+)(?:<[^>=]*>)?\s*=\s*([\w:]+)', txt):
                    self.aliases.setdefault(m.group(1), m.group(2).split('::')[-1])
                for m in re.finditer(r'\btype (\w+)\s*=\s*([^;]+);', txt):
                    self.alias_full.setdefault(m.group(1), m.group(2).strip())
                for m in re.finditer(r'\benum (\w+)(?:<[^>{]*>)?\s*\{', txt):
                    body = _body_at(txt, m.end())
                    body = re.sub(r'#\[[^\]]*\]', '', body)
                    vs = []; dis = {}
                    for part in scan_split(body):
                        vm = re.match(r'\s*(\w+)\s*(?:=\s*(-?\d+))?', part)
                        if vm:
                            vs.append(vm.group(1))
                            if vm.group(2) is not None: dis[vm.group(1)] = int(vm.group(2))
                    self.enums.setdefault(m.group(1), vs)
                    if dis: self.enum_discr[m.group(1)] = dis

    def impl_header(self, rel, line, col=None):
        """(self type last segment, trait last segment or None, trait generic text) of the impl starting at rel:line"""
        lines = self.lines.get(rel)
        if not lines or line - 1 >= len(lines): return None
        first = lines[line - 1]
        if col is not None:
            at = first[col - 1:]
            if not (at.startswith('impl') or at.startswith('unsafe impl')): return None
            hdr = ' '.join([at] + lines[line:line + 40])
        else:
            hdr = ' '.join(lines[line - 1:line + 40])
        hdr = hdr[hdr.find('impl'):]
        hdr = hdr[:hdr.find('{') + 1] if '{' in hdr else hdr
        m = re.match(r'impl\s*(<(?:[^<>]|<(?:[^<>]|<[^<>]*>)*>)*>)?\s*(.*?)\s*(?:\bwhere\b.*)?\{', hdr)
        if not m: return None
        body = m.group(2)
        trait = None; targs = ''
        parts = re.split(r'\s+for\s+', body, maxsplit=1)
        if len(parts) == 2:
            t = parts[0].strip().lstrip('!')
            tm = re.match(r'([\w:]+)\s*(<.*>)?$', t)
            if tm: trait = tm.group(1).split('::')[-1]; targs = tm.group(2) or ''
            ty = parts[1].strip()
        else:
            ty = body.strip()
        ty = re.sub(r'^&\s*(?:\'\w+\s+)?(?:mut\s+)?', '', ty)
        tm = re.match(r'([\w:]+)', ty)
        tyname = tm.group(1).split('::')[-1] if tm else ty
        seen = 0
        while tyname in self.aliases and seen < 5:
            tyname = self.aliases[tyname]; seen += 1
        # blanket impl over a generic parameter: impl<T> Trait for T
        gens = m.group(1) or ''
        if re.search(r'[<,\s]%s\s*[:,>]' % re.escape(tyname), gens) and re.fullmatch(r'[A-Z]\w{0,2}', tyname):
            tyname = '*'
        return tyname, trait, targs, self.expand_aliases(ty)

    def expand_aliases(self, ty):
        for _ in range(4):
            new = re.sub(r'\b(\w+)\b', lambda m: self.alias_full.get(m.group(1), m.group(1)), ty)
            if new == ty: break
            ty = new
        return ty

    def field_index(self, struct, field):
        return self.structs[struct].index(field)

    def variant_index(self, enum, variant):
        return self.enums[enum].index(variant)
