"""MIR symbolic executor: runs the crate's own functions from the MIR dump; forks on symbolic branches
(depth-first by re-execution), feasibility and oracle queries go to z3."""
import re, time, collections, sys, os
import z3

from .values import *
from .mir import (Mir, Func, strip_generics, int_info, parse_place, scan_split, INT_W)
from .srcinfo import SrcInfo

STD_ENUMS = {
    'Option': ['None', 'Some'], 'Result': ['Ok', 'Err'], 'ControlFlow': ['Continue', 'Break'],
    'Poll': ['Ready', 'Pending'], 'Cow': ['Borrowed', 'Owned'], 'Either': ['Left', 'Right'],
    'Bound': ['Included', 'Excluded', 'Unbounded'], 'Entry': ['Occupied', 'Vacant'],
}
CMP_ORDERING = ['Less', 'Equal', 'Greater']          # discriminants -1, 0, 1
ATOMIC_ORDERING = ['Relaxed', 'Release', 'Acquire', 'AcqRel', 'SeqCst']

MODELS = []          # (compiled regex, fn, name)
FRONT_MODELS = []    # models that deliberately take precedence over crate functions (logging, formatting helpers)
# constants of external crates the dump only names: last path segment -> (pattern the path must match, value)
EXTERNAL_CONSTS = {'MAGICNUMBER': (r'zstd', 0xFD2FB528), 'CLEVEL_DEFAULT': (r'zstd', 3)}


def model(pat, front=False):
    def deco(fn):
        ent = (re.compile(pat), fn, fn.__name__ if fn.__name__ != '_' else pat)
        if front: MODELS.insert(0, ent); FRONT_MODELS.append(ent)
        else: MODELS.append(ent)
        return fn
    return deco


class Path:
    __slots__ = ('kind', 'value', 'pc', 'events', 'decisions', 'msg', 'where', 'notes')
    def __init__(self, kind, value, pc, events, decisions, msg=None, where=None, notes=None):
        self.kind = kind; self.value = value; self.pc = pc; self.events = events
        self.decisions = decisions; self.msg = msg; self.where = where; self.notes = notes or {}


class Engine:
    def __init__(self, mir, src, log=None):
        self.mir = mir; self.src = src
        self.solver_timeout_ms = int(os.environ.get('VERIF_SOLVER_TIMEOUT_MS', '60000'))
        self.solver = z3.Solver()
        self.solver.set('timeout', self.solver_timeout_ms)
        self.stats = collections.Counter()
        self.decisions = []; self.pos = 0; self.pc = []; self.pending = []
        self.events = []; self.notes = {}
        self.depth = 0; self.steps = 0
        self.max_steps = 3_000_000; self.max_depth = 400
        self.funcs_run = collections.Counter()    # crate functions interpreted (for evidence)
        self.models_used = collections.Counter()
        self.callee_cache = {}
        self.generic_env = {}                     # generic parameter name -> concrete type name (set by harness)
        self.type_mocks = {}                      # type name -> python object for static trait calls
        self.fresh_ctr = 0
        self.solver_s = 0.0
        self.const_cache = {}
        self.call_stack = []
        self.log = log
        self.summary_mode = None
        self.fn_stubs = []                        # (compiled regex on the crate function name, fn(engine, args), label)
        from .models import iters as _it
        _it._ENGINE[0] = self
        self._index()

    # ------------------------------------------------------------------ indexing
    def _index(self):
        self.by_impl = collections.defaultdict(list)   # (Type, Trait|None, method) -> [Func]
        self.by_last = collections.defaultdict(list)
        self.closure_by_span = {}
        self.impl_of = {}                              # func name -> (Type, Trait)
        hdr_cache = {}
        for f in self.mir.all_funcs:
            n = f.name
            last = n.split('::')[-1]
            if not last.startswith('{closure'):
                if self.mir.funcs.get(n) is not f: continue
            self.by_last[last].append(f)
            if last.startswith('{closure#') or last.startswith('{closure'):
                if f.params:
                    m = re.search(r'\{closure@([^}]*)\}', f.local_ty[f.params[0]])
                    if m: self.closure_by_span.setdefault(m.group(1), f)
                    else:
                        m = re.search(r'\{(async (?:fn body|block|closure)[^}]*|coroutine@[^}]*)\}', f.local_ty[f.params[0]])
                        if m: self.closure_by_span.setdefault(m.group(1), f)
                continue
            m = re.search(r'<impl at (src/[\w/]+\.rs):(\d+):(\d+): \d+:\d+>::(\w+)$', n)
            if m:
                key = (m.group(1), int(m.group(2)), int(m.group(3)))
                if key not in hdr_cache: hdr_cache[key] = self.src.impl_header(*key)
                h = hdr_cache[key]
                if h:
                    ty, trait, targs, selfty = h
                    self.by_impl[(ty, trait, m.group(4))].append(f)
                    self.impl_of[n] = (ty, trait, targs, selfty)
        self.derived = set()
        for n, f in self.mir.funcs.items():
            m = re.search(r'<impl at (src/[\w/]+\.rs):(\d+):(\d+): \d+:\d+>::(\w+)$', n)
            if not m or n in self.impl_of: continue
            lines = self.src.lines.get(m.group(1)); ln = int(m.group(2)); col = int(m.group(3))
            if not lines or ln - 1 >= len(lines): continue
            line = lines[ln - 1]
            tm = re.match(r'(\w+)', line[col - 1:])
            if not tm or '#[derive' not in ''.join(lines[max(0, ln - 4):ln]) and 'derive' not in line: continue
            ty = None
            for k in range(ln - 1, min(ln + 12, len(lines))):
                sm = re.search(r'\b(?:struct|enum)\s+(\w+)', lines[k])
                if sm: ty = sm.group(1); break
            if ty is None: continue
            self.by_impl[(ty, tm.group(1), m.group(4))].append(f)
            self.impl_of[n] = (ty, tm.group(1), '', ty)
            self.derived.add(n)
        self.drop_types = set(ty for (ty, trait, meth) in self.by_impl if trait == 'Drop' and meth == 'drop')

    def find_fn(self, ty, method, trait=None):
        """crate function by (self type, method[, trait])"""
        c = self.by_impl.get((ty, trait, method))
        if not c and trait is None:
            c = [f for (t, tr, m), fs in self.by_impl.items() if t == ty and m == method for f in fs]
        if not c: raise KeyError('no function %s::%s (trait %s) in the MIR dump' % (ty, method, trait))
        if len(c) > 1: raise KeyError('ambiguous function %s::%s: %s' % (ty, method, [f.name for f in c]))
        return c[0]

    def find_free_fn(self, path):
        c = [f for n, f in self.mir.funcs.items() if n == path or n.endswith('::' + path) or path.endswith('::' + n)]
        if len(c) != 1: raise KeyError('free function %s: %d candidates' % (path, len(c)))
        return c[0]

    # ------------------------------------------------------------------ symbolic control
    def fresh(self, name, w):
        self.fresh_ctr += 1
        return z3.BitVec('%s' % name, w)

    def fresh_bool(self, name):
        return z3.Bool(name)

    def assume(self, cond):
        if not is_sym(cond):
            if not cond: raise Infeasible()
            return
        self.solver.add(cond); self.pc.append(cond)

    def check_sat(self, *conds):
        t0 = time.time()
        self.solver.push()
        for c in conds: self.solver.add(zbool(c))
        r = self.solver.check()
        self.stats['queries'] += 1
        m = self.solver.model() if r == z3.sat else None
        self.solver.pop()
        self.solver_s += time.time() - t0
        if r == z3.unknown: raise Unmodelled('solver returned unknown: %s' % self.solver.reason_unknown())
        return r == z3.sat, m

    def branch(self, cond):
        """decide a symbolic condition on this path (forks if both sides are feasible)"""
        if not is_sym(cond): return bool(cond)
        cond = z3.simplify(cond)
        if z3.is_true(cond): return True
        if z3.is_false(cond): return False
        if self.pos < len(self.decisions):
            d = self.decisions[self.pos]; self.pos += 1
        else:
            t, _ = self.check_sat(cond)
            f, _ = self.check_sat(z3.Not(cond))
            if t and f:
                self.pending.append(self.decisions[:self.pos] + [False]); d = True
            elif t: d = True
            elif f: d = False
            else: raise Infeasible()
            self.decisions.append(d); self.pos += 1
        c = cond if d else z3.Not(cond)
        self.solver.add(c); self.pc.append(c)
        return d

    def choose(self, n, label='choice'):
        """nondeterministic choice among n alternatives enumerated by forking (shape choice, not solver value)"""
        for k in range(n - 1):
            if self.pos < len(self.decisions):
                d = self.decisions[self.pos]; self.pos += 1
            else:
                self.pending.append(self.decisions[:self.pos] + [False]); d = True
                self.decisions.append(d); self.pos += 1
            if d: return k
        return n - 1

    def concretize_index(self, i, n):
        """fork over the concrete values 0..n-1 of a symbolic index (assumed in range by caller)"""
        if not is_sym(i): return int(i)
        i = z3.simplify(i)
        if z3.is_bv_value(i): return i.as_long()
        for k in range(n):
            if self.branch(i == k): return k
        raise Infeasible()

    def explore(self, run, max_paths=100000, time_limit=None, slim=False):
        """slim: do not keep the path condition / event list of successful paths (beyond the first few, kept as samples) -
        long explorations otherwise hold every formula of every path in memory"""
        self.pending = [[]]; results = []
        t0 = time.time()
        while self.pending:
            if len(results) >= max_paths: raise Budget('path budget %d exceeded' % max_paths)
            if time_limit and time.time() - t0 > time_limit: raise Budget('time limit %ds exceeded after %d paths' % (time_limit, len(results)))
            self.decisions = self.pending.pop(); self.pos = 0; self.pc = []
            self.events = []; self.notes = {}; self.depth = 0; self.steps = 0; self.call_stack = []
            self.solver.reset(); self.solver.set('timeout', self.solver_timeout_ms)
            self.stats['paths'] += 1
            try:
                r = run(self)
                if slim and len(results) >= 4:
                    results.append(Path('ok', r, ['(path condition not kept)'] if self.pc else [], [], list(self.decisions), notes={}))
                else:
                    results.append(Path('ok', r, list(self.pc), self.events, list(self.decisions), notes=self.notes))
            except Panic as p:
                results.append(Path('panic', None, list(self.pc), self.events, list(self.decisions), msg=p.msg, where=p.where or self.where(), notes=self.notes))
            except Infeasible:
                self.stats['infeasible'] += 1
            except Budget as b:
                results.append(Path('budget', None, list(self.pc), self.events, list(self.decisions), msg=str(b), where=getattr(b, 'mir_where', None) or self.where(), notes=self.notes))
        return results

    def sub_explore(self, fn):
        """explore all paths of a read-only computation nested inside the current path (its branch decisions do not
        enter the outer decision vector); returns the list of results.  A Panic inside propagates."""
        saved = (self.decisions, self.pos, self.pending)
        base = len(self.pc); depth = self.depth; stack = list(self.call_stack)
        results = []
        self.pending = [[]]
        try:
            while self.pending:
                self.decisions = self.pending.pop(); self.pos = 0
                self.solver.push()
                try:
                    results.append(fn())
                except Infeasible:
                    pass
                finally:
                    self.solver.pop()
                    del self.pc[base:]
                    self.depth = depth; self.call_stack[:] = stack
                self.stats['subpaths'] += 1
        finally:
            self.decisions, self.pos, self.pending = saved
        return results

    def where(self):
        return ' <- '.join(reversed([n.split('>::')[-1] if '<impl at' in n else n for n in self.call_stack[-7:]]))

    def model_of(self, path, extra=()):
        s = z3.Solver(); s.set('timeout', self.solver_timeout_ms)
        s.add(*path.pc)
        for c in extra: s.add(zbool(c))
        t0 = time.time(); r = s.check(); self.solver_s += time.time() - t0; self.stats['queries'] += 1
        if r == z3.sat: return s.model()
        if r == z3.unknown: raise Unmodelled('solver unknown')
        return None

    # ------------------------------------------------------------------ places / operands
    def place_cell(self, fr, p):
        k = p[0]
        if k == 'local':
            c = fr.get(p[1])
            if c is None: c = fr[p[1]] = Cell()
            return c
        if k == 'deref':
            v = self.place_cell(fr, p[1]).v
            if isinstance(v, Ref): return v.cell
            if isinstance(v, SliceRef): return Cell(v.vec)
            if isinstance(v, RStr): return Cell(v)
            if isinstance(v, Struct) and len(v.f) == 1 and isinstance(v.f[0].v, Ref): return v.f[0].v.cell   # Pin<&mut T>, NonNull, Unique
            raise Unmodelled('deref of %r in %s' % (v, self.where()))
        if k == 'field':
            v = self.place_cell(fr, p[1]).v
            if p[1][0] == 'downcast' and isinstance(p[1][2], int) and isinstance(v, Struct) and v.name == 'coroutine':
                store = v.f[-2].v.data.setdefault('vars', {})
                return store.setdefault((p[1][2], p[2]), Cell())
            if isinstance(v, Ref) and v.kind in ('Box', 'Arc') and p[2] == 0:
                return Cell(v)        # Box<T> internals (Unique / NonNull / pointer): all stand for the same pointer
            if isinstance(v, (Struct, Enum)):
                try: return v.f[p[2]]
                except IndexError:
                    raise Unmodelled('field %d of %r in %s' % (p[2], v, self.where()))
            raise Unmodelled('field %d of %r in %s' % (p[2], v, self.where()))
        if k == 'downcast':
            return self.place_cell(fr, p[1])
        if k == 'index':
            v = self.place_cell(fr, p[1]).v
            i = fr[p[2]].v
            cells = self._index_cells(v)
            i = self.concretize_index(i, len(cells))
            if i >= len(cells): raise Panic('index out of bounds: len %d index %d' % (len(cells), i))
            return cells[i]
        if k == 'cindex':
            v = self.place_cell(fr, p[1]).v
            cells = self._index_cells(v)
            i = len(cells) - p[2] if p[3] else p[2]
            return cells[i]
        if k == 'subslice':
            v = self.place_cell(fr, p[1]).v
            cells = self._index_cells(v)
            hi = len(cells) + int(p[3]) if p[3].startswith('-') else (int(p[3]) if p[3] else len(cells))
            return Cell(RVec(cells[p[2]:hi], 'slice'))
        raise Unmodelled('place kind %r' % (p,))

    def _index_cells(self, v):
        if isinstance(v, Struct) and v.name in ('[]', '()'): return v.f
        if isinstance(v, RVec): return v.cells
        if isinstance(v, SliceRef): return v.vec.cells
        raise Unmodelled('index into %r' % (v,))

    def place_ty(self, f, p):
        if p[0] == 'local': return f.local_ty.get(p[1])
        if p[0] == 'field': return p[3]
        if p[0] == 'deref':
            t = self.place_ty(f, p[1])
            if t:
                t = t.strip()
                m = re.match(r"&(?:'\w+ )?(?:mut )?(.*)$", t, flags=re.S)
                if m: return m.group(1)
                m = re.match(r'(?:std::boxed::)?Box<(.*)>$', t, flags=re.S)
                if m: return m.group(1)
            return None
        if p[0] in ('index', 'cindex'):
            t = self.place_ty(f, p[1])
            if t:
                m = re.match(r'\[(.*?)(?:; \d+)?\]$', t.strip(), flags=re.S)
                if m: return m.group(1)
            return None
        return None

    def operand_ty(self, f, op):
        if op[0] in ('copy', 'move'): return self.place_ty(f, op[1])
        c = op[1]
        m = re.match(r'(-?\d+)_(\w+)$', c)
        if m: return m.group(2)
        if c in ('true', 'false'): return 'bool'
        if c.startswith("'"): return 'char'
        k = self.mir.consts.get(c) or self.mir.consts.get(c.split('::')[-1])
        if k and k[0] == 'lit': return k[2]
        return None

    def const_value(self, f, c):
        m = re.match(r'(-?\d+)_(\w+)$', c)
        if m: return int(m.group(1))
        if c == 'true': return True
        if c == 'false': return False
        if c == '()': return mk_unit()
        if c.startswith('"'): return RStr(_unescape(c[1:-1]))
        if c.startswith('b"'):
            bs = _unescape_bytes(c[2:-1])
            return Ref(Cell(Struct('[]', list(bs))))
        if c.startswith("b'"): return _unescape_bytes(c[2:-1])[0]
        if c.startswith("'"):
            s = _unescape(c[1:-1]); return ord(s)
        m = re.match(r'ZeroSized: \{closure@([^}]*)\}', c)
        if m: return Closure(m.group(1), [])
        if c.startswith('ZeroSized: '):
            t = c[len('ZeroSized: '):]
            m = re.match(r'(?:for<[^>]*> )?(?:unsafe )?(?:extern "[^"]*" )?fn\(.*\{(.*)\}$', t, flags=re.S)
            if m: return FnItem(m.group(1))
            return Opaque('zst', t)
        m = re.search(r'promoted\[(\d+)\]$', c)
        if m and f is not None:
            key = f.name + '::promoted[%s]' % m.group(1)
            pf = self.mir.promoted.get(key)
            if pf is not None: return self.run_func(pf, [])
            raise Unmodelled('promoted %s not found' % key)
        m = re.match(r'(-?[\d.]+(?:e-?\d+)?)f(32|64)$', c)
        if m: return float(m.group(1))
        if c.startswith('{alloc') or c.startswith('{transmute('):
            return Opaque('alloc', c)
        # named constant
        ov = getattr(self, 'const_overrides', None)
        if ov and c.split('::')[-1] in ov: return ov[c.split('::')[-1]]
        k = self.mir.consts.get(c)
        if k is None and re.fullmatch(r'[\w:<> ,&\[\];\'{}#]+', c):
            k = self.mir.consts.get(strip_generics(c).split('::')[-1]) if re.fullmatch(r'[A-Z_][A-Z0-9_]*', c.split('::')[-1]) else None
        if k is not None:
            if k[0] == 'lit': return self.const_value(None, k[1])
            return self.run_func(k[1], [])
        m = re.fullmatch(r'(?:core::num::<impl )?(u8|u16|u32|u64|usize|i8|i16|i32|i64|isize)>?::(MAX|MIN)', c)
        if m:
            w = INT_W[m.group(1)]; signed = m.group(1)[0] == 'i'
            if m.group(2) == 'MAX': return (1 << (w - 1)) - 1 if signed else (1 << w) - 1
            return -(1 << (w - 1)) if signed else 0
        ev = self.enum_variant(c)
        if ev: return Enum(ev[0], ev[1], [])
        ext = EXTERNAL_CONSTS.get(strip_generics(c).split('::')[-1]) if '::' in c else None
        if ext is not None and re.search(ext[0], c): return ext[1]
        # function item or other path
        return FnItem(c)

    def zst_value(self, ty):
        """value of a never-assigned local of zero-sized type (rustc emits no assignment for those)"""
        tn = strip_generics(re.sub(r'<.*>$', '', ty.strip(), flags=re.S)).split('::')[-1]
        if tn in self.src.structs and not self.src.structs[tn]: return Struct(tn, [])
        if ty.strip() == '()': return mk_unit()
        t = ty.strip()
        if t.startswith('(') and t.endswith(')') and ',' in t:
            # a tuple none of whose components was ever assigned: all components are zero-sized
            parts = [self.zst_value(x) for x in scan_split(t[1:-1]) if x.strip()]
            return Struct('()', [p if p is not None else Opaque('zst', x) for p, x in zip(parts, scan_split(t[1:-1]))])
        return None

    def operand(self, f, fr, op):
        k = op[0]
        if k in ('copy', 'move') and op[1][0] == 'local':
            c = fr.get(op[1][1])
            if c is None or c.v is None:
                z = self.zst_value(f.local_ty.get(op[1][1], ''))
                if z is not None: return z
        if k == 'copy':
            v = self.place_cell(fr, op[1]).v
            if isinstance(v, (Struct, Enum)): v = clone(v)
            return v
        if k == 'move':
            return self.place_cell(fr, op[1]).v
        return self.const_value(f, op[1])

    # ------------------------------------------------------------------ arithmetic
    def binop(self, op, a, b, ty):
        info = int_info(ty) if ty else None
        w, signed = info if info else (64, False)
        if isinstance(a, float) or isinstance(b, float):
            base = op
            if base in ('Eq', 'Ne', 'Lt', 'Le', 'Gt', 'Ge'):
                return {'Eq': a == b, 'Ne': a != b, 'Lt': a < b, 'Le': a <= b, 'Gt': a > b, 'Ge': a >= b}[base]
            return {'Add': a + b, 'Sub': a - b, 'Mul': a * b, 'Div': a / b if b else float('inf')}[base]
        checked = op.endswith('WithOverflow')
        base = op.replace('WithOverflow', '').replace('Unchecked', '')
        isboolop = isinstance(a, bool) or isinstance(b, bool) or (is_sym(a) and z3.is_bool(a)) or (is_sym(b) and z3.is_bool(b))
        if isboolop:
            if not (is_sym(a) or is_sym(b)):
                a = bool(a); b = bool(b)
                return {'Eq': a == b, 'Ne': a != b, 'BitAnd': a and b, 'BitOr': a or b, 'BitXor': a != b,
                        'Lt': a < b, 'Le': a <= b, 'Gt': a > b, 'Ge': a >= b}[base]
            A = zbool(a); B = zbool(b)
            if base == 'Eq': return A == B
            if base in ('Ne', 'BitXor'): return z3.Xor(A, B)
            if base == 'BitAnd': return z3.And(A, B)
            if base == 'BitOr': return z3.Or(A, B)
            raise Unmodelled('bool binop ' + op)
        if not (is_sym(a) or is_sym(b)):
            if base in ('Eq', 'Ne', 'Lt', 'Le', 'Gt', 'Ge'):
                return {'Eq': a == b, 'Ne': a != b, 'Lt': a < b, 'Le': a <= b, 'Gt': a > b, 'Ge': a >= b}[base]
            if base == 'Cmp': return Enum('Ordering', 0 if a < b else (1 if a == b else 2))
            if base in ('Div', 'Rem') and b == 0: raise Panic('division by zero')
            if base == 'Div':
                r = abs(a) // abs(b); r = r if (a < 0) == (b < 0) else -r
            elif base == 'Rem':
                r = abs(a) % abs(b); r = r if a >= 0 else -r
            elif base == 'Shl': r = a << (b % w)
            elif base == 'Shr': r = a >> (b % w)
            else:
                r = {'Add': lambda: a + b, 'Sub': lambda: a - b, 'Mul': lambda: a * b,
                     'BitAnd': lambda: a & b, 'BitOr': lambda: a | b, 'BitXor': lambda: a ^ b}[base]()
            lo, hi = (-(1 << (w - 1)), (1 << (w - 1)) - 1) if signed else (0, (1 << w) - 1)
            ovf = not (lo <= r <= hi)
            r = ((r - lo) % (1 << w)) + lo
            return Struct('()', [r, ovf]) if checked else r
        if is_sym(a): w = a.size()
        elif is_sym(b): w = b.size()
        A = bv(a, w); B = bv(b, w)
        if B.size() != A.size():
            # shifts may have a differently-typed rhs
            B = z3.ZeroExt(A.size() - B.size(), B) if B.size() < A.size() else z3.Extract(A.size() - 1, 0, B)
        if base == 'Eq': return A == B
        if base == 'Ne': return A != B
        if base in ('Lt', 'Le', 'Gt', 'Ge'):
            if signed: return {'Lt': A < B, 'Le': A <= B, 'Gt': A > B, 'Ge': A >= B}[base]
            return {'Lt': z3.ULT(A, B), 'Le': z3.ULE(A, B), 'Gt': z3.UGT(A, B), 'Ge': z3.UGE(A, B)}[base]
        if base == 'Cmp':
            lt = (A < B) if signed else z3.ULT(A, B)
            if self.branch(lt): return Enum('Ordering', 0)
            if self.branch(A == B): return Enum('Ordering', 1)
            return Enum('Ordering', 2)
        ovf = False
        if base == 'Add':
            r = A + B
            if checked: ovf = z3.Not(z3.BVAddNoOverflow(A, B, signed)) if not signed else z3.Or(z3.Not(z3.BVAddNoOverflow(A, B, True)), z3.Not(z3.BVAddNoUnderflow(A, B)))
        elif base == 'Sub':
            r = A - B
            if checked: ovf = z3.ULT(A, B) if not signed else z3.Or(z3.Not(z3.BVSubNoOverflow(A, B)), z3.Not(z3.BVSubNoUnderflow(A, B, True)))
        elif base == 'Mul':
            r = A * B
            if checked: ovf = z3.Not(z3.BVMulNoOverflow(A, B, signed)) if not signed else z3.Or(z3.Not(z3.BVMulNoOverflow(A, B, True)), z3.Not(z3.BVMulNoUnderflow(A, B)))
        elif base == 'Div':
            if self.branch(B == 0): raise Panic('division by zero')
            r = z3.UDiv(A, B) if not signed else A / B
        elif base == 'Rem':
            if self.branch(B == 0): raise Panic('remainder by zero')
            r = z3.URem(A, B) if not signed else z3.SRem(A, B)
        elif base == 'BitAnd': r = A & B
        elif base == 'BitOr': r = A | B
        elif base == 'BitXor': r = A ^ B
        elif base == 'Shl': r = A << B
        elif base == 'Shr': r = z3.LShR(A, B) if not signed else A >> B
        else: raise Unmodelled('binop ' + op)
        return Struct('()', [r, ovf]) if checked else r

    def checked(self, op, a, b, ty, what):
        """a op b with the overflow panic rustc would emit"""
        r = self.binop(op + 'WithOverflow', a, b, ty)
        if self.branch(r.f[1].v): raise Panic('attempt to %s with overflow' % what)
        return r.f[0].v

    def cast_int(self, v, src_ty, to):
        info = int_info(to)
        if info is None: return v
        w, _ = info
        sinfo = int_info(src_ty) if src_ty else None
        ssigned = sinfo[1] if sinfo else False
        if to == 'bool': return v
        if isinstance(v, bool): return int(v)
        if isinstance(v, float): return int(v)
        if is_sym(v):
            if z3.is_bool(v): return z3.If(v, z3.BitVecVal(1, w), z3.BitVecVal(0, w))
            sw = v.size()
            if w > sw: return z3.SignExt(w - sw, v) if ssigned else z3.ZeroExt(w - sw, v)
            if w < sw: return z3.Extract(w - 1, 0, v)
            return v
        v = int(v) & ((1 << w) - 1)
        if info[1] and v >= (1 << (w - 1)): v -= (1 << w)
        return v

    # ------------------------------------------------------------------ rvalues
    def enum_variant(self, path):
        """if `path` names an enum variant return (enum name, index) else None"""
        segs = strip_generics(path).split('::')
        if len(segs) < 2: return None
        en, vn = segs[-2], segs[-1]
        if en in self.src.enums and vn in self.src.enums[en]: return en, self.src.enums[en].index(vn)
        if en in STD_ENUMS and vn in STD_ENUMS[en]: return en, STD_ENUMS[en].index(vn)
        if en == 'Ordering':
            if vn in CMP_ORDERING: return 'Ordering', CMP_ORDERING.index(vn)
            if vn in ATOMIC_ORDERING: return 'AtomicOrdering', ATOMIC_ORDERING.index(vn)
        return None

    def rvalue(self, f, fr, rv):
        k = rv[0]
        if k == 'use': return self.operand(f, fr, rv[1])
        if k == 'ref':
            p = rv[1]
            c = self.place_cell(fr, p)
            if c.v is None and p[0] == 'local': c.v = self.zst_value(f.local_ty.get(p[1], ''))
            # re-borrow of a slice / str through deref keeps the slice value itself
            if p[0] == 'deref':
                inner = self.place_cell(fr, p[1]).v
                if isinstance(inner, (SliceRef, RStr)): return inner
                if isinstance(inner, Ref) and isinstance(inner.cell.v, RStr) and False: return inner
            if p[0] == 'subslice': return SliceRef(c.v)
            return Ref(c)
        if k == 'binop':
            a = self.operand(f, fr, rv[2]); b = self.operand(f, fr, rv[3])
            ty = self.operand_ty(f, rv[2]) or self.operand_ty(f, rv[3])
            if rv[1] == 'Offset': raise Unmodelled('pointer offset')
            return self.binop(rv[1], a, b, ty)
        if k == 'unop':
            a = self.operand(f, fr, rv[2])
            if rv[1] == 'Not':
                if is_sym(a): return z3.Not(a) if z3.is_bool(a) else ~a
                if isinstance(a, bool): return not a
                info = int_info(self.operand_ty(f, rv[2]) or 'usize') or (64, False)
                r = (~a) & ((1 << info[0]) - 1)
                if info[1] and r >= (1 << (info[0] - 1)): r -= (1 << info[0])
                return r
            if rv[1] == 'Neg':
                if is_sym(a): return -a
                if isinstance(a, float): return -a
                info = int_info(self.operand_ty(f, rv[2]) or 'i64') or (64, True)
                w = info[0]; r = -a
                if r > (1 << (w - 1)) - 1: r -= (1 << w)
                return r
            if rv[1] == 'PtrMetadata':
                v = un(a) if not isinstance(a, (SliceRef, RStr)) else a
                if isinstance(v, RStr): return len(sval(v).encode())
                return len(deref_vec(v).cells)
        if k == 'discr':
            v = self.place_cell(fr, rv[1]).v
            if isinstance(v, Enum):
                if v.name == 'Ordering': return v.variant - 1
                d = self.src.enum_discr.get(v.name)
                if d:
                    vn = self.src.enums[v.name][v.variant]
                    if vn in d: return d[vn]
                return v.variant
            if isinstance(v, Struct) and v.name == 'coroutine': return v.f[-1].v
            raise Unmodelled('discriminant of %r in %s' % (v, self.where()))
        if k == 'cast':
            v = self.operand(f, fr, rv[1]); to = rv[2]; kind = rv[3]
            if kind in ('IntToInt',): return self.cast_int(v, self.operand_ty(f, rv[1]), to)
            if kind in ('IntToFloat',):
                if is_sym(v): raise Unmodelled('symbolic int to float')
                return float(v)
            if kind in ('FloatToInt',): return self.cast_int(int(v), None, to)
            if kind in ('FloatToFloat',): return v
            if kind == 'PointerCoercion' or kind == 'Unsize':
                if isinstance(v, Ref) and isinstance(v.cell.v, Struct) and v.cell.v.name == '[]' and re.match(r"(?:&|\*)(?:'\w+ )?(?:mut |const )?\[", to):
                    return SliceRef(RVec(v.cell.v.f, 'array'))
                return v
            return v
        if k == 'tuple': return Struct('()', [self.operand(f, fr, x) for x in rv[1]])
        if k == 'array': return Struct('[]', [self.operand(f, fr, x) for x in rv[1]])
        if k == 'repeat':
            v = self.operand(f, fr, rv[1]); n = rv[2]
            m = re.match(r'(\d+)(_usize)?$', n)
            if m: cnt = int(m.group(1))
            else:
                cnt = self.const_value(f, n.replace('const ', ''))
                if not isinstance(cnt, int): raise Unmodelled('repeat count ' + n)
            return Struct('[]', [clone(v) for _ in range(cnt)])
        if k == 'closure': return Closure(rv[1], [self.operand(f, fr, x) for x in rv[2]])
        if k == 'coroutine':
            caps = [self.operand(f, fr, x) for x in rv[2]]
            m = re.match(r'\{(.*)\}$', rv[1], flags=re.S)
            s = Struct('coroutine', caps + [Opaque('coroutine-locals', {}), 0])
            s.f[-2].v.data['span'] = m.group(1) if m else rv[1]
            s.f[-2].v.data['creator'] = f.name
            return s
        if k == 'struct':
            name = rv[1]; vals = [self.operand(f, fr, x) for x in rv[3]]
            ev = self.enum_variant(name)
            if ev: return Enum(ev[0], ev[1], vals)
            return Struct(strip_generics(name).split('::')[-1], vals)
        if k == 'ctor':
            name = rv[1]; vals = [self.operand(f, fr, x) for x in rv[2]]
            ev = self.enum_variant(name)
            if ev: return Enum(ev[0], ev[1], vals)
            return Struct(strip_generics(name).split('::')[-1], vals)
        if k == 'path':
            ev = self.enum_variant(rv[1])
            if ev: return Enum(ev[0], ev[1], [])
            if rv[1] in ('Less', 'Equal', 'Greater'): return Enum('Ordering', CMP_ORDERING.index(rv[1]))
            last = strip_generics(rv[1]).split('::')[-1]
            if last in self.src.structs or re.fullmatch(r'[A-Z]\w*', last): return Struct(last, [])
            return FnItem(rv[1])
        if k == 'len':
            return len(self._index_cells(self.place_cell(fr, rv[1]).v))
        if k == 'sizeof': raise Unmodelled('SizeOf')
        raise Unmodelled('rvalue %r' % (rv,))

    # ------------------------------------------------------------------ calls
    def resolve(self, callee):
        """callee text -> ('model', fn) | ('func', Func) | ('dyn', trait, method) | None"""
        r = self.callee_cache.get(callee)
        if r is not None: return r
        c = normalize(strip_generics(callee))
        r = None
        for pat, fn, name in FRONT_MODELS:
            if pat.search(c):
                r = ('model', fn, name); break
        if r is None and c in self.mir.funcs and '<impl' not in c:
            pass
        if r is None:
            # an inherent / free function of the crate named exactly by the callee wins over a library model whose
            # pattern merely matches the text (e.g. `SlotMutex::lock` vs the model of `Mutex::lock`)
            m = re.match(r'(?:[\w:]*::)?(\w+)::(\w+)$', c)
            if m and (m.group(1) in self.src.structs or m.group(1) in self.src.enums):
                fs = self.by_impl.get((m.group(1), None, m.group(2)))
                if fs and len(fs) == 1: r = ('func', fs[0])
        if r is None:
            for pat, fn, name in MODELS:
                if pat.search(c):
                    r = ('model', fn, name); break
        if r is None:
            r = self._resolve_crate(c)
        self.callee_cache[callee] = r
        return r

    def _resolve_crate(self, c):
        m = re.match(r'<(.+) as ([\w:]+)(?:<.*>)?>::(\w+)$', c, flags=re.S)
        if m:
            ty = m.group(1).strip(); trait = m.group(2).split('::')[-1]; meth = m.group(3)
            ty = re.sub(r"^&(?:'\w+ )?(?:mut )?", '', ty)
            tm = re.match(r'([\w:]+)', ty)
            tyname = tm.group(1).split('::')[-1] if tm else ty
            tyname = self.generic_env.get(tyname, tyname)
            fs = self.by_impl.get((tyname, trait, meth))
            if fs:
                if len(fs) == 1: return ('func', fs[0])
                return ('overload', fs, trait, meth)
            if (tyname in self.src.structs or tyname in self.src.enums) and self.by_impl.get(('*', trait, meth)):
                fs = self.by_impl[('*', trait, meth)]
                if len(fs) == 1: return ('func', fs[0])
            # provided (default) trait method defined on the trait itself
            cands = [f for n, f in self.mir.funcs.items() if n.endswith('::%s::%s' % (trait, meth)) or n == '%s::%s' % (trait, meth)]
            if self._is_generic_param(tyname) or ty.startswith('dyn ') or not fs:
                return ('dyn', trait, meth, cands[0] if len(cands) == 1 else None)
        if c in self.mir.funcs: return ('func', self.mir.funcs[c])
        m = re.match(r'(?:[\w:]*::)?(\w+)::(\w+)$', c)
        if m:
            tyname = self.generic_env.get(m.group(1), m.group(1))
            tyname = self.src.aliases.get(tyname, tyname) if tyname not in self.src.structs and tyname not in self.src.enums else tyname
            fs = self.by_impl.get((tyname, None, m.group(2)))
            if fs and len(fs) == 1: return ('func', fs[0])
            if fs: return ('overload', fs, None, m.group(2))
            # Trait::method(...) form or Type::trait_method
            fs = [f for (t, tr, me), v in self.by_impl.items() if t == tyname and me == m.group(2) for f in v]
            if len(fs) == 1: return ('func', fs[0])
        # inherent impl generated by a macro (no parsable impl header at the span): `mod::_::<impl Type>::method`
        m = re.match(r'(.*)::<impl ([\w:]+)>::(\w+)$', c)
        if m:
            pre, tyname, meth = m.group(1), m.group(2).split('::')[-1], m.group(3)
            cands = [f for n, f in self.mir.funcs.items()
                     if n.endswith('>::' + meth) and '<impl at ' in n and (n.startswith(pre + '::') or n.split('::<impl at')[0].endswith(pre))
                     and f.params and re.search(r'\b%s\b' % re.escape(tyname), f.local_ty[f.params[0]])]
            if len(cands) == 1: return ('func', cands[0])
        # free function: match by path suffix
        cands = [f for n, f in self.mir.funcs.items() if n == c or n.endswith('::' + c) or c.endswith('::' + n)]
        if len(cands) == 1: return ('func', cands[0])
        if len(cands) > 1:
            best = [f for f in cands if f.name.split('::')[-2:] == c.split('::')[-2:]]
            if len(best) == 1: return ('func', best[0])
        return None

    def _is_generic_param(self, t):
        return bool(re.fullmatch(r'[A-Z][A-Z0-9]{0,3}|Self|impl .*', t)) and t not in self.src.structs and t not in self.src.enums

    def type_name_of(self, v):
        v = un(v)
        if isinstance(v, (Struct, Enum)): return v.name
        if isinstance(v, RStr): return 'String'
        if isinstance(v, RVec): return 'Vec'
        return None

    def call(self, callee, args, f=None):
        self.stats['calls'] += 1
        r = self.resolve(callee)
        if r is None:
            raise Unmodelled('callee %s  [in %s]' % (callee, self.where()))
        self.cur_callee = callee
        if r[0] == 'model':
            self.models_used[r[2]] += 1
            return r[1](self, callee, args)
        if r[0] == 'func':
            for pat, fn, label in self.fn_stubs:
                if pat.search(r[1].name):
                    # a harness stand-in for a crate function (listed in the evidence of the check using it)
                    self.models_used['stub:' + label] += 1
                    return fn(self, args)
            if args:
                recv = un(args[0])
                meth = r[1].name.split('::')[-1]
                if isinstance(recv, PyObj) and hasattr(recv, 'm_' + meth):
                    # a harness stub standing in for a crate struct (listed in the evidence of the check using it)
                    self.models_used['stub:%s::%s' % (type(recv).__name__, meth)] += 1
                    return recv.mir_call(self, None, meth, args)
            return self.run_func(r[1], args)
        if r[0] == 'overload':
            # several impls of the same trait for one type (e.g. From<A>, From<B>): pick by argument count / type text
            fs = [g for g in r[1] if len(g.params) == len(args)]
            if len(fs) == 1: return self.run_func(fs[0], args)
            m = re.match(r'<(.+) as ([\w:]+)(<.*>)?>::(\w+)', callee, flags=re.S)
            if m and m.group(3):
                want = re.sub(r'\s+', '', m.group(3))
                for g in fs:
                    targs = re.sub(r'\s+', '', self.impl_of[g.name][2])
                    if targs and (targs == want or targs.split('::')[-1] == want.split('::')[-1]): return self.run_func(g, args)
            raise Unmodelled('ambiguous overload %s' % callee)
        if r[0] == 'dyn':
            trait, meth, default = r[1], r[2], r[3]
            recv = un(args[0]) if args else None
            if isinstance(recv, PyObj): return recv.mir_call(self, trait, meth, args)
            tn = self.type_name_of(recv) if recv is not None else None
            if tn:
                fs = self.by_impl.get((tn, trait, meth)) or self.by_impl.get(('*', trait, meth))
                if fs and len(fs) == 1: return self.run_func(fs[0], args)
                if fs and tn == 'Vec':
                    d = vec_depth(recv)
                    pick = [g for g in fs if self.impl_of[g.name][3].count('Vec<') == d]
                    if d and len(pick) == 1: return self.run_func(pick[0], args)
            if not args or tn is None:
                m = re.match(r'<(.+?) as ', strip_generics(callee))
                tname = m.group(1).strip() if m else None
                tname = self.generic_env.get(tname, tname)
                if tname in self.type_mocks:
                    return self.type_mocks[tname].mir_call(self, trait, meth, args)
                fs = self.by_impl.get((tname, trait, meth))
                if fs and len(fs) == 1: return self.run_func(fs[0], args)
            if default is not None: return self.run_func(default, args)
            raise Unmodelled('dynamic call %s on %r [in %s]' % (callee, recv, self.where()))
        raise Unmodelled('resolution %r' % (r,))

    def call_closure(self, clo, args):
        clo_v = un(clo)
        if isinstance(clo_v, FnItem): return self.call(clo_v.path, list(args))
        if isinstance(clo_v, PyObj): return clo_v.mir_call(self, 'Fn', 'call', list(args))
        if not isinstance(clo_v, Closure): raise Unmodelled('call of non-closure %r' % (clo_v,))
        f = self.closure_by_span.get(clo_v.span)
        if f is None: raise Unmodelled('closure body for %s not found' % clo_v.span)
        first = Ref(Cell(clo_v)) if f.local_ty[f.params[0]].lstrip().startswith('&') else clo_v
        if isinstance(clo, Ref) and first is not clo_v: first = Ref(clo.cell) if isinstance(clo.cell.v, Closure) else first
        return self.run_func(f, [first] + list(args))

    def call_fn_value(self, fv, args):
        fv_u = un(fv)
        if isinstance(fv_u, (Closure, FnItem, PyObj)): return self.call_closure(fv, args)
        if isinstance(fv_u, Enum) and not fv_u.f and args:
            # a tuple-variant constructor used as a function value (`.map_err(CompressionError::Io)`): the operand reader
            # printed it like a field-less variant
            return Enum(fv_u.name, fv_u.variant, list(args))
        raise Unmodelled('call of %r' % (fv_u,))

    def coroutine_fn(self, co):
        span = co.f[-2].v.data.get('span', '')
        m = re.search(r'(src/[\w/]+\.rs:\d+:\d+: \d+:\d+)', span)
        key = m.group(1) if m else span
        for sp, f in self.closure_by_span.items():
            if key in sp: return f
        # `async fn`: the body is closure#0 of the function that built the coroutine value
        creator = co.f[-2].v.data.get('creator')
        if creator:
            cands = [g for g in self.mir.all_funcs if g.name == creator + '::{closure#0}']
            if len(cands) == 1 and cands[0].params and 'async fn body' in cands[0].local_ty[cands[0].params[0]]: return cands[0]
        raise Unmodelled('coroutine body for %s not found' % span)

    def poll(self, fut):
        """poll a future value once: returns the Poll enum"""
        co = un(fut)
        while isinstance(co, Struct) and co.name == 'Pin': fut = co.f[0].v; co = un(fut)
        if isinstance(co, PyObj): return co.mir_call(self, 'Future', 'poll', [fut])
        if isinstance(co, Enum) and co.name == 'Either': return self.poll(Ref(co.f[0]))
        if isinstance(co, Struct) and co.name == 'OneshotReceiver':
            ch = co.f[0].v.cell
            if ch.v is None:
                if getattr(co.f[0].v, 'sender_dropped', False) or ch in getattr(self, 'dropped_senders', ()):
                    return Enum('Poll', 0, [Err(Struct('Canceled', []))])
                ph = getattr(self, 'pending_hook', None)
                if ph: ph('oneshot')
                return Enum('Poll', 1)
            return Enum('Poll', 0, [Ok(ch.v)])
        if isinstance(co, (Struct, Enum)) and co.name != 'coroutine':
            fs = self.by_impl.get((co.name, 'Future', 'poll'))
            if fs and len(fs) == 1:
                cell = fut.cell if isinstance(fut, Ref) and fut.cell.v is co else Cell(co)
                return self.run_func(fs[0], [Struct('Pin', [Ref(cell)]), Opaque('Context')])
        if not (isinstance(co, Struct) and co.name == 'coroutine'): raise Unmodelled('poll of %r' % (co,))
        f = self.coroutine_fn(co)
        cell = fut.cell if isinstance(fut, Ref) and fut.cell.v is co else Cell(co)
        return self.run_func(f, [Struct('Pin', [Ref(cell)]), Opaque('Context')])

    def block_on(self, fut, max_polls=4):
        """drive a future to completion; Pending without a modelled wake-up source is inconclusive"""
        for _ in range(max_polls):
            r = self.poll(fut)
            if r.variant == 0: return r.f[0].v
        raise Unmodelled('future still pending after %d polls' % max_polls)

    def drop_value(self, v, seen=None):
        """run Drop impls of crate types inside v (drop glue)"""
        if not self.drop_types and getattr(self, 'lock_hook', None) is None: return
        if isinstance(v, Ref):
            if v.kind == 'Box': self.drop_value(v.cell.v)
            elif v.kind == 'guard':
                h = getattr(self, 'lock_hook', None)
                if h: h('unlock', v.cell)
            return
        if isinstance(v, (Struct, Enum)):
            if v.name in self.drop_types:
                fs = self.by_impl.get((v.name, 'Drop', 'drop'))
                if fs: self.run_func(fs[0], [Ref(Cell(v))])
            for c in v.f: self.drop_value(c.v)
        elif isinstance(v, RVec):
            for c in v.cells: self.drop_value(c.v)
        elif isinstance(v, RMap):
            for k, c in v.items: self.drop_value(c.v)


    # ------------------------------------------------------------------ helpers used by models
    loop_budget = 100000
    map_rotation = False

    def clone_value(self, v, via_ref=None):
        u = v
        if isinstance(u, (Struct, Enum)) and not isinstance(u, Closure):
            fs = self.by_impl.get((u.name, 'Clone', 'clone'))
            if fs and len(fs) == 1 and not self.is_derived(fs[0]):
                return self.run_func(fs[0], [via_ref if isinstance(via_ref, Ref) else Ref(Cell(u))])
        return clone(u)

    def is_derived(self, f):
        return f.name in self.derived

    def default_value(self, ty):
        ty = ty.strip()
        ty = re.sub(r'^(std|core|alloc)::(\w+::)*', '', ty)
        if ty in INT_W and ty != 'bool': return 0
        if ty == 'bool': return False
        if ty in ('f64', 'f32'): return 0.0
        if ty == '()' : return mk_unit()
        if ty.startswith('String') or ty == '&str': return RStr('')
        if ty.startswith('VecDeque'): return RVec([], 'VecDeque')
        if ty.startswith('Vec'): return RVec([])
        if ty.startswith('HashMap'): return RMap('HashMap')
        if ty.startswith('BTreeMap'): return RMap('BTreeMap')
        if ty.startswith('HashSet'): return RSet('HashSet')
        if ty.startswith('BTreeSet'): return RSet('BTreeSet')
        if ty.startswith('Option'): return NONE()
        if ty.startswith('Arc<') or ty.startswith('Box<') or ty.startswith('Rc<'):
            return Ref(Cell(self.default_value(ty[ty.index('<') + 1:-1])), 'Arc' if ty[0] != 'B' else 'Box')
        if ty.startswith('(') and ty.endswith(')'):
            return Struct('()', [self.default_value(t) for t in scan_split(ty[1:-1])])
        am = re.fullmatch(r'\[(.*); (\d+)\]', ty, flags=re.S)
        if am:
            return Struct('[]', [self.default_value(am.group(1)) for _ in range(int(am.group(2)))])
        tn = strip_generics(re.sub(r'<.*>$', '', ty, flags=re.S)).split('::')[-1]
        tn = self.generic_env.get(tn, tn)
        fs = self.by_impl.get((tn, 'Default', 'default'))
        if fs and len(fs) == 1: return self.run_func(fs[0], [])
        if tn in self.type_mocks: return self.type_mocks[tn].mir_call(self, 'Default', 'default', [])
        if tn.startswith('Atomic'): return Struct(tn, [0])
        raise Unmodelled('Default::default for ' + ty)

    def default_like(self, old):
        if isinstance(old, RStr): return RStr('')
        if isinstance(old, RVec): return RVec([], old.kind)
        if isinstance(old, RMap): return RMap(old.kind)
        if isinstance(old, RSet): return RSet(old.kind)
        if isinstance(old, Enum) and old.name == 'Option': return NONE()
        if isinstance(old, bool): return False
        if isinstance(old, int) or is_sym(old): return 0
        if isinstance(old, (Struct, Enum)): return self.default_value(old.name)
        raise Unmodelled('mem::take of %r' % (old,))

    def convert_from(self, v, tgt, src=None):
        tgt = tgt.strip(); t = re.sub(r'^(std|core|alloc)::(\w+::)*', '', tgt)
        u = un(v)
        if src is not None and re.sub(r'\s+', '', src) == re.sub(r'\s+', '', tgt): return v
        if t.startswith('String'):
            if isinstance(u, RStr): return RStr(u.s)
            if isinstance(u, int): return RStr(chr(u))
        if t.startswith('Vec<u8>') or t.startswith('Bytes'):
            if isinstance(u, RStr): return RVec([Cell(b) for b in sval(u).encode()], 'Bytes' if t.startswith('Bytes') else 'Vec')
            if isinstance(u, (RVec, SliceRef)) or (isinstance(u, Struct) and u.name == '[]'):
                if isinstance(v, (Ref, SliceRef)) or isinstance(u, Struct): return RVec([Cell(c.v) for c in deref_vec(u).cells], 'Bytes' if t.startswith('Bytes') else 'Vec')
                return u
        if t.startswith('Vec<') and (isinstance(u, (RVec, SliceRef)) or (isinstance(u, Struct) and u.name == '[]')):
            if isinstance(v, (Ref, SliceRef)) or isinstance(u, Struct): return RVec([Cell(clone(c.v)) for c in deref_vec(u).cells])
            return u
        if t in INT_W:
            w = INT_W[t]; signed = t[0] == 'i'
            sinfo = int_info(src) if src else None
            if sinfo is None: return v
            lossless = (sinfo[0] < w and (signed or not sinfo[1])) or (sinfo[0] == w and sinfo[1] == signed)
            if lossless: return self.cast_int(u, src, t)
            # TryFrom: range check
            lo, hi = (-(1 << (w - 1)), (1 << (w - 1)) - 1) if signed else (0, (1 << w) - 1)
            if is_sym(u):
                inr = zand([(u >= lo) if sinfo[1] else z3.BoolVal(True), (u <= hi) if sinfo[1] else z3.ULE(u, hi)]) if sinfo[0] > w or sinfo[1] != signed else True
                if self.branch(inr): return Ok(self.cast_int(u, src, t))
                return Err(Struct('TryFromIntError', []))
            return Ok(u) if lo <= u <= hi else Err(Struct('TryFromIntError', []))
        if t in ('io::Error', 'Error') and isinstance(u, Opaque) and u.what == 'io::ErrorKind': return Opaque('io::Error', 'from-kind')
        if t.startswith('Box<dyn') or t.startswith('Arc<dyn'): return Ref(Cell(v), 'Box')
        if t.startswith('Option<'): return Some(v)
        if t.startswith('Arc<') or t.startswith('Box<') or t.startswith('Rc<'):
            return Ref(Cell(v), 'Arc' if t[0] != 'B' else 'Box')
        tn = strip_generics(re.sub(r'<.*>$', '', t, flags=re.S)).split('::')[-1]
        fs = self.by_impl.get((tn, 'From', 'from'))
        if fs:
            if len(fs) == 1: return self.run_func(fs[0], [v])
            if src:
                want = re.sub(r'\s+', '', src).split('::')[-1]
                for g in fs:
                    targs = re.sub(r'\s+', '', self.impl_of[g.name][2]).strip('<>').split('::')[-1]
                    if targs == want or targs.rstrip('>') == want.rstrip('>'): return self.run_func(g, [v])
            raise Unmodelled('ambiguous From for %s <- %s' % (tgt, src))
        fs = self.by_impl.get((tn, 'TryFrom', 'try_from'))
        if fs and len(fs) == 1: return self.run_func(fs[0], [v])
        if src is not None:
            sn = strip_generics(re.sub(r'<.*>$', '', src.strip(), flags=re.S)).split('::')[-1].lstrip('&')
            fs = self.by_impl.get((sn, 'Into', 'into'))
            if fs and len(fs) == 1: return self.run_func(fs[0], [v])
        if isinstance(u, (Struct, Enum)) and u.name == tn: return v
        raise Unmodelled('conversion to %s from %s (%r)' % (tgt, src, u))

    def display(self, v):
        u = un(v)
        if isinstance(u, RStr): return u
        if isinstance(u, bool): return RStr('true' if u else 'false')
        if isinstance(u, int): return RStr(str(u))
        if isinstance(u, float): return RStr(repr(u))
        if is_sym(u):
            if z3.is_bool(u): raise Unmodelled('display of symbolic bool')
            return RStr((NumStr(u, u.size()),))
        if isinstance(u, (Struct, Enum)):
            fs = self.by_impl.get((u.name, 'Display', 'fmt'))
            if fs and len(fs) == 1:
                fm = Struct('Formatter', [RStr('')])
                self.run_func(fs[0], [v if isinstance(v, Ref) else Ref(Cell(u)), Ref(Cell(fm))])
                return fm.f[0].v
            if u.name == 'Cow' : return self.display(u.f[0].v)
            return RStr('<%s>' % u.name)
        if isinstance(u, Opaque):
            if isinstance(u.data, str): return RStr(u.data)
            return RStr('<%s>' % u.what)
        return RStr('<display>')

    def debug(self, v):
        u = un(v)
        if isinstance(u, RStr):
            try: return RStr('"%s"' % sval(u))
            except Unmodelled: return RStr('<debug>')
        if isinstance(u, (bool, int)) and not is_sym(u): return self.display(u)
        return RStr('<debug>')

    # ------------------------------------------------------------------ interpreter loop
    def run_func(self, f, args):
        if not f.parsed: f.parse()
        self.funcs_run[f.name] += 1
        self.depth += 1
        if self.depth > self.max_depth:
            self.depth -= 1
            raise Budget('call depth %d exceeded in %s' % (self.max_depth, f.name))
        self.call_stack.append(f.name)
        try:
            return self._run(f, args)
        except (Unmodelled, Panic, Budget, TypeError, AttributeError, IndexError, KeyError, AssertionError, ValueError) as ex:
            if getattr(ex, 'mir_where', None) is None:
                try: ex.mir_where = self.where()
                except Exception: pass
            raise
        finally:
            self.depth -= 1
            self.call_stack.pop()

    def _run(self, f, args):
        fr = {}
        if len(args) != len(f.params):
            raise Unmodelled('arity mismatch calling %s: %d args for %d params' % (f.name, len(args), len(f.params)))
        for p, a in zip(f.params, args): fr[p] = Cell(a)
        bb = 'bb0'
        blocks = f.blocks
        while True:
            stmts = blocks[bb]
            self.steps += len(stmts)
            if self.steps > self.max_steps: raise Budget('step budget %d exceeded in %s' % (self.max_steps, f.name))
            for st in stmts[:-1]:
                if st[0] == 'assign':
                    val = self.rvalue(f, fr, st[2])
                    self.place_cell(fr, st[1]).v = val
                elif st[0] == 'setdiscr':
                    c = self.place_cell(fr, st[1])
                    if isinstance(c.v, Enum): c.v.variant = st[2]
                    elif isinstance(c.v, Struct) and c.v.name == 'coroutine': c.v.f[-1].v = st[2]
                    else: raise Unmodelled('set discriminant of %r' % (c.v,))
            t = stmts[-1]
            k = t[0]
            if k == 'goto': bb = t[1]; continue
            if k == 'return':
                c = fr.get('_0')
                if c is not None and c.v is not None: return c.v
                z = self.zst_value(f.ret) if f.ret else None
                return z if z is not None else mk_unit()
            if k == 'switch':
                v = self.operand(f, fr, t[1]); nxt = None
                if is_sym(v):
                    for kv, dst in t[2]:
                        cond = (v if kv == 1 else z3.Not(v)) if z3.is_bool(v) else (v == kv)
                        if self.branch(cond): nxt = dst; break
                    if nxt is None: nxt = t[3]
                else:
                    iv = int(v)
                    for kv, dst in t[2]:
                        if iv == kv or (iv < 0 and kv == iv + 256) or (iv < 0 and kv == iv + (1 << 64)) or (iv < 0 and kv == iv + (1 << 32)):
                            nxt = dst; break
                    if nxt is None: nxt = t[3]
                if nxt is None: raise Panic('switchInt without matching target in ' + f.name)
                bb = nxt; continue
            if k == 'call':
                args2 = [self.operand(f, fr, a) for a in t[3]]
                r = self.call(t[2], args2, f)
                if t[4] is None:
                    raise Panic('diverging call %s returned' % t[2])
                self.place_cell(fr, t[1]).v = r
                bb = t[4]; continue
            if k == 'assert':
                v = self.operand(f, fr, t[2])
                if t[1]: v = znot(v)
                if self.branch(v): bb = t[4]; continue
                raise Panic('assertion failed: %s' % t[3][:80], where=self.where())
            if k == 'drop':
                c = self.place_cell(fr, t[1])
                if c.v is not None and (self.drop_types or getattr(self, 'lock_hook', None) is not None): self.drop_value(c.v)
                bb = t[2]; continue
            if k == 'unreachable': raise Panic('entered unreachable code in ' + f.name)
            if k == 'resume': raise Panic('unwind resume in ' + f.name)
            raise Unmodelled('terminator %r' % (t,))


def vec_depth(v):
    v = un(v); d = 0
    while isinstance(v, (RVec, SliceRef)):
        d += 1
        cells = v.cells if isinstance(v, RVec) else v.vec.cells
        if not cells: return 0
        v = un(cells[0].v)
    return d


_STD_PREFIX = re.compile(r'\b(?:std|core|alloc)::((?:[a-z_0-9]+::(?!<))*)(?=(.))')


def normalize(c):
    """drop std module paths: types/traits lose the prefix entirely, free functions keep a `std::` marker"""
    def rep(m):
        nxt = m.group(2)
        return 'std::' if (nxt.islower() or nxt == '_') else ''
    return _STD_PREFIX.sub(rep, c)


def _unescape(s):
    if '\\' not in s: return s
    out = []; i = 0
    while i < len(s):
        ch = s[i]
        if ch == '\\' and i + 1 < len(s):
            n = s[i + 1]
            if n == 'n': out.append('\n'); i += 2
            elif n == 'r': out.append('\r'); i += 2
            elif n == 't': out.append('\t'); i += 2
            elif n == '0': out.append('\0'); i += 2
            elif n == '\\': out.append('\\'); i += 2
            elif n == '"': out.append('"'); i += 2
            elif n == "'": out.append("'"); i += 2
            elif n == 'x': out.append(chr(int(s[i + 2:i + 4], 16))); i += 4
            elif n == 'u':
                j = s.index('}', i); out.append(chr(int(s[i + 3:j], 16))); i = j + 1
            elif n == '\n':
                i += 2
                while i < len(s) and s[i] in ' \t\n': i += 1
            else: out.append(n); i += 2
        else: out.append(ch); i += 1
    return ''.join(out)


def _unescape_bytes(s):
    return [ord(c) & 0xff for c in _unescape(s)]


def load_engine(mir_path, crate_root):
    mir = Mir(mir_path)
    src = SrcInfo(crate_root)
    from . import models  # registers models
    return Engine(mir, src)
