"""Translator validation: interpret the repository's own unit tests (from the test-profile MIR dump) concretely.
Each must end exactly as it does natively: pass, no panic."""
import re, sys, time, json, traceback
from .values import Unmodelled, Panic, Budget
from .engine import load_engine

# modules whose tests exercise the code paths the properties are decided on
SUITE = [
    r'^store::tests::', r'^broker::ordered_proxy::tests::|^ordered_proxy::tests::', r'^broker::resource::tests::|^resource::tests::',
    r'^common::cluster::tests::|^cluster::tests::', r'^common::utils::tests::|^utils::tests::',
    r'^common::proto::tests::|^proto::tests::', r'^common::biatomic::tests::|^biatomic::tests::',
    r'^protocol::stateless::tests::|^stateless::tests::', r'^proxy::slot::tests::|^slot::tests::',
    r'scan_migration::tests::', r'^proxy::cluster::tests::',
    r'^replicator::tests::|replication::replicator::tests::', r'^proxy::compress::tests::|^compress::tests::',
    r'^proxy::command::tests::|^command::tests::', r'^protocol::packet::tests::|^packet::tests::',
]


def test_functions(eng, patterns=SUITE):
    out = []
    for n in eng.mir.funcs:
        if '{closure' in n or '::tests::' not in n: continue
        f = eng.mir.funcs[n]
        if f.params: continue
        if not re.search(r'::tests::test_\w+$|::tests::\w+$', n): continue
        if any(re.search(p, n) for p in patterns): out.append(n)
    return sorted(out)


def run_one(eng, name):
    f = eng.mir.funcs[name]
    t0 = time.time()
    try:
        res = eng.explore(lambda e: e.run_func(f, []), max_paths=64)
    except Unmodelled as u:
        return 'unmodelled', str(u) + ' @ ' + str(getattr(u, 'mir_where', '')), time.time() - t0
    except Budget as b:
        return 'budget', str(b), time.time() - t0
    except RecursionError:
        return 'unmodelled', 'python recursion limit', time.time() - t0
    except Exception as ex:
        tb = traceback.extract_tb(sys.exc_info()[2])
        loc = ' / '.join('%s:%d' % (fr.filename.split('/')[-1], fr.lineno) for fr in tb[-3:])
        return 'unmodelled', 'internal %s: %s [%s] in %s' % (type(ex).__name__, ex, loc, getattr(ex, 'mir_where', '')), time.time() - t0
    if any(p.kind == 'budget' for p in res):
        return 'budget', [p for p in res if p.kind == 'budget'][0].msg, time.time() - t0
    bad = [p for p in res if p.kind != 'ok']
    if bad:
        return 'fail', '%s: %s @ %s' % (bad[0].kind, bad[0].msg, bad[0].where), time.time() - t0
    return 'pass', '%d path(s)' % len(res), time.time() - t0


def main(argv):
    mir, crate = argv[0], argv[1]
    pats = argv[2:] or SUITE
    sys.setrecursionlimit(20000)
    eng = load_engine(mir, crate)
    eng.max_steps = 6_000_000
    names = test_functions(eng, pats)
    summary = {'pass': 0, 'fail': 0, 'unmodelled': 0, 'budget': 0}
    details = []
    for n in names:
        st, msg, dt = run_one(eng, n)
        summary[st] += 1
        details.append({'test': n, 'status': st, 'msg': msg[:300], 's': round(dt, 2)})
        print('%-10s %-70s %5.1fs  %s' % (st, n, dt, msg[:200] if st != 'pass' else ''))
    print(json.dumps(summary))
    return summary, details


if __name__ == '__main__':
    main(sys.argv[1:])
