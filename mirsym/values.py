"""Value domain of the MIR symbolic executor.

Scalars: Python int/bool while concrete, z3 BitVec/Bool once symbolic.
Aggregates: Struct / Enum hold mutable Cells; references point at Cells, so aliasing through &mut works.
Containers (Vec, String, HashMap, ...) are model objects with concrete *shape* and possibly symbolic elements.
"""
import z3


class Panic(Exception):
    """the interpreted program panics on this path (assert / expect / overflow / unreachable)"""
    def __init__(self, msg, where=None):
        Exception.__init__(self, msg); self.msg = msg; self.where = where


class Unmodelled(Exception):
    """something the executor cannot interpret -> the run is inconclusive (exit 2), never pass/fail"""


class Budget(Exception):
    """loop / step / recursion budget exhausted"""


class Infeasible(Exception):
    """path condition became unsatisfiable (assume(false))"""


class Cell:
    __slots__ = ('v',)
    def __init__(self, v=None): self.v = v
    def __repr__(self): return 'Cell(%r)' % (self.v,)


def _cells(fields):
    return [c if isinstance(c, Cell) else Cell(c) for c in fields]


class Struct:
    __slots__ = ('name', 'f')
    def __init__(self, name, fields=()):
        self.name = name; self.f = _cells(fields)
    def __repr__(self):
        if self.name == '()': return '(%s)' % ', '.join(repr(c.v) for c in self.f)
        return '%s{%s}' % (self.name, ', '.join(repr(c.v) for c in self.f))


class Enum:
    __slots__ = ('name', 'variant', 'f')
    def __init__(self, name, variant, fields=()):
        self.name = name; self.variant = variant; self.f = _cells(fields)
    def __repr__(self):
        return '%s#%s(%s)' % (self.name, self.variant, ', '.join(repr(c.v) for c in self.f))


class Closure(Struct):
    __slots__ = ('span',)
    def __init__(self, span, captures=()):
        Struct.__init__(self, 'closure', captures); self.span = span
    def __repr__(self): return 'closure@%s' % self.span


class FnItem:
    """a function item / fn pointer value: path text as printed in the MIR"""
    __slots__ = ('path',)
    def __init__(self, path): self.path = path
    def __repr__(self): return 'fn(%s)' % self.path


class Ref:
    """&T / &mut T / Box<T> / Arc<T> / Rc<T>: pointer to a cell"""
    __slots__ = ('cell', 'kind')
    def __init__(self, cell, kind='&'):
        self.cell = cell; self.kind = kind
    def __repr__(self): return '%s%r' % (self.kind, self.cell.v)


class RVec:
    """Vec<T> / array-backed slice storage / VecDeque: list of cells"""
    __slots__ = ('cells', 'kind', 'text')
    def __init__(self, cells=None, kind='Vec', text=None):
        self.cells = cells if cells is not None else []; self.kind = kind
        self.text = text      # bytes that are the UTF-8 of a structured (partly symbolic) string keep that string here
    def __repr__(self): return '%s%r' % (self.kind, [c.v for c in self.cells])


class SliceRef:
    """&[T] / &mut [T]: a view sharing the cells of its backing storage"""
    __slots__ = ('vec',)
    def __init__(self, vec): self.vec = vec
    def __repr__(self): return '&%r' % (self.vec,)


class RStr:
    """String / &str.  s is a Python str when fully concrete; otherwise a tuple of parts, each a str or a
    NumStr (decimal rendering of a symbolic integer)."""
    __slots__ = ('s',)
    def __init__(self, s): self.s = s
    def __repr__(self): return 'Str(%r)' % (self.s,)


class NumStr:
    """decimal text of an integer value (possibly symbolic); never equals non-numeric text"""
    __slots__ = ('v', 'w')
    def __init__(self, v, w): self.v = v; self.w = w
    def __repr__(self): return 'Num(%r)' % (self.v,)


class RMap:
    """HashMap / BTreeMap as association list (key value, Cell)"""
    __slots__ = ('items', 'kind')
    def __init__(self, kind='HashMap'): self.items = []; self.kind = kind
    def __repr__(self): return 'Map{%s}' % ', '.join('%r: %r' % (k, c.v) for k, c in self.items)


class RSet:
    __slots__ = ('items', 'kind')
    def __init__(self, kind='HashSet'): self.items = []; self.kind = kind
    def __repr__(self): return 'Set%r' % (self.items,)


class PyIter:
    """any Rust iterator: a Python generator of values"""
    __slots__ = ('gen', 'peeked', 'back')
    def __init__(self, gen): self.gen = iter(gen); self.peeked = []; self.back = None
    def next(self):
        if self.peeked: return self.peeked.pop(0)
        return next(self.gen)
    def __iter__(self):
        while True:
            try: yield self.next()
            except StopIteration: return


class Opaque:
    """a value the executor does not look into (formatter arguments, loggers, ...)"""
    __slots__ = ('what', 'data')
    def __init__(self, what, data=None): self.what = what; self.data = data
    def __repr__(self): return '<%s>' % self.what


class PyObj:
    """a Python-side mock of a crate trait object / generic parameter; methods are looked up by name"""
    def mir_call(self, engine, trait, method, args):
        fn = getattr(self, 'm_' + method, None)
        if fn is None: raise Unmodelled('mock %s has no method %s' % (type(self).__name__, method))
        return fn(engine, *args)


UNIT = Struct('()', [])


def mk_unit(): return Struct('()', [])
def Some(v): return Enum('Option', 1, [v])
def NONE(): return Enum('Option', 0, [])
def Ok(v): return Enum('Result', 0, [v])
def Err(v): return Enum('Result', 1, [v])
def Tuple(*xs): return Struct('()', list(xs))


def is_sym(x): return isinstance(x, z3.ExprRef)


def bv(x, w=64):
    if is_sym(x):
        if z3.is_bool(x): return z3.If(x, z3.BitVecVal(1, w), z3.BitVecVal(0, w))
        return x
    return z3.BitVecVal(int(x), w)


def zbool(x):
    if is_sym(x): return x
    return z3.BoolVal(bool(x))


def un(v):
    """strip references"""
    while isinstance(v, Ref): v = v.cell.v
    return v


def zand(xs):
    xs = list(xs)
    out = []
    for x in xs:
        if is_sym(x):
            if z3.is_false(x): return False
            if z3.is_true(x): continue
            out.append(x)
        elif not x: return False
    if not out: return True
    return z3.And(*out) if len(out) > 1 else out[0]


def zor(xs):
    out = []
    for x in xs:
        if is_sym(x):
            if z3.is_true(x): return True
            if z3.is_false(x): continue
            out.append(x)
        elif x: return True
    if not out: return False
    return z3.Or(*out) if len(out) > 1 else out[0]


def znot(x):
    if is_sym(x): return z3.Not(x)
    return not x


def zite(c, a, b, w=64):
    if not is_sym(c): return a if c else b
    if isinstance(a, bool) or isinstance(b, bool) or (is_sym(a) and z3.is_bool(a)) or (is_sym(b) and z3.is_bool(b)):
        return z3.If(c, zbool(a), zbool(b))
    if is_sym(a): w = a.size()
    elif is_sym(b): w = b.size()
    return z3.If(c, bv(a, w), bv(b, w))


def str_parts(v):
    v = un(v)
    if isinstance(v, RStr):
        return (v.s,) if isinstance(v.s, str) else tuple(v.s)
    raise Unmodelled('not a string: %r' % (v,))


def sval(v):
    """concrete Python str of a string value (Unmodelled if it has symbolic parts)"""
    v = un(v)
    if isinstance(v, RStr):
        if isinstance(v.s, str): return v.s
        if all(isinstance(p, str) or not is_sym(p.v) for p in v.s):
            return ''.join(p if isinstance(p, str) else str(p.v) for p in v.s)
        raise Unmodelled('string with symbolic parts used concretely: %r' % (v,))
    if isinstance(v, Struct) and len(v.f) == 1:   # newtype around a string (ClusterName, DBName ...)
        return sval(v.f[0].v)
    raise Unmodelled('not a string: %r' % (v,))


def norm_parts(parts):
    """merge adjacent concrete parts; concretise NumStr of concrete values"""
    out = []
    for p in parts:
        if isinstance(p, NumStr) and not is_sym(p.v): p = str(p.v)
        if isinstance(p, str):
            if p == '': continue
            if out and isinstance(out[-1], str): out[-1] += p
            else: out.append(p)
        else: out.append(p)
    if not out: return ''
    if len(out) == 1 and isinstance(out[0], str): return out[0]
    return tuple(out)


def mkstr(parts): return RStr(norm_parts(parts))


def str_eq(a, b):
    pa, pb = str_parts(a), str_parts(b)
    pa = norm_parts(pa); pb = norm_parts(pb)
    if isinstance(pa, str) and isinstance(pb, str): return pa == pb
    pa = (pa,) if isinstance(pa, str) else pa
    pb = (pb,) if isinstance(pb, str) else pb
    return parts_eq(list(pa), list(pb))


def _is_digits(s): return s != '' and all(c in '0123456789' for c in s)


def parts_eq(pa, pb):
    """equality of two part lists; symbolic numbers compare by value when aligned, and a NumStr never equals
    text containing a non-digit.  Alignment is by position of the separators between parts."""
    if len(pa) == len(pb):
        conds = []
        for x, y in zip(pa, pb):
            if isinstance(x, str) and isinstance(y, str):
                if x != y: break
            elif isinstance(x, NumStr) and isinstance(y, NumStr):
                w = max(x.w, y.w)
                conds.append(bv(x.v, x.w) == bv(y.v, y.w) if x.w == y.w else z3.ZeroExt(w - x.w, bv(x.v, x.w)) == z3.ZeroExt(w - y.w, bv(y.v, y.w)))
            else:
                n, s = (x, y) if isinstance(x, NumStr) else (y, x)
                if not _is_digits(s): break
                if len(s) > 1 and s[0] == '0': break
                conds.append(bv(n.v, n.w) == z3.BitVecVal(int(s) % (1 << n.w), n.w) if int(s) < (1 << n.w) else False)
        else:
            return zand(conds)
    # different structure: decide the common cases soundly
    # a lone NumStr vs text with a non-digit -> different
    def has_nondigit(ps): return any(isinstance(p, str) and not _is_digits(p) for p in ps)
    if len(pa) == 1 and isinstance(pa[0], NumStr) and has_nondigit(pb): return False
    if len(pb) == 1 and isinstance(pb[0], NumStr) and has_nondigit(pa): return False
    # compare the skeleton of non-digit text: if it differs the strings differ
    def skel(ps): return ''.join(''.join(c for c in p if c not in '0123456789') if isinstance(p, str) else '' for p in ps)
    if skel(pa) != skel(pb): return False
    raise Unmodelled('string comparison with unaligned symbolic parts: %r vs %r' % (pa, pb))


def veq(a, b):
    """structural equality (derive(PartialEq) semantics) -> bool or z3 Bool"""
    a = un(a); b = un(b)
    if isinstance(a, RStr) or isinstance(b, RStr):
        if not (isinstance(a, RStr) and isinstance(b, RStr)):
            # newtype wrappers / ArrayString
            if isinstance(a, Struct) and len(a.f) == 1: return veq(a.f[0].v, b)
            if isinstance(b, Struct) and len(b.f) == 1: return veq(a, b.f[0].v)
            raise Unmodelled('eq of string and %r / %r' % (a, b))
        return str_eq(a, b)
    if isinstance(a, Struct) and a.name == '[]' and not (isinstance(b, Struct) and b.name == '[]'): a = RVec(a.f, 'array')
    if isinstance(b, Struct) and b.name == '[]' and not (isinstance(a, Struct) and a.name == '[]'): b = RVec(b.f, 'array')
    if isinstance(a, Struct):
        if not isinstance(b, Struct) or len(a.f) != len(b.f): raise Unmodelled('eq of %r and %r' % (a, b))
        return zand(veq(x.v, y.v) for x, y in zip(a.f, b.f))
    if isinstance(a, Enum):
        if not isinstance(b, Enum): raise Unmodelled('eq of %r and %r' % (a, b))
        if a.variant != b.variant: return False
        return zand(veq(x.v, y.v) for x, y in zip(a.f, b.f))
    if isinstance(a, (RVec, SliceRef)) or isinstance(b, (RVec, SliceRef)):
        ta = (a.vec if isinstance(a, SliceRef) else a).text; tb = (b.vec if isinstance(b, SliceRef) else b).text
        if ta is not None or tb is not None:
            if ta is not None and tb is not None: return str_eq(ta, tb)
            # one side is structured text, the other plain bytes: compare as text when the plain side is concrete UTF-8
            plain = (b if ta is not None else a)
            cells = plain.vec.cells if isinstance(plain, SliceRef) else plain.cells
            if all(not is_sym(c.v) for c in cells):
                try:
                    txt = RStr(bytes(int(c.v) for c in cells).decode('utf-8'))
                    return str_eq(ta if ta is not None else txt, tb if tb is not None else txt)
                except UnicodeDecodeError:
                    return False
            raise Unmodelled('comparison of text-backed bytes with symbolic plain bytes')
        ca = a.vec.cells if isinstance(a, SliceRef) else a.cells
        cb = b.vec.cells if isinstance(b, SliceRef) else b.cells
        if len(ca) != len(cb): return False
        return zand(veq(x.v, y.v) for x, y in zip(ca, cb))
    if isinstance(a, RMap):
        if len(a.items) != len(b.items): return False
        conds = []
        for k, c in a.items:
            hit = None
            for k2, c2 in b.items:
                r = veq(k, k2)
                if is_sym(r): raise Unmodelled('map eq with symbolic keys')
                if r: hit = c2; break
            if hit is None: return False
            conds.append(veq(c.v, hit.v))
        return zand(conds)
    if isinstance(a, RSet):
        if len(a.items) != len(b.items): return False
        for k in a.items:
            if not any(veq(k, k2) is True for k2 in b.items): return False
        return True
    if is_sym(a) or is_sym(b):
        if (is_sym(a) and z3.is_bool(a)) or (is_sym(b) and z3.is_bool(b)) or isinstance(a, bool) or isinstance(b, bool):
            return zbool(a) == zbool(b)
        w = (a if is_sym(a) else b).size()
        return bv(a, w) == bv(b, w)
    if isinstance(a, (int, bool)) and isinstance(b, (int, bool)): return a == b
    if a is None and b is None: return True
    if isinstance(a, Opaque) and isinstance(b, Opaque): return a.what == b.what and a.data == b.data
    if isinstance(a, PyObj) or isinstance(b, PyObj): return a is b
    raise Unmodelled('eq of %r and %r' % (a, b))


def clone(v):
    """deep copy following Clone semantics: references inside are shared (Arc/&), owned data is copied"""
    if isinstance(v, Ref):
        if v.kind == 'Box': return Ref(Cell(clone(v.cell.v)), 'Box')
        return v   # & / Arc / Rc: pointer copy
    if isinstance(v, RStr): return RStr(v.s)
    if isinstance(v, Closure): return Closure(v.span, [Cell(clone(c.v)) for c in v.f])
    if isinstance(v, Struct): return Struct(v.name, [Cell(clone(c.v)) for c in v.f])
    if isinstance(v, Enum): return Enum(v.name, v.variant, [Cell(clone(c.v)) for c in v.f])
    if isinstance(v, RVec): return RVec([Cell(clone(c.v)) for c in v.cells], v.kind, v.text)
    if isinstance(v, RMap):
        m = RMap(v.kind); m.items = [(clone(k), Cell(clone(c.v))) for k, c in v.items]; return m
    if isinstance(v, RSet):
        s = RSet(v.kind); s.items = [clone(k) for k in v.items]; return s
    if isinstance(v, SliceRef): return v
    return v


def deref_vec(v):
    """the RVec behind a Vec / slice / array / reference to one"""
    v = un(v)
    if isinstance(v, SliceRef): v = v.vec
    if isinstance(v, Struct) and v.name == '[]': return RVec(v.f, 'array')
    if isinstance(v, RVec): return v
    if isinstance(v, Struct) and len(v.f) == 1: return deref_vec(v.f[0].v)   # newtype over Vec (RangeList..)
    raise Unmodelled('not a vec/slice: %r' % (v,))


def concretize(v, model):
    """evaluate all symbolic leaves under a z3 model -> plain Python structure (for witnesses / replay)"""
    v = un(v)
    if is_sym(v):
        r = model.eval(v, model_completion=True)
        if z3.is_bool(r): return z3.is_true(r)
        return r.as_long()
    if isinstance(v, (int, bool)) or v is None: return v
    if isinstance(v, RStr):
        if isinstance(v.s, str): return v.s
        return ''.join(p if isinstance(p, str) else str(concretize(p.v, model)) for p in v.s)
    if isinstance(v, Struct):
        return {'_': v.name, 'f': [concretize(c.v, model) for c in v.f]}
    if isinstance(v, Enum):
        return {'_': v.name, 'variant': v.variant, 'f': [concretize(c.v, model) for c in v.f]}
    if isinstance(v, (RVec,)): return [concretize(c.v, model) for c in v.cells]
    if isinstance(v, SliceRef): return [concretize(c.v, model) for c in v.vec.cells]
    if isinstance(v, RMap): return [[concretize(k, model), concretize(c.v, model)] for k, c in v.items]
    if isinstance(v, RSet): return [concretize(k, model) for k in v.items]
    return repr(v)
