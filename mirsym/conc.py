"""Concurrent mode: thread programs are *summarised* by running the real functions from their MIR with every shared
memory operation (atomics, channel operations) returning a fresh symbolic value and being recorded as a visible step;
k threads are then composed under a fully symbolic schedule in one SMT query per combination of local paths:
a bit-vector position per step (distinct, program order kept), one copy of the shared state per time point, each
step's read value tied to the state at its position."""
import itertools, time
import z3
from .values import *
from .engine import model, strip_generics

# ---------------------------------------------------------------- channel models (crossbeam_channel, unbounded FIFO)
class Chan:
    def __init__(self, name): self.name = name


@model(r'crossbeam_channel::(un)?bounded$|crossbeam::channel::(un)?bounded$')
def _(e, c, a):
    ch = Chan('chan%d' % len(getattr(e, 'chans', [])))
    e.chans = getattr(e, 'chans', []) + [ch]
    return Tuple(Struct('CbSender', [ch]), Struct('CbReceiver', [ch]))


@model(r'crossbeam_channel::Sender(<.*>)?::send$')
def _(e, c, a):
    h = getattr(e, 'chan_hook', None)
    ch = un(a[0]).f[0].v
    if h: return h('enq', ch, a[1])
    q = e.notes.setdefault('chanq', {}).setdefault(ch.name, [])
    q.append(a[1]); return Ok(mk_unit())


@model(r'crossbeam_channel::Receiver(<.*>)?::try_recv$')
def _(e, c, a):
    h = getattr(e, 'chan_hook', None)
    ch = un(a[0]).f[0].v
    if h: return h('deq', ch)
    q = e.notes.setdefault('chanq', {}).setdefault(ch.name, [])
    if q: return Ok(q.pop(0))
    return Err(Enum('TryRecvError', 0))


@model(r'crossbeam_channel::SendError(<.*>)?::into_inner$')
def _(e, c, a): return un(a[0]).f[0].v


@model(r'(?:^|::)Arc(<.*>)?::downgrade$|(?:^|::)Weak(<.*>)?::upgrade$')
def _(e, c, a):
    if 'upgrade' in c: return Some(a[0])
    return un(a[0]) if isinstance(a[0], Ref) and isinstance(a[0].cell.v, Ref) else a[0]


# ---------------------------------------------------------------- summaries
class Summariser:
    """runs thread programs with the shared-memory hooks installed; collects local paths = (steps, path condition, result)"""

    def __init__(self, engine, names, cas_bound=2, deq_bound=3):
        self.e = engine; self.names = names          # id(cell) -> symbolic location name
        self.ops = []; self.ctr = 0
        self.cas_bound = cas_bound; self.deq_bound = deq_bound
        engine.atomic_hook = self.atomic; engine.chan_hook = self.chan
        self._seen = {}

    thread = 't'

    def fresh(self, name, w=64):
        # deterministic names (thread, step index): local paths with the same step sequence share their variables,
        # so they can be merged by disjunction of their path conditions
        self.ctr += 1
        nm = '%s_%s_k%d_%s' % (self.thread, name, len(self.ops), '' if name not in self._seen_at(len(self.ops)) else 'b')
        self._seen.setdefault(len(self.ops), set()).add(name)
        return z3.BitVec(nm, w) if w else z3.Bool(nm)

    def _seen_at(self, k):
        return self._seen.get(k, set())

    def loc(self, cell):
        n = self.names.get(id(cell))
        if n is None: raise Unmodelled('atomic operation on a location that is not part of the shared state')
        return n

    def atomic(self, op, cell, *vals):
        e = self.e; loc = self.loc(cell)
        isbool = isinstance(cell.v, bool)
        out = (lambda r: r != 0) if isbool else (lambda r: r)
        if op == 'load':
            r = self.fresh('ld'); self.ops.append({'kind': 'load', 'obj': loc, 'res': r}); return out(r)
        if op == 'swap':
            r = self.fresh('sw'); self.ops.append({'kind': 'swap', 'obj': loc, 'val': vals[0], 'res': r}); return out(r)
        if op in ('fetch_add', 'fetch_sub'):
            r = self.fresh('fa'); d = vals[0]
            self.ops.append({'kind': 'faa', 'obj': loc, 'delta': d if op == 'fetch_add' else -d, 'res': r}); return r
        if op == 'store':
            self.ops.append({'kind': 'store', 'obj': loc, 'val': vals[0]}); return True
        if op == 'cas':
            ok = self.fresh('casok', 0)
            self.ops.append({'kind': 'cas', 'obj': loc, 'exp': vals[0], 'new': vals[1], 'res': ok})
            ncas = sum(1 for o in self.ops if o['kind'] == 'cas' and o['obj'] == loc)
            if ncas > self.cas_bound:
                e.assume(ok)           # bound on CAS retries: schedules needing more retries are outside the claim
                return Ok(vals[0])
            if e.branch(ok): return Ok(vals[0])
            return Err(out(self.fresh('casold')))
        raise Unmodelled('atomic op ' + op)

    def chan(self, op, ch, *vals):
        e = self.e
        if op == 'enq':
            self.ops.append({'kind': 'enq', 'task': task_id(vals[0])}); return Ok(mk_unit())
        got = self.fresh('deqok', 0); t = self.fresh('deqtask', 8)
        self.ops.append({'kind': 'deq', 'ok': got, 'task': t})
        ndeq = sum(1 for o in self.ops if o['kind'] == 'deq')
        if ndeq > self.deq_bound:
            e.assume(z3.Not(got)); return Err(Enum('TryRecvError', 0))
        if e.branch(got): return Ok(SymTask(t))
        return Err(Enum('TryRecvError', 0))

    def event(self, ev, task):
        self.ops.append({'kind': 'ev', 'ev': ev, 'task': task_id(task)})

    def mark(self, ev): self.ops.append({'kind': 'mark', 'ev': ev})

    def summarise(self, body, max_paths=400):
        out = []
        def run(e):
            del self.ops[:]; self._seen = {}
            r = body(e)
            return (list(self.ops), r)
        for p in self.e.explore(run, max_paths=max_paths):
            if p.kind == 'ok': out.append((p.value[0], p.pc, p.value[1]))
            elif p.kind == 'panic': out.append((list(self.ops), p.pc, ('panic', p.msg, p.where)))
            else: raise Budget(p.msg)
        return out


class SymTask(PyObj):
    """a task taken from the queue (identity symbolic)"""
    def __init__(self, tid): self.tid = tid
    def m_set_resp_result(self, e, selfv, result):
        e.events.append(('error-reply', self.tid)); return mk_unit()


def task_id(v):
    v = un(v)
    while isinstance(v, Struct) and v.f: v = un(v.f[0].v)
    if isinstance(v, SymTask): return v.tid
    if isinstance(v, PyObj) and hasattr(v, 'tid'): return v.tid
    raise Unmodelled('task identity of %r' % (v,))


# ---------------------------------------------------------------- composition
def compose(threads, state_vars, queue_cap=2, extra_order=(), timeout_ms=300000, free_locs=(), free_queue=False):
    """threads: list of (ops, pc, result) - one local path per thread.  state_vars: {location: initial value (64 bit)}.
    Returns (solver, pos, allops, states) where states[loc][t] is the value of loc before time t."""
    s = z3.Solver(); s.set('timeout', timeout_ms)
    allops = []
    for ti, (ops, pc, r) in enumerate(threads):
        for k, o in enumerate(ops): allops.append((ti, k, o))
        for c in pc: s.add(c)
    n = len(allops)
    W = 8
    pos = {}
    for (ti, k, o) in allops:
        p = z3.BitVec('pos_%d_%d' % (ti, k), W); pos[(ti, k)] = p; s.add(z3.ULT(p, n))
    if len(pos) > 1: s.add(z3.Distinct(*pos.values()))
    for (ti, k, o) in allops:
        if (ti, k + 1) in pos: s.add(z3.ULT(pos[(ti, k)], pos[(ti, k + 1)]))
        if 'after' in o: s.add(z3.UGT(pos[(ti, k)], pos[o['after']]))
    st = {loc: [z3.BitVec('%s_%d' % (loc, t), 64) for t in range(n + 1)] for loc in state_vars}
    for loc, init in state_vars.items(): s.add(st[loc][0] == init)
    qlen = [z3.BitVec('ql_%d' % t, 8) for t in range(n + 1)]
    q = [[z3.BitVec('q%d_%d' % (i, t), 8) for t in range(n + 1)] for i in range(queue_cap)]
    s.add(qlen[0] == 0)
    for t in range(n):
        for (ti, k, o) in allops:
            here = pos[(ti, k)] == t
            kd = o['kind']; eff = []
            nxt = {loc: st[loc][t] for loc in st}
            nql = qlen[t]; nq = [q[i][t] for i in range(queue_cap)]
            if kd in ('faa', 'load', 'cas', 'store', 'swap') and o['obj'] in free_locs: pass       # interference by other threads: unconstrained
            elif kd in ('enq', 'deq') and free_queue: pass
            elif kd == 'faa':
                cur = st[o['obj']][t]; eff.append(o['res'] == cur); nxt[o['obj']] = cur + bv(o['delta'], 64)
            elif kd == 'load':
                eff.append(o['res'] == st[o['obj']][t])
            elif kd == 'store':
                nxt[o['obj']] = bv(o['val'], 64)
            elif kd == 'lock':
                eff.append(st[o['obj']][t] == 0); nxt[o['obj']] = z3.BitVecVal(1, 64)
            elif kd == 'unlock':
                nxt[o['obj']] = z3.BitVecVal(0, 64)
            elif kd == 'swap':
                eff.append(o['res'] == st[o['obj']][t]); nxt[o['obj']] = bv(o['val'], 64)
            elif kd == 'cas':
                cur = st[o['obj']][t]; okc = cur == bv(o['exp'], 64)
                eff.append(o['res'] == okc); nxt[o['obj']] = z3.If(okc, bv(o['new'], 64), cur)
            elif kd == 'enq':
                eff.append(z3.ULT(qlen[t], queue_cap))
                for i in range(queue_cap): nq[i] = z3.If(qlen[t] == i, bv(o['task'], 8), q[i][t])
                nql = qlen[t] + 1
            elif kd == 'deq':
                eff.append(o['ok'] == (qlen[t] != 0)); eff.append(z3.Implies(qlen[t] != 0, o['task'] == q[0][t]))
                for i in range(queue_cap):
                    nq[i] = z3.If(qlen[t] != 0, q[i + 1][t] if i + 1 < queue_cap else q[i][t], q[i][t])
                nql = z3.If(qlen[t] != 0, qlen[t] - 1, qlen[t])
            frame = [st[loc][t + 1] == nxt[loc] for loc in st] + [qlen[t + 1] == nql] + [q[i][t + 1] == nq[i] for i in range(queue_cap)]
            s.add(z3.Implies(here, z3.And(*(eff + frame))))
    return s, pos, allops, {'state': st, 'qlen': qlen, 'q': q, 'n': n}


def schedule_of(model, pos, allops):
    order = sorted(allops, key=lambda x: model.eval(pos[(x[0], x[1])], model_completion=True).as_long())
    out = []
    for (ti, k, o) in order:
        d = {'t': model.eval(pos[(ti, k)], model_completion=True).as_long(), 'thread': ti, 'step': k, 'kind': o['kind']}
        for kk in ('ev', 'obj'):
            if kk in o: d[kk] = o[kk]
        for kk in ('delta', 'task', 'exp', 'new', 'res', 'ok'):
            if kk in o:
                v = o[kk]
                if is_sym(v):
                    r = model.eval(v, model_completion=True)
                    d[kk] = z3.is_true(r) if z3.is_bool(r) else r.as_long()
                else: d[kk] = v
        out.append(d)
    return out


def shape_of(ops):
    sig = []
    for o in ops:
        d = (o['kind'], o.get('obj'), o.get('ev'))
        for k in ('delta', 'task', 'exp', 'new', 'val'):
            if k in o: d += (k, str(o[k]))
        sig.append(d)
    return tuple(sig)


def merge_paths(paths):
    """merge local paths with identical step sequences (same variables by construction) into one path whose
    condition is the disjunction of theirs"""
    groups = {}
    order = []
    for ops, pc, r in paths:
        key = (shape_of(ops), repr(r) if not isinstance(r, tuple) else r[0])
        if key not in groups: groups[key] = [ops, [], r]; order.append(key)
        groups[key][1].append(z3.And(*pc) if pc else z3.BoolVal(True))
    out = []
    for key in order:
        ops, pcs, r = groups[key]
        out.append((ops, [z3.Or(*pcs)] if len(pcs) > 1 else [pcs[0]], r))
    return out
