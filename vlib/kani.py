"""Engine K: Kani/CBMC proof harnesses over the real crate (overlay copy with the backtrace stub; harness files
/verif/kani/<dir>__<file>.rs are injected as `#[cfg(kani)] mod verif_kani;` child modules)."""
import os, re, subprocess, time, sys
from vlib import overlay

TARGET = os.path.join(overlay.W, 'target-kani')


def run_harness(harness, timeout=600, extra=()):
    overlay.sync()
    env = dict(overlay.ENV)
    cmd = ['cargo', 'kani', '--harness', harness, '--target-dir', TARGET, '--output-format', 'terse',
           '-Z', 'stubbing', '-Z', 'unstable-options', '--harness-timeout', '%ds' % timeout] + list(extra)
    t0 = time.time()
    with overlay.Lock('kani.lock'):
        try:
            r = subprocess.run(cmd, cwd=overlay.CRATE, env=env, stdout=subprocess.PIPE, stderr=subprocess.STDOUT, timeout=timeout + 900)
            out = r.stdout.decode(errors='replace'); rc = r.returncode
        except subprocess.TimeoutExpired as ex:
            out = (ex.stdout or b'').decode(errors='replace') + '\n[timeout]'; rc = -1
    dt = time.time() - t0
    if 'VERIFICATION:- SUCCESSFUL' in out: status = 'SUCCESS'
    elif 'VERIFICATION:- FAILED' in out: status = 'FAILED'
    elif 'timed out' in out.lower() or '[timeout]' in out: status = 'TIMEOUT'
    else: status = 'ERROR'
    failed = re.findall(r'Failed Checks: (.*)', out)
    m = re.search(r'Verification Time: ([\d.]+)s', out)
    return {'harness': harness, 'status': status, 's': round(dt, 1), 'cbmc_s': float(m.group(1)) if m else None,
            'failed_checks': failed[:6], 'tail': out[-1500:] if status in ('ERROR',) else ''}


def run_many(harnesses, timeout=600, extra=()):
    overlay.sync()
    env = dict(overlay.ENV)
    cmd = ['cargo', 'kani', '--target-dir', TARGET, '--output-format', 'terse', '-Z', 'stubbing', '-Z', 'unstable-options',
           '--harness-timeout', '%ds' % timeout] + list(extra)
    for h in harnesses: cmd += ['--harness', h]
    t0 = time.time()
    with overlay.Lock('kani.lock'):
        try:
            r = subprocess.run(cmd, cwd=overlay.CRATE, env=env, stdout=subprocess.PIPE, stderr=subprocess.STDOUT, timeout=timeout * len(harnesses) + 1200)
            out = r.stdout.decode(errors='replace')
        except subprocess.TimeoutExpired as ex:
            out = (ex.stdout or b'').decode(errors='replace') + '\n[timeout]'
    total = time.time() - t0
    res = {}
    blocks = re.split(r'Checking harness ', out)
    for b in blocks[1:]:
        name = b.split('...')[0].strip().split('::')[-1]
        if 'VERIFICATION:- SUCCESSFUL' in b: st = 'SUCCESS'
        elif 'VERIFICATION:- FAILED' in b: st = 'TIMEOUT' if 'timed out' in b.lower() else 'FAILED'
        else: st = 'ERROR'
        m = re.search(r'Verification Time: ([\d.]+)s', b)
        res[name] = {'harness': name, 'status': st, 'cbmc_s': float(m.group(1)) if m else None, 'failed_checks': re.findall(r'Failed Checks: (.*)', b)[:6]}
    for h in harnesses:
        if h not in res: res[h] = {'harness': h, 'status': 'ERROR', 'cbmc_s': None, 'failed_checks': [], 'tail': out[-1200:]}
    return res, round(total, 1)


def run(ctx, harnesses, expect_fail=(), timeout=600):
    """run Kani harnesses (one cargo-kani invocation); a FAILED proof is a violation, TIMEOUT/ERROR is recorded as not
    explored (never success); harnesses in expect_fail are vacuity witnesses that must FAIL"""
    res, total = run_many(list(harnesses) + list(expect_fail), timeout)
    ctx.notes['kani_wall_s'] = ctx.notes.get('kani_wall_s', 0) + total
    for h in list(harnesses) + list(expect_fail):
        r = res[h]
        if h in expect_fail:
            if r['status'] != 'FAILED':
                ctx.not_explored.append('vacuity witness %s did not fail (%s): the harness family is not trusted' % (h, r['status']))
            else: r['status'] = 'SUCCESS'; r['note'] = 'vacuity witness: failed as required'
            ctx.kani_results.append(r); continue
        ctx.kani_results.append(r)
        if r['status'] == 'FAILED':
            ctx.violations.append({'clause': 'kani:' + h, 'key': '%s/kani/%s' % (ctx.pid, h), 'witness': {'failed_checks': r['failed_checks']}, 'replay': None})
        elif r['status'] != 'SUCCESS':
            ctx.not_explored.append('Kani harness %s: %s' % (h, r['status']))
            if r['status'] == 'ERROR': print('[kani] %s error:\n%s' % (h, r.get('tail', '')), file=sys.stderr)
