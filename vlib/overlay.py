"""Overlay copy of /repo (regenerated from the current working tree on every check run) and MIR dump.

W/crate      : copy of /repo/{src,Cargo.toml,Cargo.lock} + [patch] backtrace stub + injected child modules
W/mir/mir.txt: `rustc -Zunpretty=mir` dump (test profile, so the repo's own unit tests are included)
Nothing here is needed by a later run: everything is rebuilt on demand.
"""
import os, sys, hashlib, subprocess, fcntl, time, json, shutil, re

VERIF = os.path.dirname(os.path.dirname(os.path.abspath(__file__)))
REPO = os.environ.get('VERIF_REPO', '/repo')
W = os.environ.get('VERIF_WORK', '/root/.cache/undermoon-verif')
CRATE = os.path.join(W, 'crate')
MIRDIR = os.path.join(W, 'mir')
MIR = os.path.join(MIRDIR, 'mir.txt')

ENV = dict(os.environ, CARGO_NET_OFFLINE='true')
ENV.pop('RUSTUP_TOOLCHAIN', None)

# child modules appended to overlay source files: {relative source file: [lines]}
def injections():
    inj = {}
    kdir = os.path.join(VERIF, 'kani')
    for f in sorted(os.listdir(kdir)) if os.path.isdir(kdir) else []:
        # kani/<a>__<b>.rs is injected into src/<a>/<b>.rs
        if not f.endswith('.rs'): continue
        rel = 'src/' + f[:-3].replace('__', '/') + '.rs'
        inj.setdefault(rel, []).append('#[cfg(kani)] #[path = "%s"] mod verif_kani;' % os.path.join(kdir, f))
    rdir = os.path.join(VERIF, 'replay')
    for f in sorted(os.listdir(rdir)) if os.path.isdir(rdir) else []:
        if not f.endswith('.rs'): continue
        rel = 'src/' + f[:-3].replace('__', '/') + '.rs'
        inj.setdefault(rel, []).append('#[cfg(all(test, undermoon_verif_replay))] #[path = "%s"] mod verif_replay;' % os.path.join(rdir, f))
    return inj


class Lock:
    def __init__(self, name='lock'):
        os.makedirs(W, exist_ok=True)
        self.path = os.path.join(W, name)
    def __enter__(self):
        self.f = open(self.path, 'w')
        fcntl.flock(self.f, fcntl.LOCK_EX)
        return self
    def __exit__(self, *a):
        fcntl.flock(self.f, fcntl.LOCK_UN); self.f.close()


def _write_if_changed(path, data):
    try:
        with open(path, 'rb') as f:
            if f.read() == data: return False
    except OSError:
        pass
    os.makedirs(os.path.dirname(path), exist_ok=True)
    with open(path, 'wb') as f: f.write(data)
    return True


def sync():
    """Copy /repo's working tree into the overlay. Returns the source hash."""
    inj = injections()
    h = hashlib.sha256()
    want = set()
    for dp, dn, fn in os.walk(os.path.join(REPO, 'src')):
        dn.sort()
        for f in sorted(fn):
            p = os.path.join(dp, f)
            rel = os.path.relpath(p, REPO)
            data = open(p, 'rb').read()
            h.update(rel.encode()); h.update(b'\0'); h.update(data); h.update(b'\0')
            if rel in inj:
                data = data + b'\n' + '\n'.join(inj[rel]).encode() + b'\n'
            _write_if_changed(os.path.join(CRATE, rel), data)
            want.add(rel)
    for dp, dn, fn in os.walk(os.path.join(CRATE, 'src')):
        for f in fn:
            rel = os.path.relpath(os.path.join(dp, f), CRATE)
            if rel not in want: os.remove(os.path.join(dp, f))
    toml = open(os.path.join(REPO, 'Cargo.toml')).read()
    h.update(toml.encode())
    toml += '\n[patch.crates-io]\nbacktrace = { path = "%s" }\n' % os.path.join(VERIF, 'shim', 'backtrace')
    # cfg names used by injected modules / hooks
    _write_if_changed(os.path.join(CRATE, 'Cargo.toml'), toml.encode())
    lock = open(os.path.join(REPO, 'Cargo.lock'), 'rb').read()
    h.update(lock)
    if not os.path.exists(os.path.join(CRATE, 'Cargo.lock')):
        _write_if_changed(os.path.join(CRATE, 'Cargo.lock'), lock)
    return h.hexdigest()


def mir_dump(force=False, log=sys.stderr):
    """(Re)generate the MIR dump if the sources changed. Returns (path, source_hash, seconds_spent)."""
    with Lock('mir.lock'):
        srchash = sync()
        stamp = os.path.join(MIRDIR, 'stamp')
        try:
            if not force and open(stamp).read().strip() == srchash and os.path.getsize(MIR) > 1000:
                return MIR, srchash, 0.0
        except OSError:
            pass
        os.makedirs(MIRDIR, exist_ok=True)
        t0 = time.time()
        # make sure rustc re-runs even if cargo thinks nothing changed
        os.utime(os.path.join(CRATE, 'src', 'lib.rs'))
        cmd = ['cargo', '+nightly', 'rustc', '--offline', '--lib', '--profile', 'test',
               '--target-dir', os.path.join(W, 'target-mir'), '--',
               '-Zunpretty=mir', '-C', 'debug-assertions=off', '-C', 'overflow-checks=on', '-Awarnings']
        tmp = MIR + '.tmp'
        with open(tmp, 'wb') as out, open(os.path.join(MIRDIR, 'build.log'), 'wb') as err:
            r = subprocess.run(cmd, cwd=CRATE, env=ENV, stdout=out, stderr=err)
        if r.returncode != 0 or os.path.getsize(tmp) < 1000:
            tail = open(os.path.join(MIRDIR, 'build.log'), errors='replace').read()[-3000:]
            raise RuntimeError('MIR dump failed (rustc exit %d):\n%s' % (r.returncode, tail))
        os.replace(tmp, MIR)
        with open(stamp, 'w') as f: f.write(srchash)
        dt = time.time() - t0
        print('[overlay] MIR dump regenerated in %.1fs (%d bytes)' % (dt, os.path.getsize(MIR)), file=log)
        return MIR, srchash, dt


if __name__ == '__main__':
    p, h, dt = mir_dump(force='--force' in sys.argv)
    print(p, h, '%.1fs' % dt)
