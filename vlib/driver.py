"""Check driver: `check <ID> [--tier quick|thorough] [--replay <path>]`.
Exit 0: property held on everything explored (known findings are printed as KNOWN-FINDING lines).
Exit 1: VIOLATION property=<id> replay=<path> for every violation not listed in known_findings.json.
Exit 2: inconclusive (unmodelled construct, solver unknown, budget, build failure, counterexample that does not replay)."""
import sys, os, json, time, importlib, traceback, hashlib, collections, re

VERIF = os.path.dirname(os.path.dirname(os.path.abspath(__file__)))
sys.path.insert(0, VERIF)
sys.setrecursionlimit(50000)

from vlib import overlay
from mirsym.values import Unmodelled, Budget, Panic, concretize, is_sym


class Inconclusive(Exception):
    pass


class Ctx:
    def __init__(self, pid, tier, seed):
        self.pid = pid; self.tier = tier; self.seed = seed
        self.t0 = time.time()
        self._engine = None
        self.obligations = 0; self.discharged = 0
        self.violations = []        # dicts: clause, key, witness, replay
        self.paths = 0; self.ops = 0; self.queries = 0; self.solver_s = 0.0
        self.nontrivial = 0
        self.samples = []; self.bounds = {}; self.not_explored = []; self.assumptions = []
        self.functions = collections.Counter(); self.models = collections.Counter()
        self.scenarios = []
        self.kani_results = []
        self.replayed = 0
        self.mir_info = None
        self.notes = {}
        self.explanations = []

    # ---------------------------------------------------------------- engine M
    def engine(self):
        if self._engine is None:
            from mirsym.engine import load_engine
            path, srchash, dt = overlay.mir_dump()
            self.mir_info = {'mir': path, 'source_sha256': srchash, 'dump_s': round(dt, 1)}
            self._engine = load_engine(path, overlay.CRATE)
        return self._engine

    def fresh_engine(self):
        """a new Engine over the same MIR index (cheap) - used to isolate statistics per scenario"""
        from mirsym.engine import Engine
        base = self.engine()
        return Engine(base.mir, base.src)

    def explore(self, name, scenario, max_paths=20000, time_limit=None, allow_panic=None, engine_setup=None, budget_violation=None, soft=False):
        """run a scenario function under the executor; the scenario calls ctx.require(...) itself.
        Panic paths are violations of clause 'no-panic' unless allow_panic(path) says the panic is expected."""
        e = self.fresh_engine()
        if engine_setup: engine_setup(e)
        e.ctx = self
        t0 = time.time()
        # soft: in the thorough tier a scenario that runs out of its time / path budget or gets `unknown` from the solver is
        # recorded as not explored (evidence) and the other scenarios go on; in the quick tier it makes the check inconclusive
        soft = soft and self.tier != 'quick'
        try:
            res = e.explore(scenario, max_paths=max_paths, time_limit=time_limit, slim=True)
        except Unmodelled as u:
            if soft and 'solver returned unknown' in str(u):
                self.not_explored.append('scenario %s: solver gave no answer within its cap (%s)' % (name, str(u)[:80])); return []
            raise Inconclusive('scenario %s: unmodelled: %s @ %s' % (name, u, getattr(u, 'mir_where', '')))
        except Budget as b:
            if soft:
                self.not_explored.append('scenario %s: %s' % (name, b)); return []
            raise Inconclusive('scenario %s: %s' % (name, b))
        for p in res:
            if p.kind == 'panic':
                if allow_panic and allow_panic(p): continue
                self.obligations += 1
                m = e.model_of(p)
                wit = {'panic': p.msg, 'where': p.where, 'inputs': self._model_inputs(m)}
                slug = re.sub(r'[^a-z]+', '-', (p.msg or '').lower().replace('assertion failed:', '').replace('attempt to compute', '').replace('which would overflow', 'overflow'))[:40].strip('-')
                rp = p.notes.get('replay')
                if p.notes.get('replay_fn') and m is not None:
                    try: rp = p.notes['replay_fn'](m)
                    except Exception as ex:
                        print('[replay_fn] %s: %s' % (type(ex).__name__, ex), file=sys.stderr); rp = None
                self.violations.append({'clause': 'no-panic', 'key': 'panic:' + (p.where or '').split(' <- ')[0] + ':' + slug, 'scenario': name,
                                        'witness': wit, 'replay': rp})
            elif p.kind == 'budget':
                if budget_violation and 'loop budget' in (p.msg or ''):
                    # a loop whose trip count is still solver-controlled after the budget: unbounded in the input size
                    self.obligations += 1
                    # prefer a witness whose numeric inputs are far beyond the request size (convincing natively)
                    m = None
                    import z3 as _z3
                    nums = {}
                    for c in p.pc:
                        for v in _vars_of(c):
                            if _z3.is_bv(v) and v.size() == 64: nums[v.decl().name()] = v
                    for thr in (1 << 40, 1 << 24):
                        try: m = e.model_of(p, extra=[_z3.And(_z3.UGT(v, thr), _z3.ULT(v, 1 << 62)) for v in nums.values()]) if nums else None
                        except Unmodelled: m = None
                        if m is not None: break
                    if m is None: m = e.model_of(p)
                    wit = {'budget': p.msg, 'where': p.where, 'inputs': self._model_inputs(m)}
                    rp = p.notes.get('replay')
                    if p.notes.get('replay_fn') and m is not None:
                        try: rp = p.notes['replay_fn'](m)
                        except Exception: rp = None
                    self.violations.append({'clause': 'time-bounded-by-request-size', 'key': budget_violation + ':' + (p.where or '').split(' <- ')[0],
                                            'scenario': name, 'witness': wit, 'replay': rp})
                    continue
                raise Inconclusive('scenario %s: %s @ %s' % (name, p.msg, p.where))
        self.paths += len(res); self.queries += e.stats['queries']; self.solver_s += e.solver_s
        self.nontrivial += sum(1 for p in res if p.decisions or p.pc)
        self.functions.update(e.funcs_run); self.models.update(e.models_used)
        self.scenarios.append({'name': name, 'paths': len(res), 'queries': e.stats['queries'], 'calls': e.stats['calls'],
                               's': round(time.time() - t0, 2)})
        return res

    def _model_inputs(self, m):
        if m is None: return {}
        out = {}
        for d in m.decls():
            v = m[d]
            try: out[d.name()] = v.as_long()
            except Exception: out[d.name()] = str(v)
        return out

    def require(self, e, clause, formula, key=None, witness=None, replay=None, assuming=()):
        """obligation: `formula` must hold on the current path for every value of the symbolic inputs"""
        from mirsym.values import znot
        self.obligations += 1
        if formula is True: self.discharged += 1; return True
        sat, m = e.check_sat(*(list(assuming) + [znot(formula)])) if formula is not False else e.check_sat(*assuming)
        if not sat:
            self.discharged += 1; return True
        wit = witness(m) if witness else {}
        if not isinstance(wit, dict): wit = {'value': wit}
        wit.setdefault('inputs', self._model_inputs(m))
        rp = replay(m) if callable(replay) else replay
        self.violations.append({'clause': clause, 'key': key or clause, 'witness': wit, 'replay': rp})
        return False

    # ---------------------------------------------------------------- parallel sub-runs (fork)
    def export(self):
        return {'obligations': self.obligations, 'discharged': self.discharged, 'violations': self.violations,
                'paths': self.paths, 'ops': self.ops, 'queries': self.queries, 'solver_s': self.solver_s,
                'nontrivial': self.nontrivial, 'samples': self.samples, 'functions': dict(self.functions),
                'models': dict(self.models), 'scenarios': self.scenarios, 'not_explored': self.not_explored}

    def merge(self, d):
        self.obligations += d['obligations']; self.discharged += d['discharged']; self.violations += d['violations']
        self.paths += d['paths']; self.ops += d['ops']; self.queries += d['queries']; self.solver_s += d['solver_s']
        self.nontrivial += d['nontrivial']
        for x in d['samples']: self.sample(x)
        self.functions.update(d['functions']); self.models.update(d['models']); self.scenarios += d['scenarios']
        self.not_explored += d['not_explored']

    def run_parallel(self, jobs, worker, nproc=None):
        """worker(sub_ctx, job) runs in a forked child with its own accumulators; results are merged"""
        import multiprocessing as mp
        self.engine()      # load before forking (shared copy-on-write)
        nproc = nproc or min(len(jobs), int(os.environ.get('VERIF_JOBS', '14')))
        if nproc <= 1 or len(jobs) <= 1:
            for j in jobs: worker(self, j)
            return
        global _PAR
        _PAR = (self, worker)
        # the thorough tier has an overall wall budget (VERIF_THOROUGH_BUDGET_S, default 1 h per check): jobs that have not
        # finished by then are recorded as not explored - never as passed
        deadline = self.t0 + float(os.environ.get('VERIF_THOROUGH_BUDGET_S', '3600')) if self.tier != 'quick' else None
        with mp.get_context('fork').Pool(nproc) as pool:
            it = pool.imap_unordered(_par_entry, jobs); done = 0
            while done < len(jobs):
                try:
                    res = it.next(timeout=None if deadline is None else max(1.0, deadline - time.time()))
                except StopIteration:
                    break
                except mp.TimeoutError:
                    self.not_explored.append('%d of %d scenario jobs not finished within the thorough wall budget (%s s): %s ...' % (
                        len(jobs) - done, len(jobs), os.environ.get('VERIF_THOROUGH_BUDGET_S', '3600'), str(jobs[-1])[:120]))
                    pool.terminate(); break
                done += 1
                if 'error' in res:
                    if self.tier != 'quick' and 'memory limit' in res['error']:
                        self.not_explored.append(res['error']); continue
                    raise Inconclusive(res['error'])
                self.merge(res)

    def fresh_point(self, e):
        """False while the executor is still replaying a decision prefix that an earlier path already went through
        (depth-first by re-execution): oracle checks at such points were already done with the same path condition"""
        return e.pos >= len(e.decisions)

    def require_all(self, e, items, assuming=(), replay=None):
        """items: [(clause, key, formula, witness_fn)] - one solver query for the conjunction; on failure the
        violated clauses are identified under the model"""
        from mirsym.values import znot, zor, zbool
        import z3
        items = [it for it in items]
        self.obligations += len(items)
        neg = []
        for cl, key, f, w in items:
            if f is True: continue
            neg.append(znot(f))
        if not neg:
            self.discharged += len(items); return True
        sat, m = e.check_sat(*(list(assuming) + [zor(neg)]))
        if not sat:
            self.discharged += len(items); return True
        for cl, key, f, w in items:
            if f is True: self.discharged += 1; continue
            holds = f is not False and z3.is_true(m.eval(zbool(f), model_completion=True))
            if holds: self.discharged += 1; continue
            wit = w(m) if w else {}
            if not isinstance(wit, dict): wit = {'value': wit}
            wit.setdefault('inputs', self._model_inputs(m))
            rp = replay(m) if callable(replay) else replay
            self.violations.append({'clause': cl, 'key': key, 'witness': wit, 'replay': rp})
        return False

    def sample(self, x):
        if len(self.samples) < 12: self.samples.append(x)

    # ---------------------------------------------------------------- finish
    def finish(self, level='model_checking'):
        known = load_known(self.pid)
        rc = 0; lines = []; inconclusive = False
        reported = set()
        viols_out = []
        rdir = os.path.join(VERIF, 'replays', self.pid)
        for v in self.violations:
            k = v['key']
            if k in reported: continue
            reported.add(k)
            # native replay (if the property module provided one)
            rep = v.get('replay')
            status = 'not-replayed'
            if rep is not None:
                os.makedirs(rdir, exist_ok=True)
                ok = run_replay(self.pid, rep, k)
                if ok is True: status = 'reproduced'; self.replayed += 1
                elif ok is False: status = 'NOT-reproduced'
            os.makedirs(rdir, exist_ok=True)
            path = os.path.join(rdir, hashlib.sha1(k.encode()).hexdigest()[:12] + '.json')
            with open(path, 'w') as f:
                json.dump({'property': self.pid, 'clause': v['clause'], 'key': k, 'witness': v['witness'], 'replay': rep,
                           'native_replay': status}, f, indent=1, default=str)
            viols_out.append({'clause': v['clause'], 'key': k, 'native_replay': status, 'path': path})
            if status == 'NOT-reproduced':
                lines.append('INCONCLUSIVE property=%s counterexample does not reproduce natively: %s (%s)' % (self.pid, k, path))
                inconclusive = True; continue
            kf = [x for x in known if x.get('status', 'known') == 'known' and key_matches(x['key'], k)]
            if kf:
                lines.append('KNOWN-FINDING: property=%s %s [%s]' % (self.pid, kf[0].get('what', k), k))
            else:
                lines.append('VIOLATION property=%s replay=%s' % (self.pid, path))
                lines.append('  clause=%s key=%s witness=%s' % (v['clause'], k, json.dumps(v['witness'], default=str)[:600]))
                rc = 1
        if rc == 0 and inconclusive: rc = 2
        for l in lines: print(l)
        ev = {
            'property_id': self.pid, 'tier': self.tier, 'seed': self.seed, 'level': level,
            'coverage': {
                'states': max(self.paths, 0), 'transitions': max(self.ops, 0),
                'traces_validated_against_impl': self.replayed,
                'samples': self.samples or ['(no sample recorded)'],
                'evaluations': self.queries + len(self.kani_results),
                'distinct_nontrivial': self.nontrivial + sum(1 for k in self.kani_results if k.get('status') == 'SUCCESS'),
                'rule': 'a case is one symbolic path of the executor (a class of inputs sharing all branch outcomes) or one Kani harness; '
                        'non-trivial = the path took at least one solver-decided branch or carried symbolic constraints; '
                        'states = path-end symbolic states checked, transitions = real API operations / entry calls executed symbolically',
                'obligations': self.obligations + len(self.kani_results), 'discharged': self.discharged + sum(1 for k in self.kani_results if k.get('status') == 'SUCCESS'),
                'solver_s': round(self.solver_s, 2),
                'bounds': self.bounds, 'not_explored': self.not_explored,
                'scenarios': self.scenarios[:60], 'kani': self.kani_results,
                'functions_encoded': sorted(self.functions)[:400], 'functions_encoded_n': len(self.functions),
                'models_used': sorted(self.models)[:300],
                'mir': self.mir_info, 'violations': viols_out, 'notes': self.notes,
                'trusted_base': ['rustc nightly -Zunpretty=mir dump of the overlay copy of /repo', 'mirsym interpreter + std model library (validated by the conformance suite)',
                                 'z3 ' + _z3_version(), 'Kani 0.68 / CBMC 6.11 (kernels)', 'backtrace stub crate in the overlay'],
            },
            'assumptions': self.assumptions,
            'wall_s': round(time.time() - self.t0, 2),
            'violations': len(viols_out),
        }
        if ev['coverage']['states'] < 1: ev['coverage']['states'] = 1
        if ev['coverage']['transitions'] < 1: ev['coverage']['transitions'] = 1
        os.makedirs(os.path.join(VERIF, 'evidence'), exist_ok=True)
        with open(os.path.join(VERIF, 'evidence', self.pid + '.json'), 'w') as f:
            json.dump(ev, f, indent=1, default=str)
        return rc


_PAR = None


def _vars_of(expr, seen=None):
    import z3
    seen = set() if seen is None else seen
    out = []
    stack = [expr]
    while stack:
        x = stack.pop()
        if x.get_id() in seen: continue
        seen.add(x.get_id())
        if z3.is_const(x) and x.decl().kind() == z3.Z3_OP_UNINTERPRETED: out.append(x)
        else: stack.extend(x.children())
    return out


def _limit_memory(gb):
    """a runaway exploration must fail in its own process (MemoryError -> inconclusive), not take the machine down"""
    try:
        import resource
        lim = int(gb * (1 << 30))
        resource.setrlimit(resource.RLIMIT_AS, (lim, lim))
    except Exception:
        pass


def _par_entry(job):
    parent, worker = _PAR
    _limit_memory(float(os.environ.get('VERIF_WORKER_GB', '6')))
    sub = Ctx(parent.pid, parent.tier, parent.seed)
    sub._engine = parent._engine; sub.mir_info = parent.mir_info
    try:
        worker(sub, job)
    except Inconclusive as ex:
        return {'error': str(ex)}
    except (Unmodelled, Budget) as ex:
        return {'error': '%s @ %s' % (ex, getattr(ex, 'mir_where', ''))}
    except MemoryError:
        return {'error': 'worker exceeded its memory limit on job %s' % (str(job)[:200],)}
    except Exception as ex:
        return {'error': 'internal %s: %s\n%s' % (type(ex).__name__, ex, traceback.format_exc()[-1500:])}
    out = sub.export()
    return json.loads(json.dumps(out, default=str))


def _z3_version():
    try:
        import z3; return z3.get_version_string()
    except Exception: return '?'


def load_known(pid):
    p = os.path.join(VERIF, 'known_findings.json')
    if not os.path.exists(p): return []
    return [x for x in json.load(open(p)).get('findings', []) if x.get('property') == pid]


def key_matches(pattern, key):
    import fnmatch
    return pattern == key or fnmatch.fnmatchcase(key, pattern)


def run_replay(pid, rep, key=None):
    """rep: {'kind': ..., ...}; dispatch to vlib.replay"""
    try:
        from vlib import replay
        return replay.run(pid, rep, key)
    except Exception as ex:
        print('[replay] error: %s' % ex, file=sys.stderr)
        return None


def main(argv):
    if not argv: print(__doc__); return 2
    pid = argv[0]; tier = os.environ.get('VERIF_TIER', 'quick'); rp = None
    i = 1
    while i < len(argv):
        if argv[i] == '--tier': tier = argv[i + 1]; i += 2
        elif argv[i] == '--replay': rp = argv[i + 1]; i += 2
        else: i += 1
    seed = int(os.environ.get('VERIF_SEED', '0') or 0)
    if rp:
        d = json.load(open(rp))
        ok = run_replay(pid, d.get('replay'), d.get('key')) if d.get('replay') else None
        print('replay of %s: %s' % (rp, {True: 'reproduced', False: 'NOT reproduced', None: 'no native replay available for this witness'}[ok]))
        print(json.dumps(d.get('witness'), indent=1, default=str)[:3000])
        return 1 if ok else 0
    # per-query solver cap: 60 s quick, 600 s thorough (an `unknown` answer makes the run inconclusive, never a pass)
    os.environ.setdefault('VERIF_SOLVER_TIMEOUT_MS', '60000' if tier == 'quick' else '600000')
    ctx = Ctx(pid, tier, seed)
    try:
        mod = importlib.import_module('props.' + pid)
        mod.run(ctx)
        rc = ctx.finish(getattr(mod, 'LEVEL', 'model_checking'))
    except Inconclusive as ex:
        print('INCONCLUSIVE property=%s %s' % (pid, ex))
        ctx.not_explored.append(str(ex)); ctx.finish(); return 2
    except (Unmodelled, Budget) as ex:
        print('INCONCLUSIVE property=%s %s @ %s' % (pid, ex, getattr(ex, 'mir_where', '')))
        ctx.not_explored.append(str(ex)); ctx.finish(); return 2
    except Exception as ex:
        traceback.print_exc()
        print('INCONCLUSIVE property=%s internal error %s: %s' % (pid, type(ex).__name__, ex))
        return 2
    print('%s %s: %d obligations, %d discharged, %d paths, %d solver queries (%.1fs solver), %d violation key(s), %.1fs'
          % (pid, tier, ctx.obligations + len(ctx.kani_results), ctx.discharged + sum(1 for k in ctx.kani_results if k.get('status') == 'SUCCESS'),
             ctx.paths, ctx.queries, ctx.solver_s, len(set(v['key'] for v in ctx.violations)), time.time() - ctx.t0))
    return rc


if __name__ == '__main__':
    sys.exit(main(sys.argv[1:]))
