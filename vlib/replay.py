"""Native replay of counterexamples against the real code (repository toolchain, overlay copy of /repo with the
/verif/replay/*.rs child modules enabled by --cfg undermoon_verif_replay)."""
import os, json, subprocess, tempfile, sys, re
from vlib import overlay


def cargo_test(filter_, env_extra, release=False, timeout=1500):
    overlay.sync()
    env = dict(overlay.ENV)
    env['RUSTFLAGS'] = (env.get('RUSTFLAGS', '') + ' --cfg undermoon_verif_replay -Awarnings').strip()
    env.update(env_extra)
    cmd = ['cargo', '+stable', 'test', '--offline', '--lib', '--target-dir', os.path.join(overlay.W, 'target-replay')]
    if release: cmd.append('--release')
    cmd += [filter_, '--', '--nocapture', '--test-threads', '1']
    with overlay.Lock('replay.lock'):
        # own process group: on a timeout the test binary (a grandchild) is killed too, not only cargo
        p = subprocess.Popen(cmd, cwd=overlay.CRATE, env=env, stdout=subprocess.PIPE, stderr=subprocess.STDOUT, start_new_session=True)
        try:
            out, _ = p.communicate(timeout=timeout)
        except subprocess.TimeoutExpired:
            import signal
            try: os.killpg(p.pid, signal.SIGKILL)
            except ProcessLookupError: pass
            p.wait()
            raise
    return p.returncode, out.decode(errors='replace')


def run(pid, rep, key=None):
    """True: reproduced natively; False: does not reproduce; None: no native replay possible"""
    if not rep: return None
    kind = rep.get('kind')
    if kind == 'broker':
        d = os.path.join(overlay.W, 'replay-in'); os.makedirs(d, exist_ok=True)
        fd, path = tempfile.mkstemp(suffix='.json', dir=d); os.close(fd)
        json.dump(rep['spec'], open(path, 'w'))
        # the violated clause: first two components of the key, e.g. C01/cluster-view or C06/readdressed-...
        want = [pid + '/']
        if key:
            parts = key.split('/')
            want = ['/'.join(parts[:2])] if len(parts) >= 2 else [key]
        ran = False; hit = False; outs = []
        # std HashMap iteration order is random per process: allocation-dependent witnesses may need several runs
        for attempt in range(int(rep.get('retries', 1))):
            rc, out = cargo_test('verif_replay_broker', {'VERIF_REPLAY_FILE': path})
            lines = [l[l.index('VERIF-REPLAY:'):] for l in out.splitlines() if 'VERIF-REPLAY:' in l]
            outs = lines
            if any('done' in l for l in lines) or any('violated' in l for l in lines): ran = True
            else:
                print('[replay] native replay did not run:\n' + out[-2500:], file=sys.stderr); break
            if any('violated' in l and (any(w in l for w in want) or 'no-panic' in l) for l in lines):
                hit = True; break
        os.remove(path)
        rep['native_output'] = outs[-12:]
        if not ran: return None
        return hit
    if kind == 'rust-test':
        env = dict(rep.get('env', {}))
        if 'spec' in rep:
            d = os.path.join(overlay.W, 'replay-in'); os.makedirs(d, exist_ok=True)
            fd, path = tempfile.mkstemp(suffix='.json', dir=d); os.close(fd)
            json.dump(rep['spec'], open(path, 'w')); env['VERIF_REPLAY_FILE'] = path
        rc, out = cargo_test(rep['filter'], env)
        lines = [l[l.index('VERIF-REPLAY:'):] for l in out.splitlines() if 'VERIF-REPLAY:' in l]
        rep['native_output'] = lines[-12:]
        if not lines:
            print('[replay] native replay did not run:\n' + out[-2500:], file=sys.stderr)
            return None
        return any('violated' in l for l in lines)
    return None
