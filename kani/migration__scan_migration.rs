// Kani harnesses (engine K) for C19: the real PTTL conversion with the real btoi crate, against a reference
// transcription of Redis' integer reply grammar.
use super::*;

// reference: value of a canonical decimal integer reply (-?[1-9][0-9]* | 0), None otherwise
fn canonical(b: &[u8]) -> Option<i64> {
    let (neg, d) = if !b.is_empty() && b[0] == b'-' { (true, &b[1..]) } else { (false, b) };
    if d.is_empty() {
        return None;
    }
    if d.len() > 1 && d[0] == b'0' {
        return None;
    }
    if neg && d.len() == 1 && d[0] == b'0' {
        return None;
    }
    let mut v: i64 = 0;
    let mut i = 0;
    while i < d.len() {
        let c = d[i];
        if c < b'0' || c > b'9' {
            return None;
        }
        v = v * 10 + (c - b'0') as i64;
        i += 1;
    }
    Some(if neg { -v } else { v })
}

fn check(len: usize, bytes: [u8; 5]) {
    let input = &bytes[..len];
    let no_expire = pttl_need_to_be_no_expire(input);
    match canonical(input) {
        Some(n) if n >= 1 => assert!(!no_expire), // remaining ttl is kept
        Some(n) if n < 0 => assert!(no_expire),   // -1 persistent stays persistent
        Some(_) => assert!(!no_expire),           // 0: handled by the caller (smallest ttl)
        None => (),
    }
    kani::cover!(canonical(input) == Some(-1));
    kani::cover!(no_expire && canonical(input).is_none());
}

#[kani::proof]
#[kani::unwind(7)]
fn pttl_matches_reference_len3() {
    let len: usize = kani::any();
    kani::assume(len <= 3);
    check(len, kani::any());
}

#[kani::proof]
#[kani::unwind(7)]
fn pttl_matches_reference_len4() {
    let len: usize = kani::any();
    kani::assume(len <= 4);
    check(len, kani::any());
}

#[kani::proof]
#[kani::unwind(8)]
fn pttl_matches_reference_len5() {
    let len: usize = kani::any();
    kani::assume(len <= 5);
    check(len, kani::any());
}

// vacuity witness: must FAIL
#[kani::proof]
#[kani::unwind(7)]
fn pttl_vacuity_witness() {
    let len: usize = kani::any();
    kani::assume(len <= 3);
    let bytes: [u8; 5] = kani::any();
    let _ = pttl_need_to_be_no_expire(&bytes[..len]);
    assert!(false);
}
