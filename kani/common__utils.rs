// Kani harnesses (engine K) for C09: hash tag extraction against the Redis Cluster rule and the crc16 crate's XMODEM
// table against the bit-serial polynomial definition (poly 0x1021, init 0).
use super::*;

// reference: Redis Cluster hash tag rule. Returns (start, len) of the hashed part.
fn tag_reference(key: &[u8]) -> (usize, usize) {
    let mut i = 0;
    while i < key.len() {
        if key[i] == b'{' {
            let mut j = i + 1;
            while j < key.len() {
                if key[j] == b'}' {
                    if j == i + 1 {
                        return (0, key.len());
                    }
                    return (i + 1, j - i - 1);
                }
                j += 1;
            }
            return (0, key.len());
        }
        i += 1;
    }
    (0, key.len())
}

fn check_tag(len: usize, bytes: [u8; 8]) {
    let key = &bytes[..len];
    let tag = get_hash_tag(key);
    let (s, l) = tag_reference(key);
    assert!(tag.len() == l);
    assert!(tag.as_ptr() == key[s..].as_ptr());
    kani::cover!(l < len && l > 0);
}

#[kani::proof]
#[kani::unwind(8)]
fn hash_tag_matches_redis_rule_len6() {
    let len: usize = kani::any();
    kani::assume(len <= 6);
    check_tag(len, kani::any());
}

#[kani::proof]
#[kani::unwind(10)]
fn hash_tag_matches_redis_rule_len8() {
    let len: usize = kani::any();
    kani::assume(len <= 8);
    check_tag(len, kani::any());
}

fn crc16_xmodem_bitwise(data: &[u8]) -> u16 {
    let mut crc: u16 = 0;
    let mut i = 0;
    while i < data.len() {
        crc ^= (data[i] as u16) << 8;
        let mut b = 0;
        while b < 8 {
            crc = if crc & 0x8000 != 0 { (crc << 1) ^ 0x1021 } else { crc << 1 };
            b += 1;
        }
        i += 1;
    }
    crc
}

#[kani::proof]
#[kani::unwind(20)]
fn slot_is_crc16_xmodem_mod_16384_len2() {
    let len: usize = kani::any();
    kani::assume(len <= 2);
    let bytes: [u8; 2] = kani::any();
    kani::assume(bytes[0] != b'{' && bytes[1] != b'{');
    let key = &bytes[..len];
    assert!(generate_slot(key) == (crc16_xmodem_bitwise(key) as usize) % 16384);
}

// vacuity witness: must FAIL
#[kani::proof]
#[kani::unwind(8)]
fn hash_tag_vacuity_witness() {
    let len: usize = kani::any();
    kani::assume(len <= 3);
    let bytes: [u8; 8] = kani::any();
    let _ = get_hash_tag(&bytes[..len]);
    assert!(false);
}
