#[derive(Debug, Default, Clone)]
pub struct Backtrace;
impl Backtrace { pub fn new() -> Self { Backtrace } }
