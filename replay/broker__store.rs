// Native replay of broker counterexamples found by the MIR executor (injected as a child module of
// src/broker/store.rs in the overlay copy only; compiled under `--cfg undermoon_verif_replay`).
// Input: JSON file named by VERIF_REPLAY_FILE: {"store": <MetaStore>, "ops": [{"op": name, "args": [...]}],
//        "oracles": ["partition","epoch","metadata",...], "limits": [0,1], "cluster": "c1"}
// Output lines: "VERIF-REPLAY: violated <key> <detail>" / "VERIF-REPLAY: done".
use super::*;
use crate::common::cluster::{Proxy, Role};
use crate::common::utils::SLOT_NUM;
use serde_json::Value;
use std::collections::HashMap;

fn owning(slots: &[SlotRange], slot: usize) -> usize {
    slots
        .iter()
        .filter(|sr| !matches!(sr.tag, SlotRangeTag::Importing(_)))
        .filter(|sr| sr.get_range_list().get_ranges().iter().any(|r| r.start() <= slot && slot <= r.end()))
        .count()
}

fn twins(all: &[(String, String, bool, SlotRange)], out: &mut Vec<String>, what: &str) {
    // (node address or "", proxy address, is_master, slot range)
    for (na, pa, _m, sr) in all.iter() {
        if let SlotRangeTag::Migrating(meta) = &sr.tag {
            let n = all
                .iter()
                .filter(|(_, _, _, t)| matches!(&t.tag, SlotRangeTag::Importing(m2) if m2 == meta) && t.range_list == sr.range_list)
                .count();
            if n != 1 {
                out.push(format!("{}/migrating-has-one-importing-twin n={}", what, n));
            }
            if !na.is_empty() && (&meta.src_node_address != na || &meta.src_proxy_address != pa) {
                out.push(format!("{}/migrating-sits-on-src-node", what));
            }
        }
        if let SlotRangeTag::Importing(meta) = &sr.tag {
            let n = all
                .iter()
                .filter(|(_, _, _, t)| matches!(&t.tag, SlotRangeTag::Migrating(m2) if m2 == meta) && t.range_list == sr.range_list)
                .count();
            if n != 1 {
                out.push(format!("{}/importing-has-one-migrating-twin n={}", what, n));
            }
            if (!na.is_empty() && &meta.dst_node_address != na) || &meta.dst_proxy_address != pa || !*_m {
                out.push(format!("{}/importing-twin-on-dst-master", what));
            }
        }
    }
}

fn partition_violations(store: &MetaStore, cluster: &str, limits: &[u64]) -> Vec<String> {
    let mut out = vec![];
    for &limit in limits {
        if let Some(c) = store.get_cluster_by_name(cluster, limit) {
            let mut all = vec![];
            for n in c.get_nodes() {
                let master = n.get_role() == Role::Master;
                if !master && !n.get_slots().is_empty() {
                    out.push("C01/cluster-view/replica-owns-nothing".to_string());
                }
                for sr in n.get_slots() {
                    for r in sr.get_range_list().get_ranges() {
                        if r.start() > r.end() || r.end() >= SLOT_NUM {
                            out.push("C01/cluster-view/range-wellformed".to_string());
                        }
                    }
                    all.push((n.get_address().to_string(), n.get_proxy_address().to_string(), master, sr.clone()));
                }
            }
            for slot in 0..SLOT_NUM {
                let cnt: usize = c.get_nodes().iter().filter(|n| n.get_role() == Role::Master).map(|n| owning(n.get_slots(), slot)).sum();
                if cnt != 1 {
                    out.push(format!("C01/cluster-view/slot-owned-exactly-once slot={} owners={} limit={}", slot, cnt, limit));
                    break;
                }
            }
            twins(&all, &mut out, "C01/cluster-view");
        }
        for addr in store.get_proxies() {
            let p = match store.get_proxy_by_address(&addr, limit) {
                Some(p) => p,
                None => continue,
            };
            if p.get_cluster_name().is_none() {
                continue;
            }
            let nodes = p.get_nodes();
            let mut all = vec![];
            for n in nodes.iter() {
                let master = n.get_role() == Role::Master;
                if !master && !n.get_slots().is_empty() {
                    out.push("C01/proxy-view/replica-owns-nothing".to_string());
                }
                for sr in n.get_slots() {
                    all.push((n.get_address().to_string(), n.get_proxy_address().to_string(), master, sr.clone()));
                }
            }
            for peer in p.get_peers() {
                for sr in peer.slots.iter() {
                    all.push((String::new(), peer.proxy_address.clone(), true, sr.clone()));
                }
            }
            for slot in 0..SLOT_NUM {
                let mut cnt: usize = nodes.iter().filter(|n| n.get_role() == Role::Master).map(|n| owning(n.get_slots(), slot)).sum();
                cnt += p.get_peers().iter().map(|q| owning(&q.slots, slot)).sum::<usize>();
                if cnt != 1 {
                    out.push(format!("C01/proxy-view/slot-owned-exactly-once slot={} owners={} proxy={} limit={}", slot, cnt, addr, limit));
                    break;
                }
            }
            twins(&all, &mut out, "C01/proxy-view");
        }
    }
    out
}

fn proxy_eq_except_epoch(a: &Proxy, b: &Proxy) -> bool {
    a.get_cluster_name() == b.get_cluster_name()
        && a.get_address() == b.get_address()
        && a.clone().into_nodes() == b.clone().into_nodes()
        && a.get_peers() == b.get_peers()
        && a.get_cluster_config() == b.get_cluster_config()
}

fn epoch_violations(pre: &MetaStore, post: &MetaStore, limits: &[u64]) -> Vec<String> {
    let mut out = vec![];
    if post.get_global_epoch() < pre.get_global_epoch() {
        out.push("C04/global-epoch-decreased".to_string());
    }
    for addr in pre.get_proxies() {
        for &limit in limits {
            let (a, b) = match (pre.get_proxy_by_address(&addr, limit), post.get_proxy_by_address(&addr, limit)) {
                (Some(a), Some(b)) => (a, b),
                _ => continue,
            };
            if b.get_epoch() < a.get_epoch() {
                out.push(format!("C04/served-epoch-decreased proxy={} limit={} {}->{}", addr, limit, a.get_epoch(), b.get_epoch()));
            }
            if !proxy_eq_except_epoch(&a, &b) && b.get_epoch() <= a.get_epoch() {
                out.push(format!("C04/view-changed-without-newer-epoch proxy={} limit={} {}->{}", addr, limit, a.get_epoch(), b.get_epoch()));
            }
        }
    }
    out
}

fn balanced_violations(store: &MetaStore, cluster: &str, owning_chunks: usize) -> Vec<String> {
    let mut out = vec![];
    let name = ClusterName::try_from(cluster).expect("cluster name");
    let c = match store.clusters.get(&name) {
        Some(c) => c,
        None => return vec!["C10/cluster-missing".to_string()],
    };
    let m = owning_chunks * 2;
    let avg = SLOT_NUM / m;
    let rem = SLOT_NUM % m;
    for (ci, ch) in c.chunks.iter().enumerate() {
        for part in 0..2 {
            let h = ci * 2 + part;
            if !ch.migrating_slots[part].is_empty() {
                out.push("C10/pending-migration-left".to_string());
            }
            match &ch.stable_slots[part] {
                Some(sr) if h < m => {
                    let n = sr.get_range_list().get_slots_num();
                    if n != avg + if h < rem { 1 } else { 0 } {
                        out.push(format!("C10/unbalanced half={} slots={}", h, n));
                    }
                    let rs = sr.get_range_list().get_ranges();
                    for w in rs.windows(2) {
                        if w[0].end() + 1 >= w[1].start() {
                            out.push("C10/not-compact".to_string());
                        }
                    }
                }
                Some(_) => out.push(format!("C10/trailing-chunk-owns-slots half={}", h)),
                None if h < m => out.push(format!("C10/owning-half-empty half={}", h)),
                None => (),
            }
        }
    }
    out
}

fn host_violations(pre: &MetaStore, post: &MetaStore, opname: &str) -> Vec<String> {
    // chunks created by cluster creation / scale-out span two hosts (allocation algorithm only, not ordered mode)
    let mut out = vec![];
    if post.enable_ordered_proxy || !(opname == "add_cluster" || opname == "auto_add_nodes" || opname == "auto_scale_up_nodes") {
        return out;
    }
    for (name, c) in post.clusters.iter() {
        let before = pre.clusters.get(name).map(|c| c.chunks.len()).unwrap_or(0);
        for ch in c.chunks.iter().skip(before) {
            if ch.hosts[0] == ch.hosts[1] {
                out.push(format!("C12/chunk-on-one-host {:?}", ch.proxy_addresses));
            }
        }
    }
    out
}

fn replacement_violations(pre: &MetaStore, post: &MetaStore, failed: &str, result: &str) -> Vec<String> {
    let mut out = vec![];
    let cluster = match pre.all_proxies.get(failed).and_then(|p| p.cluster.clone()) {
        Some(c) => c,
        None => return out,
    };
    let mut partner_host = None;
    if let Some(c) = pre.clusters.get(&cluster) {
        for ch in c.chunks.iter() {
            if ch.proxy_addresses[0] == failed {
                partner_host = Some(ch.hosts[1].clone());
            } else if ch.proxy_addresses[1] == failed {
                partner_host = Some(ch.hosts[0].clone());
            }
        }
    }
    let partner_host = match partner_host {
        Some(h) => h,
        None => return out,
    };
    let candidates: Vec<&ProxyResource> = pre
        .all_proxies
        .values()
        .filter(|p| p.cluster.is_none() && !pre.failed_proxies.contains(&p.proxy_address) && !pre.failures.contains_key(&p.proxy_address) && p.host != partner_host)
        .collect();
    if candidates.is_empty() {
        return out;
    }
    // which proxy replaced the failed one?
    let mut replacement = None;
    if let (Some(c0), Some(c1)) = (pre.clusters.get(&cluster), post.clusters.get(&cluster)) {
        for (a, b) in c0.chunks.iter().zip(c1.chunks.iter()) {
            for i in 0..2 {
                if a.proxy_addresses[i] == failed && b.proxy_addresses[i] != failed {
                    replacement = Some((b.proxy_addresses[i].clone(), b.hosts[i].clone()));
                }
            }
        }
    }
    match replacement {
        None => out.push(format!("C12/no-replacement-although-free-proxy-on-other-host result={} candidates={:?}", result, candidates.iter().map(|p| &p.proxy_address).collect::<Vec<_>>())),
        Some((addr, host)) => {
            if host == partner_host {
                out.push(format!("C12/replacement-on-partner-host replacement={} candidates={:?}", addr, candidates.iter().map(|p| &p.proxy_address).collect::<Vec<_>>()));
            }
        }
    }
    out
}

fn failover_violations(pre: &MetaStore, post: &MetaStore, cluster: &str, victim: &str) -> Vec<String> {
    let mut out = vec![];
    let (a, b) = match (pre.get_cluster_by_name(cluster, 0), post.get_cluster_by_name(cluster, 0)) {
        (Some(a), Some(b)) => (a, b),
        _ => return out,
    };
    let lists = |n: &Node, importing: bool| -> Vec<(usize, usize)> {
        n.get_slots()
            .iter()
            .filter(|sr| matches!(sr.tag, SlotRangeTag::Importing(_)) == importing)
            .flat_map(|sr| sr.get_range_list().get_ranges().iter().map(|r| (r.start(), r.end())).collect::<Vec<_>>())
            .collect()
    };
    for importing in [false, true] {
        for n in a.get_nodes().iter().filter(|n| n.get_role() == Role::Master) {
            let exp = if n.get_proxy_address() == victim {
                n.get_repl_meta().get_peers().get(0).map(|p| p.node_address.clone()).unwrap_or_default()
            } else {
                n.get_address().to_string()
            };
            let after = b.get_nodes().iter().find(|m| m.get_address() == exp).map(|m| lists(m, importing)).unwrap_or_default();
            for (s0, e0) in lists(n, importing) {
                for slot in s0..=e0 {
                    if !after.iter().any(|(x, y)| *x <= slot && slot <= *y) {
                        out.push(format!("C06/{}-changed-wrongly slot={} expected-node={}", if importing { "importer" } else { "owner" }, slot, exp));
                        break;
                    }
                }
            }
        }
    }
    for n in b.get_nodes() {
        if n.get_proxy_address() == victim && n.get_role() == Role::Master {
            out.push("C06/master-left-on-failed-proxy".to_string());
        }
        if n.get_role() == Role::Master {
            let peers = n.get_repl_meta().get_peers();
            let ok = peers.len() == 1
                && b.get_nodes().iter().any(|m| {
                    m.get_address() == peers[0].node_address
                        && m.get_role() == Role::Replica
                        && m.get_proxy_address() == peers[0].proxy_address
                        && m.get_proxy_address() != n.get_proxy_address()
                        && m.get_repl_meta().get_peers().len() == 1
                        && m.get_repl_meta().get_peers()[0].node_address == n.get_address()
                });
            if !ok {
                out.push(format!("C06/peer-records-inconsistent node={}", n.get_address()));
            }
        }
    }
    let metas = |c: &crate::common::cluster::Cluster| -> Vec<SlotRange> {
        c.get_nodes().iter().flat_map(|n| n.get_slots().iter().cloned().collect::<Vec<_>>()).filter(|sr| sr.tag != SlotRangeTag::None).collect()
    };
    for sr in metas(&a) {
        let twin = metas(&b).into_iter().find(|t| t.range_list == sr.range_list && t.tag.is_migrating() == sr.tag.is_migrating());
        match (twin, sr.tag.get_migration_meta()) {
            (Some(t), Some(m0)) => {
                let m1 = t.tag.get_migration_meta().expect("meta");
                let same = m0.src_proxy_address == m1.src_proxy_address && m0.src_node_address == m1.src_node_address
                    && m0.dst_proxy_address == m1.dst_proxy_address && m0.dst_node_address == m1.dst_node_address;
                if !same && m1.epoch <= a.get_epoch() {
                    out.push(format!("C06/readdressed-migration-keeps-old-epoch ranges={} epoch {}->{} cluster-epoch-before={}", sr.range_list, m0.epoch, m1.epoch, a.get_epoch()));
                }
            }
            (None, _) => out.push("C06/migration-lost".to_string()),
            _ => (),
        }
    }
    out
}

fn rebalance_violations(pre: &MetaStore, post: &MetaStore, cluster: &str, failed: &str) -> Vec<String> {
    // a rebalance while `failed` is still down: no master goes back to it, and the chunk it belongs to keeps its owners
    let mut out = vec![];
    let (a, b) = match (pre.get_cluster_by_name(cluster, 0), post.get_cluster_by_name(cluster, 0)) {
        (Some(a), Some(b)) => (a, b),
        _ => return out,
    };
    for n in b.get_nodes() {
        if n.get_proxy_address() == failed && n.get_role() == Role::Master {
            out.push(format!("C06/rebalance-returns-masters-to-failed-proxy node={}", n.get_address()));
        }
    }
    let owned = |n: &Node| -> Vec<(usize, usize)> {
        n.get_slots()
            .iter()
            .filter(|sr| !matches!(sr.tag, SlotRangeTag::Importing(_)))
            .flat_map(|sr| sr.get_range_list().get_ranges().iter().map(|r| (r.start(), r.end())).collect::<Vec<_>>())
            .collect()
    };
    for n in a.get_nodes() {
        let in_failed_chunk = n.get_proxy_address() == failed || n.get_repl_meta().get_peers().iter().any(|p| p.proxy_address == failed);
        if !in_failed_chunk {
            continue;
        }
        let after = b.get_nodes().iter().find(|m| m.get_address() == n.get_address()).map(owned).unwrap_or_default();
        for (s0, e0) in owned(n) {
            if !after.iter().any(|(x, y)| *x <= s0 && e0 <= *y) {
                out.push(format!("C06/rebalance-moves-slots-of-failed-chunk node={} range={}-{}", n.get_address(), s0, e0));
            }
        }
    }
    out
}

fn s(v: &Value) -> String {
    v.as_str().expect("string arg").to_string()
}

fn apply(store: &mut MetaStore, op: &Value) -> String {
    let name = op["op"].as_str().expect("op name");
    let a = &op["args"];
    match name {
        "add_proxy" => {
            let nodes: [String; 2] = serde_json::from_value(a[1].clone()).expect("nodes");
            let host: Option<String> = serde_json::from_value(a[2].clone()).expect("host");
            let index: Option<usize> = serde_json::from_value(a[3].clone()).expect("index");
            format!("{:?}", store.add_proxy(s(&a[0]), nodes, host, index))
        }
        "add_cluster" => {
            let cfg: ClusterConfig = serde_json::from_value(a[2].clone()).unwrap_or_default();
            format!("{:?}", store.add_cluster(s(&a[0]), a[1].as_u64().unwrap() as usize, cfg))
        }
        "remove_cluster" => format!("{:?}", store.remove_cluster(s(&a[0]))),
        "auto_add_nodes" => format!("{:?}", store.auto_add_nodes(s(&a[0]), a[1].as_u64().unwrap() as usize).map(|n| n.len())),
        "auto_scale_up_nodes" => format!("{:?}", store.auto_scale_up_nodes(s(&a[0]), a[1].as_u64().unwrap() as usize).map(|n| n.len())),
        "auto_delete_free_nodes" => format!("{:?}", store.auto_delete_free_nodes(s(&a[0]))),
        "remove_proxy" => format!("{:?}", store.remove_proxy(s(&a[0]))),
        "migrate_slots" => format!("{:?}", store.migrate_slots(s(&a[0]))),
        "migrate_slots_to_scale_down" => format!("{:?}", store.migrate_slots_to_scale_down(s(&a[0]), a[1].as_u64().unwrap() as usize)),
        "commit_migration" => {
            let task: MigrationTaskMeta = serde_json::from_value(a[0].clone()).expect("task");
            format!("{:?}", store.commit_migration(task, a[1].as_bool().unwrap_or(false)))
        }
        "auto_change_node_number" => format!("{:?}", store.auto_change_node_number(s(&a[0]), a[1].as_u64().unwrap() as usize).map(|r| r.2)),
        "auto_scale_out_node_number" => format!("{:?}", store.auto_scale_out_node_number(s(&a[0]), a[1].as_u64().unwrap() as usize)),
        "replace_failed_proxy" => format!("{:?}", store.replace_failed_proxy(s(&a[0]), a[1].as_u64().unwrap()).map(|p| p.map(|p| p.get_address().to_string()))),
        "change_config" => {
            let cfg: HashMap<String, String> = serde_json::from_value(a[1].clone()).expect("config");
            format!("{:?}", store.change_config(s(&a[0]), cfg))
        }
        "balance_masters" => format!("{:?}", store.balance_masters(s(&a[0]))),
        "add_failure" => format!("{:?}", store.add_failure(s(&a[0]), s(&a[1]))),
        "force_bump_all_epoch" => format!("{:?}", store.force_bump_all_epoch(a[0].as_u64().unwrap())),
        "recover_epoch" => {
            store.recover_epoch(a[0].as_u64().unwrap());
            "()".to_string()
        }
        other => panic!("verif_replay: unknown op {}", other),
    }
}

#[test]
fn verif_replay_broker() {
    let path = match std::env::var("VERIF_REPLAY_FILE") {
        Ok(p) => p,
        Err(_) => return,
    };
    let text = std::fs::read_to_string(&path).expect("read replay file");
    let spec: Value = serde_json::from_str(&text).expect("parse replay file");
    let mut store: MetaStore = serde_json::from_value(spec["store"].clone()).expect("deserialize MetaStore");
    let limits: Vec<u64> = serde_json::from_value(spec["limits"].clone()).unwrap_or_else(|_| vec![0]);
    let oracles: Vec<String> = serde_json::from_value(spec["oracles"].clone()).unwrap_or_default();
    let cluster = spec["cluster"].as_str().unwrap_or("c1").to_string();
    let has = |o: &str| oracles.iter().any(|x| x == o);
    let empty = vec![];
    let ops = spec["ops"].as_array().unwrap_or(&empty);
    let mut step = 0;
    let check = |pre: Option<&MetaStore>, post: &MetaStore, step: usize, opname: &str, op: &Value, result: &str| {
        let mut v = vec![];
        if let Some(pre) = pre {
            if has("hosts") {
                v.extend(host_violations(pre, post, opname));
            }
            if has("failover") && opname == "replace_failed_proxy" {
                v.extend(failover_violations(pre, post, &cluster, op["args"][0].as_str().unwrap_or("")));
            }
            if has("rebalance") && opname == "balance_masters" {
                v.extend(rebalance_violations(pre, post, &cluster, spec["failed_proxy"].as_str().unwrap_or("")));
            }
            if has("replacement") && opname == "replace_failed_proxy" {
                v.extend(replacement_violations(pre, post, op["args"][0].as_str().unwrap_or(""), result));
            }
        }
        if has("recover") && opname == "recover_epoch" {
            // after epoch recovery every served view carries an epoch above the largest epoch any proxy holds
            let largest = spec["largest_proxy_epoch"].as_u64().unwrap_or(0);
            for a in post.all_proxies.keys() {
                for limit in limits.iter() {
                    let served = post.get_proxy_by_address(a, *limit).map(|p| p.get_epoch()).unwrap_or(u64::MAX);
                    if served <= largest {
                        v.push(format!("C13/served-epoch-not-above-largest-proxy-epoch proxy={} limit={} served={} largest={}", a, limit, served, largest));
                    }
                }
            }
            for name in post.clusters.keys() {
                if let Some(c) = post.get_cluster_by_name(&name.to_string(), 0) {
                    if c.get_epoch() <= largest {
                        v.push(format!("C13/cluster-epoch-not-above-largest-proxy-epoch cluster={} served={} largest={}", name, c.get_epoch(), largest));
                    }
                }
            }
        }
        if has("partition") {
            v.extend(partition_violations(post, &cluster, &limits));
        }
        if let Some(pre) = pre {
            if has("epoch") {
                v.extend(epoch_violations(pre, post, &limits));
            }
        }
        if has("metadata") && post.check().is_err() {
            v.push("C12/check-metadata-failed".to_string());
        }
        for x in v {
            println!("VERIF-REPLAY: violated {} [step {} {}]", x, step, opname);
        }
    };
    check(None, &store, 0, "initial", &Value::Null, "");
    for op in ops {
        step += 1;
        let pre = store.clone();
        let res = std::panic::catch_unwind(std::panic::AssertUnwindSafe(|| apply(&mut store, op)));
        let result = match res {
            Ok(r) => {
                println!("VERIF-REPLAY: op {} {} -> {}", step, op["op"], r);
                r
            }
            Err(_) => {
                println!("VERIF-REPLAY: violated no-panic [step {} {}]", step, op["op"]);
                break;
            }
        };
        if let Some(exp) = op["expect"].as_str() {
            // the check that produced this replay expects this outcome of the real call (e.g. a stale commit is refused)
            if !result.starts_with(exp) {
                println!("VERIF-REPLAY: violated {} expected {} got {} [step {} {}]", op["violation_key"].as_str().unwrap_or("C07/unexpected-result"), exp, result, step, op["op"]);
            }
        }
        if has("unchanged-on-error") && result.starts_with("Err") {
            let same = serde_json::to_value(&pre.clusters).ok() == serde_json::to_value(&store.clusters).ok()
                && serde_json::to_value(&pre.all_proxies).ok() == serde_json::to_value(&store.all_proxies).ok()
                && pre.failed_proxies == store.failed_proxies
                && serde_json::to_value(&pre.failures).ok() == serde_json::to_value(&store.failures).ok();
            if !same {
                println!("VERIF-REPLAY: violated C12/refused-request-changed-store [step {} {}]", step, op["op"]);
            }
        }
        check(Some(&pre), &store, step, op["op"].as_str().unwrap_or(""), op, &result);
    }
    if let Some(n) = spec["final_balanced_chunks"].as_u64() {
        for x in balanced_violations(&store, &cluster, n as usize) {
            println!("VERIF-REPLAY: violated {} [final]", x);
        }
    }
    if let Some(n) = spec["final_chunk_count"].as_u64() {
        let name = ClusterName::try_from(cluster.as_str()).expect("cluster name");
        if store.clusters.get(&name).map(|c| c.chunks.len()) != Some(n as usize) {
            println!("VERIF-REPLAY: violated C10/free-chunks-not-released [final]");
        }
    }
    println!("VERIF-REPLAY: done");
}

// C13: recovery on a store with given global / cluster epochs through the real MemoryStorage::recover_epoch wrapper;
// every view served afterwards must carry an epoch above the largest proxy epoch.
#[test]
fn verif_replay_recover_views() {
    use crate::broker::storage::{MemoryStorage, MetaStorage};
    use std::sync::Arc;
    let path = match std::env::var("VERIF_REPLAY_FILE") {
        Ok(p) => p,
        Err(_) => return,
    };
    let spec: Value = serde_json::from_str(&std::fs::read_to_string(&path).expect("read")).expect("json");
    let largest = spec["largest_proxy_epoch"].as_u64().expect("largest");
    let mut store = MetaStore::new(false);
    for (i, host) in ["10.0.0.1", "10.0.0.2"].iter().enumerate() {
        for k in 0..2 {
            store
                .add_proxy(format!("{}:70{}{}", host, i, k), [format!("{}:80{}0", host, k), format!("{}:80{}1", host, k)], None, None)
                .expect("add proxy");
        }
    }
    store.add_cluster("c1".to_string(), 4, ClusterConfig::default()).expect("add cluster");
    store.global_epoch = spec["global_epoch"].as_u64().unwrap_or(0);
    let cluster_epoch = spec["cluster_epoch"].as_u64().unwrap_or(0);
    for c in store.clusters.values_mut() {
        c.epoch = cluster_epoch;
    }
    let shared = Arc::new(parking_lot::RwLock::new(store));
    let storage = MemoryStorage::new(shared.clone());
    let res = std::panic::catch_unwind(std::panic::AssertUnwindSafe(|| futures::executor::block_on(storage.recover_epoch(largest))));
    match res {
        Err(_) => println!("VERIF-REPLAY: violated no-panic recover_epoch({}) panicked", largest),
        Ok(_) => {
            let st = shared.read();
            let addrs: Vec<String> = st.all_proxies.keys().cloned().collect();
            for a in addrs {
                let served = st.get_proxy_by_address(&a, 0).map(|p| p.get_epoch()).unwrap_or(0);
                if served <= largest {
                    println!("VERIF-REPLAY: violated C13/served-epoch-not-above-largest-proxy-epoch proxy={} served={} largest={}", a, served, largest);
                }
            }
            if let Some(c) = st.get_cluster_by_name("c1", 0) {
                if c.get_epoch() <= largest {
                    println!("VERIF-REPLAY: violated C13/cluster-epoch-not-above-largest-proxy-epoch served={} largest={}", c.get_epoch(), largest);
                }
            }
        }
    }
    println!("VERIF-REPLAY: done");
}
