// Native replay for C09: real generate_slot / SlotMap on concrete inputs.
use super::*;

#[test]
fn verif_replay_slot() {
    let path = match std::env::var("VERIF_REPLAY_FILE") {
        Ok(p) => p,
        Err(_) => return,
    };
    let spec: serde_json::Value = serde_json::from_str(&std::fs::read_to_string(&path).expect("read")).expect("json");
    let key: Vec<u8> = serde_json::from_value(spec["key"].clone()).expect("key");
    let expected = spec["expected"].as_u64().expect("expected") as usize;
    let got = generate_slot(&key);
    if got != expected {
        println!("\nVERIF-REPLAY: violated C09/slot-of-key-wrong key={:?} slot={} reference={}", key, got, expected);
    }
    println!("\nVERIF-REPLAY: done");
}
