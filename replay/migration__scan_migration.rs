// Native replay for C19: the real PTTL -> RESTORE ttl conversion on concrete reply bytes, judged by Redis' integer
// reply grammar (canonical: -?[1-9][0-9]* | 0).
use super::*;

fn canonical(b: &[u8]) -> Option<i128> {
    let (neg, digits) = match b.first() {
        Some(b'-') => (true, &b[1..]),
        _ => (false, b),
    };
    if digits.is_empty() || !digits.iter().all(|c| c.is_ascii_digit()) {
        return None;
    }
    if digits.len() > 1 && digits[0] == b'0' {
        return None;
    }
    if neg && digits == b"0" {
        return None;
    }
    let v: i128 = std::str::from_utf8(digits).ok()?.parse().ok()?;
    Some(if neg { -v } else { v })
}

#[test]
fn verif_replay_pttl() {
    let path = match std::env::var("VERIF_REPLAY_FILE") {
        Ok(p) => p,
        Err(_) => return,
    };
    let spec: serde_json::Value = serde_json::from_str(&std::fs::read_to_string(&path).expect("read")).expect("json");
    let pttl: Vec<u8> = serde_json::from_value(spec["pttl"].clone()).expect("pttl");
    let p2 = pttl.clone();
    let out = match std::panic::catch_unwind(move || pttl_to_restore_expire_time(p2)) {
        Ok(o) => o,
        Err(_) => {
            println!("\nVERIF-REPLAY: violated no-panic pttl_to_restore_expire_time({:?})", pttl);
            return;
        }
    };
    let show = |b: &[u8]| String::from_utf8_lossy(b).to_string();
    match canonical(&pttl) {
        Some(n) if n >= 1 && n <= i64::MAX as i128 => {
            if out != pttl {
                println!("\nVERIF-REPLAY: violated C19/positive-ttl-not-preserved {} -> {}", show(&pttl), show(&out));
            }
        }
        Some(0) => {
            let positive = !out.is_empty() && out.iter().all(|c| c.is_ascii_digit()) && out.iter().any(|c| *c != b'0');
            if !positive {
                println!("\nVERIF-REPLAY: violated C19/zero-pttl-restored-as-persistent {} -> {}", show(&pttl), show(&out));
            }
        }
        Some(n) if n < 0 => {
            if out != b"0" {
                println!("\nVERIF-REPLAY: violated C19/negative-reply-not-mapped-to-no-expiry {} -> {}", show(&pttl), show(&out));
            }
        }
        _ => (),
    }
    println!("\nVERIF-REPLAY: done {} -> {}", show(&pttl), show(&out));
}
