// Native replay for the command-layer checks (C20, C16, C09): the real ForwardHandler with a real MetaManager, real
// backend senders and result handlers, on a tokio runtime, against a storing (binary-safe) Redis stand-in behind the
// ConnFactory trait.  The spec (JSON file named by VERIF_REPLAY_FILE) lists the strategy and the commands.
use super::*;
use crate::common::batch::BatchStrategy;
use crate::protocol::{OptionalMulti, RedisClient, RedisClientError};
use crate::proxy::backend::{BackendError, ConnSink, ConnStream, CreateConnResult};
use crate::proxy::command::{new_command_pair, Command};
use crate::proxy::manager::MetaMap;
use crate::proxy::service::ClusterNodesVersion;
use arc_swap::ArcSwap;
use futures::{Future, SinkExt, StreamExt, TryStreamExt};
use std::net::SocketAddr;
use std::num::NonZeroUsize;
use std::pin::Pin;
use std::sync::atomic::{AtomicBool, AtomicI64, AtomicU64};
use std::sync::Mutex;

type Db = Arc<Mutex<HashMap<Vec<u8>, Vec<u8>>>>;
type Log = Arc<Mutex<Vec<Vec<Vec<u8>>>>>;

fn bulk(v: Vec<u8>) -> RespVec {
    Resp::Bulk(BulkStr::Str(v))
}

fn exec(db: &Db, log: &Log, cmd: Vec<Vec<u8>>) -> RespVec {
    log.lock().unwrap().push(cmd.clone());
    let mut db = db.lock().unwrap();
    let name = cmd[0].to_ascii_uppercase();
    let args = &cmd[1..];
    let ok = || Resp::Simple(b"OK".to_vec());
    let int = |n: usize| Resp::Integer(n.to_string().into_bytes());
    let err = || Resp::Error(b"ERR wrong number of arguments".to_vec());
    match name.as_slice() {
        b"SET" => {
            if args.len() < 2 {
                return err();
            }
            let opts: Vec<Vec<u8>> = args[2..].iter().map(|o| o.to_ascii_uppercase()).collect();
            if opts.iter().any(|o| o == b"NX") && db.contains_key(&args[0]) {
                return Resp::Bulk(BulkStr::Nil);
            }
            if opts.iter().any(|o| o == b"XX") && !db.contains_key(&args[0]) {
                return Resp::Bulk(BulkStr::Nil);
            }
            db.insert(args[0].clone(), args[1].clone());
            ok()
        }
        b"SETEX" | b"PSETEX" => {
            if args.len() != 3 {
                return err();
            }
            db.insert(args[0].clone(), args[2].clone());
            ok()
        }
        b"SETNX" => {
            if args.len() != 2 {
                return err();
            }
            if db.contains_key(&args[0]) {
                return int(0);
            }
            db.insert(args[0].clone(), args[1].clone());
            int(1)
        }
        b"GETSET" => {
            if args.len() != 2 {
                return err();
            }
            match db.insert(args[0].clone(), args[1].clone()) {
                Some(old) => bulk(old),
                None => Resp::Bulk(BulkStr::Nil),
            }
        }
        b"GET" => {
            if args.len() != 1 {
                return err();
            }
            match db.get(&args[0]) {
                Some(v) => bulk(v.clone()),
                None => Resp::Bulk(BulkStr::Nil),
            }
        }
        b"MSET" | b"MSETNX" => {
            if args.is_empty() || args.len() % 2 != 0 {
                return err();
            }
            if name == b"MSETNX" && args.chunks(2).any(|kv| db.contains_key(&kv[0])) {
                return int(0);
            }
            for kv in args.chunks(2) {
                db.insert(kv[0].clone(), kv[1].clone());
            }
            if name == b"MSET" {
                ok()
            } else {
                int(1)
            }
        }
        b"DEL" => int(args.iter().filter(|k| db.remove(*k).is_some()).count()),
        b"EXISTS" => int(args.iter().filter(|k| db.contains_key(*k)).count()),
        _ => ok(),
    }
}

struct StoreConnFactory {
    db: Db,
    log: Log,
}

impl ConnFactory for StoreConnFactory {
    type Pkt = RespPacket;

    fn create_conn(&self, _addr: SocketAddr) -> Pin<Box<dyn Future<Output = CreateConnResult<Self::Pkt>> + Send>> {
        let (sender, receiver) = mpsc::unbounded();
        let db = self.db.clone();
        let log = self.log.clone();
        let receiver = receiver.map(move |packet: RespPacket| {
            let cmd: Vec<Vec<u8>> = match packet.to_resp_vec() {
                Resp::Arr(Array::Arr(resps)) => resps
                    .iter()
                    .map(|resp| match resp {
                        Resp::Bulk(BulkStr::Str(s)) => s.clone(),
                        _ => b"?".to_vec(),
                    })
                    .collect(),
                _ => vec![b"?".to_vec()],
            };
            Ok::<_, ()>(RespPacket::Data(exec(&db, &log, cmd)))
        });
        let sink: ConnSink<RespPacket> = Box::pin(sender.sink_map_err(|_| BackendError::Canceled));
        let stream: ConnStream<RespPacket> = Box::pin(receiver.map_err(|_| BackendError::Canceled));
        Box::pin(async { Ok((sink, stream)) })
    }
}

struct NoClient;

impl RedisClient for NoClient {
    fn execute<'s>(
        &'s mut self,
        command: OptionalMulti<Vec<Vec<u8>>>,
    ) -> Pin<Box<dyn Future<Output = Result<OptionalMulti<RespVec>, RedisClientError>> + Send + 's>> {
        let res = command.map(|_| Resp::Simple(b"OK".to_vec()));
        Box::pin(async { Ok(res) })
    }
}

struct NoClientFactory;

impl RedisClientFactory for NoClientFactory {
    type Client = NoClient;

    fn create_client<'s>(
        &'s self,
        _address: String,
    ) -> Pin<Box<dyn Future<Output = Result<Self::Client, RedisClientError>> + Send + 's>> {
        Box::pin(future::ok(NoClient))
    }
}

fn gen_config(active_redirection: bool) -> ServerProxyConfig {
    ServerProxyConfig {
        address: "127.0.0.1:5299".to_string(),
        announce_address: "127.0.0.1:5299".to_string(),
        announce_host: "127.0.0.1".to_string(),
        slowlog_len: NonZeroUsize::new(16).unwrap(),
        slowlog_log_slower_than: AtomicI64::new(0),
        slowlog_sample_rate: AtomicU64::new(1),
        thread_number: NonZeroUsize::new(2).unwrap(),
        backend_conn_num: NonZeroUsize::new(1).unwrap(),
        active_redirection,
        max_redirections: None,
        default_redirection_address: None,
        backend_batch_strategy: BatchStrategy::Fixed,
        backend_flush_size: NonZeroUsize::new(1024).unwrap(),
        backend_low_flush_interval: Duration::from_nanos(200_000),
        backend_high_flush_interval: Duration::from_nanos(800_000),
        session_timeout: None,
        backend_timeout: Duration::from_secs(3),
        password: None,
        command_cluster_nodes_version: ClusterNodesVersion::V2,
    }
}

type Handler = ForwardHandler<NoClientFactory, StoreConnFactory>;

fn gen_handler(db: Db, log: Log) -> Handler {
    gen_handler_with(db, log, false)
}

fn gen_handler_with(db: Db, log: Log, active_redirection: bool) -> Handler {
    let config = Arc::new(gen_config(active_redirection));
    let meta_map = Arc::new(ArcSwap::new(Arc::new(MetaMap::empty())));
    let (stopped, _r) = mpsc::unbounded();
    ForwardHandler::new(
        config.clone(),
        Arc::new(NoClientFactory),
        Arc::new(SlowRequestLogger::new(config)),
        meta_map,
        Arc::new(StoreConnFactory { db, log }),
        Arc::new(TrackedFutureRegistry::default()),
        stopped,
    )
}

async fn request(handler: &Handler, cmd: Vec<Vec<u8>>) -> Result<RespVec, String> {
    let resp = RespPacket::Data(Resp::Arr(Array::Arr(cmd.into_iter().map(|e| Resp::Bulk(BulkStr::Str(e))).collect())));
    let command = Command::new(Box::new(resp));
    let (s, r) = new_command_pair(&command);
    let cmd_ctx = CmdCtx::new(command, s, 233, false);
    let auth = AtomicBool::new(true);
    let fut = handler.handle_cmd_ctx(cmd_ctx, r, &auth);
    match tokio::time::timeout(Duration::from_secs(20), fut).await {
        Err(_) => Err("timeout: no reply within 20s".to_string()),
        Ok(Err(e)) => Err(format!("{:?}", e)),
        Ok(Ok(reply)) => Ok(reply.into_resp_vec()),
    }
}

fn words(s: &str) -> Vec<Vec<u8>> {
    s.split(' ').map(|w| w.as_bytes().to_vec()).collect()
}

async fn setup(handler: &Handler, strategy: &str) {
    let s = match strategy {
        "SetGetOnly" | "set_get_only" => "set_get_only",
        "AllowAll" | "allow_all" => "allow_all",
        _ => "disabled",
    };
    let meta = format!(
        "UMCTL SETCLUSTER v2 1 NOFLAGS mydb 127.0.0.1:6379 1 0-16383 CONFIG compression_strategy {}",
        s
    );
    let r = request(handler, words(&meta)).await;
    assert!(matches!(r, Ok(Resp::Simple(_))), "SETCLUSTER failed: {:?}", r);
    // wait until the backend connection future is ready
    for _ in 0..2000 {
        match request(handler, words("EXISTS verif-probe")).await {
            Ok(Resp::Error(e)) if e.starts_with(response::ERR_BACKEND_CONNECTION.as_bytes()) => {
                tokio::time::sleep(Duration::from_millis(2)).await;
            }
            _ => break,
        }
    }
}

fn spec() -> Option<serde_json::Value> {
    let path = std::env::var("VERIF_REPLAY_FILE").ok()?;
    Some(serde_json::from_str(&std::fs::read_to_string(&path).expect("read")).expect("json"))
}

fn show(v: &[u8]) -> String {
    if v.len() > 64 {
        return format!("{}..({} bytes)", pretty_print_bytes(&v[..16]), v.len());
    }
    pretty_print_bytes(v)
}

// a command element of a replay spec: [bytes] or {"repeat": [bytes], "times": n} (a large, highly compressible value)
fn elem(v: &serde_json::Value) -> Vec<u8> {
    if let Some(obj) = v.as_object() {
        let unit: Vec<u8> = serde_json::from_value(obj["repeat"].clone()).expect("repeat");
        let times = obj["times"].as_u64().unwrap_or(1) as usize;
        let mut out = Vec::with_capacity(unit.len() * times);
        for _ in 0..times {
            out.extend_from_slice(&unit);
        }
        return out;
    }
    serde_json::from_value(v.clone()).expect("bytes")
}

// spec: {strategy, cmds: [[bytes..]..], expect_get: {key: bytes}}: after running the commands, GET and MGET of each
// expected key must return exactly the expected bytes and every request must have been answered
#[tokio::test]
async fn verif_replay_compression() {
    let spec = match spec() {
        Some(s) => s,
        None => return,
    };
    let db: Db = Default::default();
    let log: Log = Default::default();
    let handler = gen_handler(db.clone(), log.clone());
    let strategy = spec["strategy"].as_str().unwrap_or("Disabled").to_string();
    setup(&handler, &strategy).await;
    log.lock().unwrap().clear();
    let cmds: Vec<Vec<Vec<u8>>> = spec["cmds"].as_array().expect("cmds").iter().map(|c| c.as_array().expect("cmd").iter().map(elem).collect()).collect();
    // expect_replies: [[index of a GET / GETSET in cmds, expected bulk bytes | null]] - the reply the written history demands
    let expect_replies: Vec<(usize, Option<Vec<u8>>)> = spec["expect_replies"]
        .as_array()
        .map(|a| a.iter().map(|p| (p[0].as_u64().unwrap_or(0) as usize, if p[1].is_null() { None } else { Some(elem(&p[1])) })).collect())
        .unwrap_or_default();
    for (i, c) in cmds.iter().enumerate() {
        let r = request(&handler, c.clone()).await;
        println!("\nVERIF-REPLAY: info {} -> {:?}", c.iter().map(|e| show(e)).collect::<Vec<_>>().join(" "), r.as_ref().map(|x| format!("{:?}", x).chars().take(120).collect::<String>()));
        if let Some((_, want)) = expect_replies.iter().find(|(j, _)| *j == i) {
            let ok = match (&r, want) {
                (Ok(Resp::Bulk(BulkStr::Str(g))), Some(w)) => g == w,
                (Ok(Resp::Bulk(BulkStr::Nil)), None) => true,
                _ => false,
            };
            if !ok {
                println!("\nVERIF-REPLAY: violated C20/value-not-byte-identical {} returned {:?}, expected {:?}", c.iter().map(|e| show(e)).collect::<Vec<_>>().join(" "), r.as_ref().map(|x| format!("{:?}", x).chars().take(120).collect::<String>()), want.as_ref().map(|w| show(w)));
            }
        }
        if let Err(e) = r {
            println!("\nVERIF-REPLAY: violated C20/no-reply {}", e);
        }
    }
    if let Some(obj) = spec["expect_get"].as_object() {
        for (k, v) in obj {
            let want: Vec<u8> = elem(v);
            let got = request(&handler, vec![b"GET".to_vec(), k.as_bytes().to_vec()]).await;
            match got {
                Ok(Resp::Bulk(BulkStr::Str(ref g))) if *g == want => (),
                other => println!("\nVERIF-REPLAY: violated C20/value-not-byte-identical GET {} returned {:?}, written value {:?}", k, other, show(&want)),
            }
            let got = request(&handler, vec![b"MGET".to_vec(), k.as_bytes().to_vec()]).await;
            match got {
                Ok(Resp::Arr(Array::Arr(ref a))) if a.len() == 1 && a[0] == bulk(want.clone()) => (),
                other => println!("\nVERIF-REPLAY: violated C20/value-not-byte-identical MGET {} returned {:?}, written value {:?}", k, other, show(&want)),
            }
        }
    }
    // requests as seen by the backend (for the argument / key clauses): printed for the record
    for c in log.lock().unwrap().iter() {
        println!("\nVERIF-REPLAY: info backend saw {}", c.iter().map(|e| show(e)).collect::<Vec<_>>().join(" "));
    }
    println!("\nVERIF-REPLAY: done");
}

// spec: {strategy, cmd: [bytes..]}: in set_get_only the command must be refused (error reply, backend not reached)
#[tokio::test]
async fn verif_replay_restricted() {
    let spec = match spec() {
        Some(s) => s,
        None => return,
    };
    let db: Db = Default::default();
    let log: Log = Default::default();
    let handler = gen_handler(db.clone(), log.clone());
    let strategy = spec["strategy"].as_str().unwrap_or("Disabled").to_string();
    setup(&handler, &strategy).await;
    let _ = request(&handler, vec![b"SET".to_vec(), b"{t}a".to_vec(), b"some value".to_vec()]).await;
    log.lock().unwrap().clear();
    let cmd: Vec<Vec<u8>> = serde_json::from_value(spec["cmd"].clone()).expect("cmd");
    let r = request(&handler, cmd.clone()).await;
    let reached = !log.lock().unwrap().is_empty();
    let refused = matches!(r, Ok(Resp::Error(_)));
    if strategy == "SetGetOnly" {
        if reached || !refused {
            println!("\nVERIF-REPLAY: violated C20/observer-command-not-refused {} reply={:?} reached_backend={}", show(&cmd[0]), r, reached);
        }
    } else if !reached || log.lock().unwrap()[0] != cmd {
        println!("\nVERIF-REPLAY: violated C20/request-altered {} backend saw {:?}", show(&cmd[0]), log.lock().unwrap());
    }
    println!("\nVERIF-REPLAY: done");
}

// spec: {cmd: [bytes..], max_ms}: the request must be answered (error or not) within max_ms and without a panic
#[tokio::test(flavor = "multi_thread", worker_threads = 2)]
async fn verif_replay_request_bounded() {
    let spec = match spec() {
        Some(s) => s,
        None => return,
    };
    let db: Db = Default::default();
    let log: Log = Default::default();
    let handler = gen_handler_with(db.clone(), log.clone(), spec["active"].as_bool().unwrap_or(false));
    setup(&handler, "Disabled").await;
    let cmd: Vec<Vec<u8>> = serde_json::from_value(spec["cmd"].clone()).expect("cmd");
    let max_ms = spec["max_ms"].as_u64().unwrap_or(5000);
    let t0 = std::time::Instant::now();
    let h = Arc::new(handler);
    let h2 = h.clone();
    let c2 = cmd.clone();
    let jh = tokio::spawn(async move { request(&h2, c2).await });
    let res = tokio::time::timeout(Duration::from_millis(max_ms), jh).await;
    match res {
        Err(_) => {
            println!("\nVERIF-REPLAY: violated C16/time-bounded-by-request-size no reply to a {}-element request within {} ms", cmd.len(), max_ms);
            println!("\nVERIF-REPLAY: done");
            // the worker thread is still spinning inside the handler: the runtime could never shut down
            use std::io::Write;
            let _ = std::io::stdout().flush();
            std::process::exit(0);
        }
        Ok(Err(join_err)) => println!("\nVERIF-REPLAY: violated C16/no-panic handler panicked: {:?}", join_err),
        Ok(Ok(r)) => println!("\nVERIF-REPLAY: info replied in {:?}: {:?}", t0.elapsed(), r.map(|x| format!("{:?}", x).chars().take(100).collect::<String>())),
    }
    println!("\nVERIF-REPLAY: done");
}
