// Native replay for C13: the real MemoryStorage::recover_epoch wrapper with a concrete store epoch and proxy epoch.
use super::*;
use crate::broker::store::MetaStore;
use std::sync::Arc;

#[test]
fn verif_replay_recover_epoch() {
    let path = match std::env::var("VERIF_REPLAY_FILE") {
        Ok(p) => p,
        Err(_) => return,
    };
    let spec: serde_json::Value = serde_json::from_str(&std::fs::read_to_string(&path).expect("read")).expect("json");
    let largest = spec["largest_proxy_epoch"].as_u64().expect("largest");
    let mut store = MetaStore::new(false);
    store.global_epoch = spec["global_epoch"].as_u64().unwrap_or(0);
    store
        .add_proxy("127.0.0.1:7000".to_string(), ["127.0.0.1:8000".to_string(), "127.0.0.1:8001".to_string()], None, None)
        .expect("add proxy");
    let shared = Arc::new(parking_lot::RwLock::new(store));
    let storage = MemoryStorage::new(shared.clone());
    let res = std::panic::catch_unwind(std::panic::AssertUnwindSafe(|| futures::executor::block_on(storage.recover_epoch(largest))));
    match res {
        Err(_) => println!("VERIF-REPLAY: violated no-panic recover_epoch({}) panicked", largest),
        Ok(_) => {
            let served = shared.read().get_proxy_by_address("127.0.0.1:7000", 0).map(|p| p.get_epoch()).unwrap_or(0);
            if served <= largest {
                println!("VERIF-REPLAY: violated C13/served-epoch-not-above-largest-proxy-epoch served={} largest={}", served, largest);
            }
        }
    }
    println!("VERIF-REPLAY: done");
}
