// Native replay for C07 (A): the real ProxyMetaRespSender against the real proxy control path (ForwardHandler +
// MetaManager) through a transport that injects the scripted fault of each coordinator round.
// spec: {steps: [{view: <Proxy json>, fault: [kind, n] | null}], final_view: <Proxy json>, clean_rounds: n}
use super::*;
use crate::common::batch::BatchStrategy;
use crate::common::track::TrackedFutureRegistry;
use crate::protocol::{Array, BulkStr, OptionalMulti, RedisClientError, RespPacket, RespVec};
use crate::proxy::backend::{BackendError, CmdTask, ConnFactory, CreateConnResult};
use crate::proxy::command::{new_command_pair, Command};
use crate::proxy::executor::ForwardHandler;
use crate::proxy::manager::MetaMap;
use crate::proxy::service::{ClusterNodesVersion, ServerProxyConfig};
use crate::proxy::session::{CmdCtx, CmdCtxHandler};
use crate::proxy::slowlog::SlowRequestLogger;
use arc_swap::ArcSwap;
use futures::channel::mpsc;
use std::net::SocketAddr;
use std::num::NonZeroUsize;
use std::sync::atomic::{AtomicBool, AtomicI64, AtomicU64, AtomicUsize, Ordering};
use std::sync::Mutex;
use std::time::Duration;

struct NeverConnFactory;

impl ConnFactory for NeverConnFactory {
    type Pkt = RespPacket;

    fn create_conn(&self, _addr: SocketAddr) -> Pin<Box<dyn Future<Output = CreateConnResult<Self::Pkt>> + Send>> {
        Box::pin(async { Err(BackendError::Canceled) })
    }
}

struct NoClient;

impl RedisClient for NoClient {
    fn execute<'s>(
        &'s mut self,
        command: OptionalMulti<Vec<Vec<u8>>>,
    ) -> Pin<Box<dyn Future<Output = Result<OptionalMulti<RespVec>, RedisClientError>> + Send + 's>> {
        let res = command.map(|_| Resp::Simple(b"OK".to_vec()));
        Box::pin(async { Ok(res) })
    }
}

struct NoClientFactory;

impl RedisClientFactory for NoClientFactory {
    type Client = NoClient;

    fn create_client<'s>(
        &'s self,
        _address: String,
    ) -> Pin<Box<dyn Future<Output = Result<Self::Client, RedisClientError>> + Send + 's>> {
        Box::pin(futures::future::ok(NoClient))
    }
}

type Handler = ForwardHandler<NoClientFactory, NeverConnFactory>;

fn gen_handler(host: &str) -> Handler {
    let config = Arc::new(ServerProxyConfig {
        address: format!("{}:5299", host),
        announce_address: format!("{}:5299", host),
        announce_host: host.to_string(),
        slowlog_len: NonZeroUsize::new(16).unwrap(),
        slowlog_log_slower_than: AtomicI64::new(0),
        slowlog_sample_rate: AtomicU64::new(1),
        thread_number: NonZeroUsize::new(2).unwrap(),
        backend_conn_num: NonZeroUsize::new(1).unwrap(),
        active_redirection: false,
        max_redirections: None,
        default_redirection_address: None,
        backend_batch_strategy: BatchStrategy::Fixed,
        backend_flush_size: NonZeroUsize::new(1024).unwrap(),
        backend_low_flush_interval: Duration::from_nanos(200_000),
        backend_high_flush_interval: Duration::from_nanos(800_000),
        session_timeout: None,
        backend_timeout: Duration::from_secs(3),
        password: None,
        command_cluster_nodes_version: ClusterNodesVersion::V2,
    });
    let meta_map = Arc::new(ArcSwap::new(Arc::new(MetaMap::empty())));
    let (stopped, _r) = mpsc::unbounded();
    ForwardHandler::new(
        config.clone(),
        Arc::new(NoClientFactory),
        Arc::new(SlowRequestLogger::new(config)),
        meta_map,
        Arc::new(NeverConnFactory),
        Arc::new(TrackedFutureRegistry::default()),
        stopped,
    )
}

async fn proxy_exec(handler: &Handler, cmd: Vec<Vec<u8>>) -> RespVec {
    let resp = RespPacket::Data(Resp::Arr(Array::Arr(cmd.into_iter().map(|e| Resp::Bulk(BulkStr::Str(e))).collect())));
    let command = Command::new(Box::new(resp));
    let (s, r) = new_command_pair(&command);
    let cmd_ctx = CmdCtx::new(command, s, 1, false);
    let auth = AtomicBool::new(true);
    match handler.handle_cmd_ctx(cmd_ctx, r, &auth).await {
        Ok(reply) => reply.into_resp_vec(),
        Err(e) => Resp::Error(format!("{:?}", e).into_bytes()),
    }
}

struct Transport {
    handler: Arc<Handler>,
    fault: Arc<Mutex<Option<(String, usize)>>>,
    n: Arc<AtomicUsize>,
    calls: Arc<Mutex<Vec<String>>>,
}

impl RedisClient for Transport {
    fn execute<'s>(
        &'s mut self,
        command: OptionalMulti<Vec<Vec<u8>>>,
    ) -> Pin<Box<dyn Future<Output = Result<OptionalMulti<RespVec>, RedisClientError>> + Send + 's>> {
        Box::pin(async move {
            let cmd = match command {
                OptionalMulti::Single(c) => c,
                OptionalMulti::Multi(_) => return Err(RedisClientError::InvalidState),
            };
            let k = self.n.fetch_add(1, Ordering::SeqCst) + 1;
            self.calls.lock().unwrap().push(String::from_utf8_lossy(&cmd[1]).to_string());
            let fault = self.fault.lock().unwrap().clone();
            let is = |kind: &str| fault.as_ref().map(|(f, n)| f == kind && *n == k).unwrap_or(false);
            if is("drop") {
                return Err(RedisClientError::Closed);
            }
            let mut reply = proxy_exec(&self.handler, cmd.clone()).await;
            if is("dup") {
                reply = proxy_exec(&self.handler, cmd).await;
            }
            if is("reply-lost") {
                return Err(RedisClientError::Closed);
            }
            Ok(OptionalMulti::Single(reply))
        })
    }
}

struct TransportFactory {
    handler: Arc<Handler>,
    fault: Arc<Mutex<Option<(String, usize)>>>,
    n: Arc<AtomicUsize>,
    calls: Arc<Mutex<Vec<String>>>,
}

impl RedisClientFactory for TransportFactory {
    type Client = Transport;

    fn create_client<'s>(
        &'s self,
        _address: String,
    ) -> Pin<Box<dyn Future<Output = Result<Self::Client, RedisClientError>> + Send + 's>> {
        let t = Transport {
            handler: self.handler.clone(),
            fault: self.fault.clone(),
            n: self.n.clone(),
            calls: self.calls.clone(),
        };
        Box::pin(futures::future::ok(t))
    }
}

#[tokio::test]
async fn verif_replay_sync_rounds() {
    let path = match std::env::var("VERIF_REPLAY_FILE") {
        Ok(p) => p,
        Err(_) => return,
    };
    let spec: serde_json::Value = serde_json::from_str(&std::fs::read_to_string(&path).expect("read")).expect("json");
    let host = spec["host"].as_str().unwrap_or("h0").to_string();
    let handler = Arc::new(gen_handler(&host));
    let fault = Arc::new(Mutex::new(None));
    let n = Arc::new(AtomicUsize::new(0));
    let calls = Arc::new(Mutex::new(vec![]));
    let factory = Arc::new(TransportFactory {
        handler: handler.clone(),
        fault: fault.clone(),
        n: n.clone(),
        calls: calls.clone(),
    });
    let sender = ProxyMetaRespSender::new(factory, false);
    let epoch_of = |h: Arc<Handler>| async move {
        match proxy_exec(&h, vec![b"UMCTL".to_vec(), b"GETEPOCH".to_vec()]).await {
            Resp::Integer(b) => String::from_utf8_lossy(&b).parse::<u64>().unwrap_or(0),
            _ => 0,
        }
    };
    let mut last_epoch = 0u64;
    let empty = vec![];
    for step in spec["steps"].as_array().unwrap_or(&empty) {
        let view: Proxy = serde_json::from_value(step["view"].clone()).expect("view");
        let f: Option<(String, usize)> = serde_json::from_value(step["fault"].clone()).unwrap_or(None);
        *fault.lock().unwrap() = f.clone();
        n.store(0, Ordering::SeqCst);
        let r = sender.send_meta(view).await;
        let ep = epoch_of(handler.clone()).await;
        println!("\nVERIF-REPLAY: info round fault={:?} -> {:?}, proxy epoch {}", f, r.is_ok(), ep);
        if ep < last_epoch {
            println!("\nVERIF-REPLAY: violated C07/proxy-metadata-replaced-by-older epoch went from {} to {}", last_epoch, ep);
        }
        last_epoch = ep;
    }
    let final_view: Proxy = serde_json::from_value(spec["final_view"].clone()).expect("final view");
    let want = final_view.get_epoch();
    for _ in 0..spec["clean_rounds"].as_u64().unwrap_or(3) {
        *fault.lock().unwrap() = None;
        n.store(0, Ordering::SeqCst);
        let _ = sender.send_meta(final_view.clone()).await;
    }
    let ep = epoch_of(handler.clone()).await;
    if ep != want {
        println!("\nVERIF-REPLAY: violated C07/proxy-routing-metadata-does-not-converge proxy epoch {} broker epoch {} calls {:?}", ep, want, calls.lock().unwrap());
    }
    // the replication metadata of the broker's epoch is installed iff re-sending it is answered OLD_EPOCH
    let repl_args = generate_repl_meta_cmd_args(final_view.clone(), ClusterMapFlags { force: false, compress: false });
    let mut cmd = vec![b"UMCTL".to_vec(), b"SETREPL".to_vec()];
    cmd.extend(repl_args.into_iter().map(String::into_bytes));
    match proxy_exec(&handler, cmd).await {
        Resp::Error(e) if e == OLD_EPOCH_REPLY.as_bytes() => (),
        other => println!("\nVERIF-REPLAY: violated C07/proxy-replication-metadata-does-not-converge re-sent SETREPL answered {:?}", other),
    }
    println!("\nVERIF-REPLAY: done");
}
