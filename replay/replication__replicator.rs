// Native replay for C17: replication metadata tokens through encode_repl_meta / parse_repl_meta.
use super::*;
use crate::protocol::{Array, BulkStr, Resp};

#[test]
fn verif_replay_repl() {
    let path = match std::env::var("VERIF_REPLAY_FILE") {
        Ok(p) => p,
        Err(_) => return,
    };
    let spec: serde_json::Value = serde_json::from_str(&std::fs::read_to_string(&path).expect("read")).expect("json");
    let tokens: Vec<String> = serde_json::from_value(spec["tokens"].clone()).expect("tokens");
    let mut arr = vec![Resp::Bulk(BulkStr::Str(b"UMCTL".to_vec())), Resp::Bulk(BulkStr::Str(b"SETREPL".to_vec()))];
    for t in tokens.iter() {
        arr.push(Resp::Bulk(BulkStr::Str(t.clone().into_bytes())));
    }
    let resp = Resp::Arr(Array::Arr(arr));
    if spec["corrupt"].as_bool().unwrap_or(false) {
        // a corrupted (one token deleted) message: it must be rejected, or decode to the value of the original
        let original: Vec<String> = serde_json::from_value(spec["original"].clone()).expect("original");
        if let Ok(meta) = parse_repl_meta(&resp) {
            if encode_repl_meta(meta) != original {
                println!("\nVERIF-REPLAY: violated C17/corrupted-repl-meta-accepted {:?} (original {:?})", tokens, original);
            }
        }
        println!("\nVERIF-REPLAY: done");
        return;
    }
    match parse_repl_meta(&resp) {
        Err(_) => println!("\nVERIF-REPLAY: violated C17/repl-meta-rejected {:?}", tokens),
        Ok(meta) => {
            if encode_repl_meta(meta) != tokens {
                println!("\nVERIF-REPLAY: violated C17/repl-meta-differs {:?}", tokens);
            }
        }
    }
    println!("\nVERIF-REPLAY: done");
}
