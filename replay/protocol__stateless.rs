// Native replay for C15/C16: real parse_resp / encode_resp on concrete bytes, compared with an independent strict
// RESP recognizer (CR before every terminating LF, CRLF after bulk payloads; integer grammar = btoi's).
use super::*;
use crate::protocol::encoder::resp_to_buf;
use crate::protocol::resp::IndexedResp;
use bytes::Bytes;

fn line(b: &[u8]) -> Option<usize> {
    // returns index of LF of a strictly terminated line starting at b[0]
    let lf = b.iter().position(|c| *c == b'\n')?;
    if lf == 0 || b[lf - 1] != b'\r' {
        return None;
    }
    Some(lf)
}

fn strict(b: &[u8], depth: usize) -> Option<usize> {
    if depth > 64 {
        return None;
    }
    match *b.first()? {
        b'+' | b'-' | b':' => line(&b[1..]).map(|lf| 1 + lf + 1),
        b'$' => {
            let lf = line(&b[1..])?;
            let n: i64 = btoi::btoi(&b[1..lf]).ok()?;
            let hdr = 1 + lf + 1;
            if n < 0 {
                return Some(hdr);
            }
            let end = hdr.checked_add(n as usize)?;
            if b.get(end) == Some(&b'\r') && b.get(end + 1) == Some(&b'\n') {
                Some(end + 2)
            } else {
                None
            }
        }
        b'*' => {
            let lf = line(&b[1..])?;
            let n: i64 = btoi::btoi(&b[1..lf]).ok()?;
            let mut pos = 1 + lf + 1;
            if n < 0 {
                return Some(pos);
            }
            for _ in 0..n {
                pos += strict(b.get(pos..)?, depth + 1)?;
            }
            Some(pos)
        }
        _ => None,
    }
}

#[test]
fn verif_replay_resp() {
    let path = match std::env::var("VERIF_REPLAY_FILE") {
        Ok(p) => p,
        Err(_) => return,
    };
    let spec: serde_json::Value = serde_json::from_str(&std::fs::read_to_string(&path).expect("read")).expect("json");
    let bytes: Vec<u8> = serde_json::from_value(spec["bytes"].clone()).expect("bytes");
    let mode = spec["mode"].as_str().unwrap_or("parse").to_string();
    let b2 = bytes.clone();
    let res = std::panic::catch_unwind(move || parse_resp(&b2).map(|(r, c)| (format!("{:?}", r), c, r)));
    match (mode.as_str(), res) {
        (_, Err(_)) => println!("\nVERIF-REPLAY: violated no-panic parse_resp panicked on {:?}", bytes),
        ("parse", Ok(Ok((dbg, consumed, resp)))) => {
            if consumed > bytes.len() {
                println!("\nVERIF-REPLAY: violated C15/consumed-beyond-input {} > {}", consumed, bytes.len());
            }
            match strict(&bytes, 0) {
                Some(n) if n == consumed => (),
                other => println!("\nVERIF-REPLAY: violated C15/strictness parse_resp accepted {} consuming {} but the strict recognizer says {:?}", dbg, consumed, other),
            }
            let data = Bytes::from(bytes[..consumed.min(bytes.len())].to_vec());
            let ok = std::panic::catch_unwind(move || IndexedResp::new(resp, data).to_resp_vec());
            if ok.is_err() {
                println!("\nVERIF-REPLAY: violated C15/index-outside-consumed-prefix to_resp_vec panicked");
            }
        }
        ("parse", Ok(Err(_))) => (),
        ("roundtrip", Ok(Ok((_dbg, consumed, resp)))) => {
            if consumed != bytes.len() {
                println!("\nVERIF-REPLAY: violated C15/consumed-wrong-length {} != {}", consumed, bytes.len());
            }
            let v = IndexedResp::new(resp, Bytes::from(bytes.clone())).to_resp_vec();
            let mut out = vec![];
            let n = resp_to_buf(&mut out, &v).unwrap_or(0);
            if out != bytes || n != bytes.len() {
                println!("\nVERIF-REPLAY: violated C15/round-trip-value-differs re-encoding {:?} != {:?}", out, bytes);
            }
            if crate::protocol::encoder::get_resp_size_hint(&v).ok() != Some(bytes.len()) {
                println!("\nVERIF-REPLAY: violated C15/size-hint-wrong");
            }
        }
        ("roundtrip", Ok(Err(e))) => println!("\nVERIF-REPLAY: violated C15/own-encoding-rejected {:?}", e),
        ("prefixes", _) => {
            for cut in 0..bytes.len() {
                match parse_resp(&bytes[..cut]) {
                    Err(ParseError::NotEnoughData) => (),
                    other => println!("\nVERIF-REPLAY: violated C15/prefix-not-reported-incomplete cut={} -> {:?}", cut, other.map(|x| x.1)),
                }
            }
        }
        _ => (),
    }
    println!("\nVERIF-REPLAY: done");
}

// ---- allocation replay (C16): the crate forbids unsafe code, so no counting allocator can be installed; instead the
// witness is escalated along the same call site: a declared length of i64::MAX makes an unbounded
// `Vec::with_capacity(declared)` panic with "capacity overflow" (smaller values abort the process on allocation failure).
#[test]
fn verif_replay_alloc() {
    let path = match std::env::var("VERIF_REPLAY_FILE") {
        Ok(p) => p,
        Err(_) => return,
    };
    let spec: serde_json::Value = serde_json::from_str(&std::fs::read_to_string(&path).expect("read")).expect("json");
    let bytes: Vec<u8> = serde_json::from_value(spec["bytes"].clone()).expect("bytes");
    let mut inputs = vec![bytes];
    inputs.push(b"*9223372036854775807\r\n".to_vec());
    inputs.push(b"*1\r\n*9223372036854775807\r\n".to_vec());
    for input in inputs {
        let b2 = input.clone();
        let res = std::panic::catch_unwind(move || parse_resp(&b2).is_ok());
        if res.is_err() {
            println!("\nVERIF-REPLAY: violated C16/allocation-not-bounded-by-input parse_resp panicked (capacity overflow) on {:?}", String::from_utf8_lossy(&input));
        }
    }
    println!("\nVERIF-REPLAY: done");
}
