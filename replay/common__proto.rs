// Native replay for C16/C17: UMCTL token vectors through the real parsers.
use super::*;
use crate::common::cluster::MigrationTaskMeta;

#[test]
fn verif_replay_tokens() {
    let path = match std::env::var("VERIF_REPLAY_FILE") {
        Ok(p) => p,
        Err(_) => return,
    };
    let spec: serde_json::Value = serde_json::from_str(&std::fs::read_to_string(&path).expect("read")).expect("json");
    let tokens: Vec<String> = serde_json::from_value(spec["tokens"].clone()).expect("tokens");
    let entry = spec["entry"].as_str().unwrap_or("setcluster").to_string();
    let t2 = tokens.clone();
    let res = std::panic::catch_unwind(move || {
        let mut it = t2.into_iter().peekable();
        match entry.as_str() {
            "setcluster" => format!("{:?}", ProxyClusterMeta::parse(&mut it).map(|(m, _)| m.get_epoch())),
            "taskmeta" => format!("{:?}", MigrationTaskMeta::from_strings(&mut it).map(|m| m.cluster_name.to_string())),
            _ => String::new(),
        }
    });
    match res {
        Err(_) => println!("\nVERIF-REPLAY: violated no-panic parser panicked on {:?}", tokens),
        Ok(r) => println!("\nVERIF-REPLAY: result {}", r),
    }
    println!("\nVERIF-REPLAY: done");
}

fn parse_cluster(tokens: &[String]) -> Option<(u64, ClusterMapFlags, ProxyClusterMetaData)> {
    let mut it = tokens.to_vec().into_iter().peekable();
    ProxyClusterMeta::parse(&mut it).ok().map(|(m, _)| (m.get_epoch(), m.get_flags(), m.gen_data()))
}

fn parse_task(tokens: &[String]) -> Option<MigrationTaskMeta> {
    let mut it = tokens.to_vec().into_iter().peekable();
    MigrationTaskMeta::from_strings(&mut it)
}

#[test]
fn verif_replay_wire() {
    let path = match std::env::var("VERIF_REPLAY_FILE") {
        Ok(p) => p,
        Err(_) => return,
    };
    let spec: serde_json::Value = serde_json::from_str(&std::fs::read_to_string(&path).expect("read")).expect("json");
    let tokens: Vec<String> = serde_json::from_value(spec["tokens"].clone()).expect("tokens");
    let entry = spec["entry"].as_str().unwrap_or("").to_string();
    match entry.as_str() {
        "slotrange" => {
            let mut it = tokens.clone().into_iter().peekable();
            match crate::common::cluster::SlotRange::from_strings(&mut it) {
                None => println!("\nVERIF-REPLAY: violated C17/slot-range-rejected {:?}", tokens),
                Some(sr) => {
                    if sr.into_strings() != tokens {
                        println!("\nVERIF-REPLAY: violated C17/slot-range-differs {:?}", tokens);
                    }
                }
            }
        }
        "taskmeta" => match parse_task(&tokens) {
            None => println!("\nVERIF-REPLAY: violated C17/task-meta-rejected {:?}", tokens),
            Some(t) => {
                if t.into_strings() != tokens {
                    println!("\nVERIF-REPLAY: violated C17/task-meta-differs {:?}", tokens);
                }
            }
        },
        "setcluster-roundtrip" => match parse_cluster(&tokens) {
            None => println!("\nVERIF-REPLAY: violated C17/cluster-meta-rejected {:?}", tokens),
            Some((epoch, flags, data)) => {
                let mut it = tokens.clone().into_iter().peekable();
                let (m, ext) = ProxyClusterMeta::parse(&mut it).expect("parse");
                let again = parse_cluster(&m.to_args());
                if again != Some((epoch, flags, data)) {
                    println!("\nVERIF-REPLAY: violated C17/cluster-meta-differs {:?}", tokens);
                }
                if ext.is_err() {
                    println!("\nVERIF-REPLAY: violated C17/cluster-meta-config-lost {:?}", tokens);
                }
            }
        },
        "corrupt-cluster" => {
            let original: Vec<String> = serde_json::from_value(spec["original"].clone()).expect("original");
            let a = parse_cluster(&original);
            let b = parse_cluster(&tokens);
            if b.is_some() && a != b {
                println!("\nVERIF-REPLAY: violated C17/corrupted-cluster-meta-accepted {:?}", tokens);
            }
        }
        "corrupt-task" => {
            let original: Vec<String> = serde_json::from_value(spec["original"].clone()).expect("original");
            let a = parse_task(&original);
            let b = parse_task(&tokens);
            if b.is_some() && a != b {
                println!("\nVERIF-REPLAY: violated C17/corrupted-task-meta-accepted {:?}", tokens);
            }
        }
        _ => (),
    }
    println!("\nVERIF-REPLAY: done");
}
