// Native replay for C08 (A): the real handle_conn / handle_conn_err polled round by round against scripted ends of the
// backend connection.  The script (from the counterexample) lists, per event source, the answers in call order.
// spec: {persistent: bool, conns: [{rounds: n, script: {rx: [..], ready: [..], send: [..], flush: [..], stream: [..]}}]}
use super::*;
use futures::task::noop_waker;
use std::collections::{HashMap, VecDeque};
use std::sync::Mutex;

#[derive(Default)]
struct Log {
    script: HashMap<String, VecDeque<String>>,
    wire: Vec<u64>,
    handled: Vec<(u64, Option<u64>)>, // (task tag, Some(reply tag) | None for an error result)
    results: HashMap<u64, usize>,     // completions per task (handled or set_result)
    received: Vec<u64>,
}

type Shared = Arc<Mutex<Log>>;

fn pop(shared: &Shared, key: &str) -> Option<String> {
    shared.lock().unwrap().script.get_mut(key).and_then(|q| q.pop_front())
}

struct T {
    tag: u64,
    shared: Shared,
}

impl CmdTask for T {
    type Pkt = RespVec;
    type TaskType = u64;
    type Context = u32;

    fn get_key(&self) -> Option<&[u8]> {
        None
    }
    fn get_slot(&self) -> Option<usize> {
        None
    }
    fn set_result(self, _result: CommandResult<RespVec>) {
        *self.shared.lock().unwrap().results.entry(self.tag).or_insert(0) += 1;
    }
    fn get_packet(&self) -> RespVec {
        Resp::Simple(self.tag.to_string().into_bytes())
    }
    fn get_type(&self) -> u64 {
        0
    }
    fn get_context(&self) -> u32 {
        0
    }
    fn set_resp_result(self, _result: Result<RespVec, CommandError>)
    where
        Self: Sized,
    {
        *self.shared.lock().unwrap().results.entry(self.tag).or_insert(0) += 1;
    }
    fn log_event(&mut self, _event: TaskEvent) {}
}

struct H {
    shared: Shared,
}

fn tag_of(r: &RespVec) -> Option<u64> {
    match r {
        Resp::Simple(b) => String::from_utf8_lossy(b).parse().ok(),
        _ => None,
    }
}

impl CmdTaskResultHandler for H {
    type Task = T;

    fn handle_task(&self, task: T, result: BackendResult<RespVec>) {
        let mut l = self.shared.lock().unwrap();
        let reply = result.ok().and_then(|r| tag_of(&r));
        l.handled.push((task.tag, reply));
        *l.results.entry(task.tag).or_insert(0) += 1;
    }
}

struct Rx {
    shared: Shared,
}

impl Stream for Rx {
    type Item = T;
    fn poll_next(self: Pin<&mut Self>, _cx: &mut Context<'_>) -> Poll<Option<T>> {
        match pop(&self.shared, "rx") {
            Some(s) if s.starts_with("task:") => {
                let tag: u64 = s[5..].parse().unwrap();
                self.shared.lock().unwrap().received.push(tag);
                Poll::Ready(Some(T { tag, shared: self.shared.clone() }))
            }
            Some(s) if s == "closed" => Poll::Ready(None),
            _ => Poll::Pending,
        }
    }
}

struct ScriptSink {
    shared: Shared,
}

fn io_err() -> BackendError {
    BackendError::Io(io::Error::new(io::ErrorKind::BrokenPipe, "scripted"))
}

impl Sink<RespVec> for ScriptSink {
    type Error = BackendError;
    fn poll_ready(self: Pin<&mut Self>, _cx: &mut Context<'_>) -> Poll<Result<(), BackendError>> {
        match pop(&self.shared, "ready").as_deref() {
            Some("ready") => Poll::Ready(Ok(())),
            Some("err") => Poll::Ready(Err(io_err())),
            _ => Poll::Pending,
        }
    }
    fn start_send(self: Pin<&mut Self>, item: RespVec) -> Result<(), BackendError> {
        match pop(&self.shared, "send").as_deref() {
            Some("err") => Err(io_err()),
            _ => {
                if let Some(t) = tag_of(&item) {
                    self.shared.lock().unwrap().wire.push(t);
                }
                Ok(())
            }
        }
    }
    fn poll_flush(self: Pin<&mut Self>, _cx: &mut Context<'_>) -> Poll<Result<(), BackendError>> {
        match pop(&self.shared, "flush").as_deref() {
            Some("ok") => Poll::Ready(Ok(())),
            Some("err") => Poll::Ready(Err(io_err())),
            _ => Poll::Pending,
        }
    }
    fn poll_close(self: Pin<&mut Self>, _cx: &mut Context<'_>) -> Poll<Result<(), BackendError>> {
        Poll::Ready(Ok(()))
    }
}

struct ScriptStream {
    shared: Shared,
}

impl Stream for ScriptStream {
    type Item = Result<RespVec, BackendError>;
    fn poll_next(self: Pin<&mut Self>, _cx: &mut Context<'_>) -> Poll<Option<Self::Item>> {
        match pop(&self.shared, "stream") {
            Some(s) if s.starts_with("reply:") => Poll::Ready(Some(Ok(Resp::Simple(s[6..].as_bytes().to_vec())))),
            Some(s) if s == "err" => Poll::Ready(Some(Err(io_err()))),
            Some(s) if s == "closed" => Poll::Ready(None),
            _ => Poll::Pending,
        }
    }
}

#[tokio::test]
async fn verif_replay_conn() {
    let path = match std::env::var("VERIF_REPLAY_FILE") {
        Ok(p) => p,
        Err(_) => return,
    };
    let spec: serde_json::Value = serde_json::from_str(&std::fs::read_to_string(&path).expect("read")).expect("json");
    let shared: Shared = Default::default();
    let handler = Arc::new(H { shared: shared.clone() });
    let mut retry: Option<RetryState<T>> = None;
    let mut last_err = false;
    let empty = vec![];
    for conn in spec["conns"].as_array().unwrap_or(&empty) {
        {
            let mut l = shared.lock().unwrap();
            l.script.clear();
            if let Some(obj) = conn["script"].as_object() {
                for (k, v) in obj {
                    let q: VecDeque<String> = v.as_array().map(|a| a.iter().filter_map(|x| x.as_str().map(|s| s.to_string())).collect()).unwrap_or_default();
                    l.script.insert(k.clone(), q);
                }
            }
            if let Some(rs) = retry.as_ref() {
                for t in rs.tasks.iter() {
                    l.received.push(t.tag);
                }
            }
        }
        let mut rx = Rx { shared: shared.clone() };
        let writer: ConnSink<RespVec> = Box::pin(ScriptSink { shared: shared.clone() });
        let reader: ConnStream<RespVec> = Box::pin(ScriptStream { shared: shared.clone() });
        let fut = handle_conn(
            writer,
            reader,
            &mut rx,
            handler.clone(),
            retry.take(),
            Arc::new(BatchStats::default()),
            BatchStrategy::Disabled,
            NonZeroUsize::new(1024).unwrap(),
            Duration::from_secs(3600),
            Duration::from_secs(3600),
            Duration::from_secs(3600),
        );
        let mut fut = Box::pin(fut);
        let waker = noop_waker();
        let mut cx = Context::from_waker(&waker);
        last_err = false;
        for _ in 0..conn["rounds"].as_u64().unwrap_or(1) {
            match fut.as_mut().poll(&mut cx) {
                Poll::Pending => continue,
                Poll::Ready(Ok(())) => break,
                Poll::Ready(Err((_err, rs))) => {
                    retry = rs;
                    last_err = true;
                    break;
                }
            }
        }
        if !last_err {
            break;
        }
    }
    let l = shared.lock().unwrap();
    println!("\nVERIF-REPLAY: info wire={:?} handled={:?} results={:?} received={:?} retry={:?}", l.wire, l.handled, l.results, l.received, retry.as_ref().map(|r| r.tasks.iter().map(|t| t.tag).collect::<Vec<_>>()));
    for (task, reply) in l.handled.iter() {
        if let Some(r) = reply {
            if r != task {
                println!("\nVERIF-REPLAY: violated C08/reply-delivered-to-another-request request {} got the reply of {}", task, r);
            }
        }
    }
    for (task, n) in l.results.iter() {
        if *n > 1 {
            println!("\nVERIF-REPLAY: violated C08/request-completed-twice request {} completed {} times", task, n);
        }
    }
    if last_err {
        let in_retry: Vec<u64> = retry.as_ref().map(|r| r.tasks.iter().map(|t| t.tag).collect()).unwrap_or_default();
        let mut seen = std::collections::HashSet::new();
        for t in l.received.iter() {
            if !seen.insert(*t) {
                continue;
            }
            let n = l.results.get(t).cloned().unwrap_or(0) + in_retry.iter().filter(|x| *x == t).count();
            if n != 1 {
                println!("\nVERIF-REPLAY: violated C08/request-lost-after-connection-error request {} accounted {} times", t, n);
            }
        }
        if spec["persistent"].as_bool().unwrap_or(false) && !in_retry.is_empty() {
            println!("\nVERIF-REPLAY: violated C08/request-retried-forever still retrying {:?} after {} connections", in_retry, spec["conns"].as_array().map(|a| a.len()).unwrap_or(0));
        }
    }
    println!("\nVERIF-REPLAY: done");
}
