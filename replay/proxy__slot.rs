// Native replay for C09 (routing decision): real SlotMap on concrete layouts.
use super::*;

#[test]
fn verif_replay_routing() {
    let path = match std::env::var("VERIF_REPLAY_FILE") {
        Ok(p) => p,
        Err(_) => return,
    };
    let spec: serde_json::Value = serde_json::from_str(&std::fs::read_to_string(&path).expect("read")).expect("json");
    let slot = spec["slot"].as_u64().expect("slot") as usize;
    use crate::common::cluster::{Range, RangeList, SlotRange, SlotRangeTag};
    use std::collections::HashMap;
    let mut decide = |which: &str| -> (Option<String>, bool) {
        let mut m: HashMap<String, Vec<SlotRange>> = HashMap::new();
        let mut covered = false;
        if let Some(obj) = spec["layout"][which].as_object() {
            for (addr, ranges) in obj {
                let rs: Vec<(usize, usize)> = serde_json::from_value(ranges.clone()).expect("ranges");
                for (a, b) in rs.iter() {
                    if a <= b && *a <= slot && slot <= *b && slot < crate::common::utils::SLOT_NUM {
                        covered = true;
                    }
                }
                let mut rl = RangeList::from_single_range(Range(0, 0));
                *rl.get_mut_ranges() = rs.into_iter().map(|(a, b)| Range(a, b)).collect();
                m.entry(addr.clone()).or_default().push(SlotRange { range_list: rl, tag: SlotRangeTag::None });
            }
        }
        let map = SlotMap::from_ranges(m);
        (map.get(slot).map(|s| s.to_string()), covered)
    };
    let (l, lc) = decide("local");
    let (p, pc) = decide("peer");
    if l.is_some() != lc {
        println!("\nVERIF-REPLAY: violated C09/own-slot-not-executed-locally slot={} local={:?} covered={}", slot, l, lc);
    }
    if p.is_some() != pc {
        println!("\nVERIF-REPLAY: violated C09/moved-to-node-not-covering-slot slot={} peer={:?} covered={}", slot, p, pc);
    }
    let moved = crate::common::utils::gen_moved(slot, "x:1".to_string());
    if moved != format!("MOVED {} x:1", slot) {
        println!("\nVERIF-REPLAY: violated C09/moved-reply-malformed {}", moved);
    }
    println!("\nVERIF-REPLAY: done");
}
